#!/usr/bin/env python3
"""Confirm sub-agent deliveries before they are kept.

usage: confirm_seed.py <delivery root> <worktree prefix>      e.g.  /tmp/seed2 /tmp/wt2-
For every <root>/<PID>/m<k>.diff: in the scratch worktree <prefix><PID> (moved to /repo's HEAD, clean):
  demo must exit 0; `git apply` the diff; demo must exit 1; tally's tests (minus the two files that need a browser / uv) must pass;
  the worktree is reset.  Properties run in parallel (one worktree each).  Nothing touches /repo.
Prints one JSON line per change."""
import glob
import json
import os
import subprocess
import sys
from concurrent.futures import ThreadPoolExecutor


def sh(cmd, **kw):
    return subprocess.run(cmd, shell=True, capture_output=True, text=True, **kw)


def one(args):
    root, prefix, pid = args
    wt = prefix + pid
    head = sh('git -C /repo rev-parse HEAD').stdout.strip()
    sh(f'git -C {wt} checkout -q -- . ; git -C {wt} clean -fdq ; git -C {wt} checkout -q --detach {head}')
    out = []
    for diff in sorted(glob.glob(f'{root}/{pid}/m*.diff')):
        k = os.path.basename(diff)[:-5]
        rec = {'property': pid, 'change': k}
        demo = f'{root}/{pid}/{k}_demo.py'
        env = dict(os.environ, TALLY_SRC=f'{wt}/src')

        def run_demo():
            try:
                r = subprocess.run(['/venv/bin/python', demo], capture_output=True, text=True, env=env, timeout=600, cwd='/var/tmp')
                return r.returncode, (r.stdout + r.stderr)[-300:]
            except subprocess.TimeoutExpired:
                return -9, 'timeout'
        rec['demo_clean'] = run_demo()[0]
        a = sh(f'git -C {wt} apply --whitespace=nowarn {diff}')
        if a.returncode != 0:
            a = sh(f'cd {wt} && patch -p1 -s < {diff}')
        if a.returncode != 0:
            rec['apply_error'] = (a.stdout + a.stderr)[-300:]
        else:
            rc, o = run_demo()
            rec['demo_changed'] = rc
            rec['demo_out'] = o[-200:]
            t = sh(f'cd {wt} && PYTHONPATH={wt}/src /venv/bin/python -m pytest -q -p no:cacheprovider --ignore tests/test_cli.py --ignore tests/test_report_html.py 2>&1 | tail -2')
            rec['tests'] = t.stdout.strip().splitlines()[-1][:80] if t.stdout.strip() else ''
        sh(f'git -C {wt} checkout -q -- . ; git -C {wt} clean -fdq')
        rec['ok'] = rec.get('demo_clean') == 0 and rec.get('demo_changed') == 1 and ' passed' in rec.get('tests', '') and 'failed' not in rec.get('tests', '')
        out.append(rec)
    return out


def main():
    root, prefix = sys.argv[1], sys.argv[2]
    pids = sorted(os.path.basename(d) for d in glob.glob(f'{root}/C*') if glob.glob(f'{d}/m*.diff'))
    if len(sys.argv) > 3:
        pids = [p for p in pids if p in sys.argv[3:]]
    with ThreadPoolExecutor(max_workers=10) as ex:
        for recs in ex.map(one, [(root, prefix, p) for p in pids]):
            for r in recs:
                print(json.dumps(r))


if __name__ == '__main__':
    main()
