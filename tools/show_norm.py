#!/usr/bin/env python3
"""Print the loader's normal form of one function, optionally with a diff applied to an export of /repo HEAD.
usage: show_norm.py <module rel path> <function name> [diff]"""
import ast, os, shutil, subprocess, sys, tempfile
HERE = os.path.dirname(os.path.dirname(os.path.abspath(__file__)))
sys.path.insert(0, HERE)
from sa.project import Project
rel, fn = sys.argv[1], sys.argv[2]
root = '/repo'
tmp = None
if len(sys.argv) > 3:
    tmp = tempfile.mkdtemp(prefix='shownorm-', dir='/var/tmp')
    subprocess.run(f'git -C /repo archive HEAD | tar -x -C {tmp}', shell=True, check=True)
    subprocess.run(['patch', '-p1', '-s', '-d', tmp, '-i', os.path.abspath(sys.argv[3])], check=True)
    root = tmp
try:
    proj = Project(root)
    for m in proj.modules.values():
        if m.relpath.endswith(rel):
            for n in ast.walk(m.tree):
                if isinstance(n, (ast.FunctionDef, ast.AsyncFunctionDef)) and n.name == fn:
                    print(ast.unparse(n))
finally:
    if tmp:
        shutil.rmtree(tmp, ignore_errors=True)
