#!/usr/bin/env python3
"""Install confirmed sub-agent deliveries as /verif/seeded/<PID>-m<k>/ and record what the checks did at first try.

usage: install_seeds.py <delivery root> <confirm.jsonl> "<origin text>"
<confirm.jsonl> is the output of tools/confirm_seed.py; only lines with "ok": true are installed.  The next free
m<k> per property is used.  detection_at_first_try is computed here (all 20 packs on a throw-away export with the
patch applied), before any pack is edited for the new round.
"""
import glob
import json
import os
import re
import shutil
import sys

HERE = os.path.dirname(os.path.dirname(os.path.abspath(__file__)))
sys.path.insert(0, os.path.join(HERE, 'tools'))
import seed_check  # noqa: E402


def main():
    root, conf, origin = sys.argv[1], sys.argv[2], sys.argv[3]
    made = []
    for line in open(conf):
        line = line.strip()
        if not line.startswith('{'):
            continue
        r = json.loads(line)
        if not r.get('ok'):
            print('not installed:', r['property'], r['change'], {k: r.get(k) for k in ('demo_clean', 'demo_changed', 'tests', 'apply_error')})
            continue
        pid, k = r['property'], r['change']
        nums = [int(re.search(r'-m(\d+)$', d).group(1)) for d in glob.glob(f'{HERE}/seeded/{pid}-m*')]
        n = max(nums or [0]) + 1
        d = f'{HERE}/seeded/{pid}-m{n}'
        os.makedirs(d)
        shutil.copy(f'{root}/{pid}/{k}.diff', f'{d}/patch.diff')
        shutil.copy(f'{root}/{pid}/{k}_demo.py', f'{d}/demo.py')
        try:
            m = json.load(open(f'{root}/{pid}/{k}.json'))
        except Exception:
            m = {}
        meta = {
            'property': pid,
            'breaks': m.get('breaks', ''),
            'needs_to_manifest': m.get('needs_to_manifest', ''),
            'files': m.get('files', []),
            'origin': origin,
            'confirmed_by_me': {
                'how': 'tools/confirm_seed.py in the scratch worktree: demo on the clean tree, git apply patch.diff, demo again, tally tests (690, without test_cli/test_report_html which need uv / a browser), reset',
                'demo_exit_clean_tree': r['demo_clean'], 'demo_exit_with_patch': r['demo_changed'], 'tests_with_patch': r['tests'],
            },
            'run': 'TALLY_SRC=/repo/src /venv/bin/python demo.py  (exit 0 = property holds, exit 1 = violated)',
        }
        json.dump(meta, open(f'{d}/meta.json', 'w'), indent=1)
        made.append(d)
    from concurrent.futures import ProcessPoolExecutor
    with ProcessPoolExecutor(max_workers=16) as ex:
        results = list(ex.map(seed_check.run_one, [(d, False) for d in made]))
    for (name, pid, out), d in zip(results, made):
        v = {p: r[1] for p, r in out.items() if p != '_apply' and r[0] == 'VIOLATION'}
        e = sorted(p for p, r in out.items() if p != '_apply' and r[0] == 'ERR')
        meta = json.load(open(f'{d}/meta.json'))
        meta['detection_at_first_try'] = {'own_check': pid in v, 'any_check': bool(v), 'checks': dict(sorted(v.items()))}
        if e:
            meta['detection_at_first_try']['exit2'] = e
        if '_apply' in out:
            meta['detection_at_first_try']['apply_error'] = out['_apply']
        json.dump(meta, open(f'{d}/meta.json', 'w'), indent=1)
        print(f'{name:10} own={pid in v} any={bool(v)} exit2={e} ' + '; '.join(f'{p}: {r[0]}' for p, r in v.items()))


if __name__ == '__main__':
    main()
