#!/usr/bin/env python3
"""Regenerate sa/refnames.json (the reference vocabulary of function-local names, see sa/canon.py) from /repo's current tree.
Run it only on a tree on which every check has been confirmed: the rules' local-variable names are the ones recorded here."""
import json
import os
import sys

sys.path.insert(0, os.path.dirname(os.path.dirname(os.path.abspath(__file__))))
from sa import canon            # noqa: E402

ROOT = os.environ.get('TALLY_REPO', '/repo')
files = []
for d, _x, fs in os.walk(os.path.join(ROOT, 'src/tally')):
    for f in fs:
        if f.endswith('.py'):
            files.append(os.path.relpath(os.path.join(d, f), ROOT))
ref = canon.build_reference(ROOT, sorted(files))
with open(canon.REF, 'w', encoding='utf-8') as f:
    json.dump(ref, f, indent=0, sort_keys=True)
print(f"{sum(len(v) for v in ref.values())} functions, {sum(len(s['l']) for v in ref.values() for s in v.values())} locals -> {canon.REF}")
