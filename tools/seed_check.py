#!/usr/bin/env python3
"""Run the checks against every seeded change under /verif/seeded, in parallel, without touching /repo:
each patch is applied to a throw-away export of /repo's HEAD under /var/tmp (removed afterwards) and the packs
are run with that directory as the analysed root.

usage: seed_check.py [--own] [name-filter]
"""
import glob
import importlib
import json
import os
import shutil
import subprocess
import sys
import tempfile
from concurrent.futures import ProcessPoolExecutor

HERE = os.path.dirname(os.path.dirname(os.path.abspath(__file__)))
sys.path.insert(0, HERE)
from sa import core                     # noqa: E402
from sa.project import Project          # noqa: E402

ALL = [f'C{i:02d}' for i in range(1, 21)]


def run_one(args):
    d, own_only = args
    name = os.path.basename(d)
    meta = json.load(open(os.path.join(d, 'meta.json')))
    pid = meta['property']
    if meta.get('superseded'):
        return name, pid, {'_superseded': ('SUPERSEDED', [meta['superseded'][:60]])}
    tmp = tempfile.mkdtemp(prefix='seedchk-', dir='/var/tmp')
    try:
        subprocess.run(f'git -C /repo archive HEAD src config docs | tar -x -C {tmp}', shell=True, check=True)
        r = subprocess.run(['patch', '-p1', '-s', '-d', tmp, '-i', os.path.join(d, 'patch.diff')], capture_output=True, text=True)
        if r.returncode != 0:
            return name, pid, {'_apply': r.stdout[-200:] + r.stderr[-200:]}
        out = {}
        known = core.load_known()
        for p in ([pid] if own_only else ALL):
            pack = importlib.import_module(f'sa.packs.{p.lower()}')
            res = core.run_pack(p, 'quick', pack.check, proj=Project(tmp))
            if res['error']:
                out[p] = ('ERR', res['error'][:140])
                continue
            _k, new = core.classify(p, res['ctx'])
            if new:
                out[p] = ('VIOLATION', [f'{o.rule} {o.site} [{o.construct}]'[:110] for o in new[:3]])
            elif res.get('floor_error'):
                out[p] = ('ERR', res['floor_error'][:140])
        return name, pid, out
    finally:
        shutil.rmtree(tmp, ignore_errors=True)


def main():
    own = '--own' in sys.argv
    filt = [a for a in sys.argv[1:] if not a.startswith('--')]
    dirs = sorted(d for d in glob.glob(os.path.join(HERE, 'seeded', '*')) if os.path.isdir(d) and (not filt or any(f in d for f in filt)))
    with ProcessPoolExecutor(max_workers=16) as ex:
        results = list(ex.map(run_one, [(d, own) for d in dirs]))
    det = 0
    results = [r for r in results if '_superseded' not in r[2]]
    for name, pid, out in results:
        v = {p: r for p, r in out.items() if p != '_apply' and r[0] == 'VIOLATION'}
        e = {p: r for p, r in out.items() if p != '_apply' and r[0] == 'ERR'}
        status = 'NO-APPLY' if '_apply' in out else 'DETECTED' if v else ('exit2' if e else 'miss')
        if '_apply' in out:
            v, e = {}, {}
        det += bool(v)
        print(f'{name:10} {status:9} ' + '; '.join(f'{p}: {r[1][0]}' for p, r in v.items()) + (' | ERR ' + '; '.join(f'{p}: {r[1]}' for p, r in e.items()) if e else ''))
    print(f'detected {det}/{len(results)}')


if __name__ == '__main__':
    main()
