#!/usr/bin/env python3
"""Run every check against behaviour-preserving refactorings delivered as diffs (by independent sub-agents) and report anything
that is not silent.  Each diff is applied to a throw-away export of /repo's HEAD under /var/tmp; tally's own tests are run on the
patched export first (a refactoring that breaks a test is not neutral and is reported as such).

usage: neutral_check.py <dir with */n*.diff>  [name-filter …]"""
import glob
import importlib
import os
import shutil
import subprocess
import sys
import tempfile
from concurrent.futures import ProcessPoolExecutor

HERE = os.path.dirname(os.path.dirname(os.path.abspath(__file__)))
sys.path.insert(0, HERE)
from sa import core                     # noqa: E402
from sa.project import Project          # noqa: E402

ALL = [f'C{i:02d}' for i in range(1, 21)]


def base_fails():
    out = {}
    for p in ALL:
        pack = importlib.import_module(f'sa.packs.{p.lower()}')
        res = core.run_pack(p, 'quick', pack.check, proj=Project('/repo'))
        out[p] = {o.key for o in res['ctx'].obligations if o.status == 'fail'} if not res['error'] else set()
    return out


def run_one(args):
    diff, base = args
    name = '/'.join(diff.split('/')[-2:])
    tmp = tempfile.mkdtemp(prefix='neutchk-', dir='/var/tmp')
    try:
        subprocess.run(f'git -C /repo archive HEAD | tar -x -C {tmp}', shell=True, check=True)
        r = subprocess.run(['patch', '-p1', '-s', '-d', tmp, '-i', diff], capture_output=True, text=True)
        if r.returncode != 0:
            return name, ['does not apply: ' + (r.stdout + r.stderr)[-160:]]
        t = subprocess.run(f'cd {tmp} && PYTHONPATH={tmp}/src /venv/bin/python -m pytest -q -p no:cacheprovider --ignore tests/test_cli.py --ignore tests/test_report_html.py 2>&1 | tail -1',
                           shell=True, capture_output=True, text=True)
        out = []
        if ' passed' not in t.stdout or 'failed' in t.stdout:
            out.append('NOT NEUTRAL (tests): ' + t.stdout.strip()[-120:])
        for p in ALL:
            pack = importlib.import_module(f'sa.packs.{p.lower()}')
            res = core.run_pack(p, 'quick', pack.check, proj=Project(tmp))
            if res['error']:
                out.append(f'{p}: ANALYSIS-ERROR {res["error"][:220]}')
                continue
            new = sorted({o.key for o in res['ctx'].obligations if o.status == 'fail'} - base[p])
            if new:
                det = {o.key: o.detail for o in res['ctx'].obligations if o.status == 'fail'}
                out.append(f'{p}: FALSE ALARM {new[:4]} :: {det[new[0]][:160]}')
            elif res.get('floor_error'):
                out.append(f'{p}: floor error {res["floor_error"][:200]}')
        return name, out
    finally:
        shutil.rmtree(tmp, ignore_errors=True)


def main():
    root = sys.argv[1]
    filt = sys.argv[2:]
    diffs = sorted(d for d in glob.glob(os.path.join(root, '*', 'n*.diff')) if not filt or any(f in d for f in filt))
    base = base_fails()
    bad = 0
    with ProcessPoolExecutor(max_workers=16) as ex:
        for name, out in ex.map(run_one, [(d, base) for d in diffs]):
            if out:
                bad += 1
                for line in out:
                    print(f'{name}: {line}')
            else:
                print(f'{name}: silent')
    print(f'{len(diffs)} refactorings, {bad} not silent')


if __name__ == '__main__':
    main()
