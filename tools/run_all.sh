#!/bin/sh
# run every check (quick) and print one line per property; exit 1 if any is not rc 0
cd "$(dirname "$0")/.." || exit 2
rc=0
for p in C01 C02 C03 C04 C05 C06 C07 C08 C09 C10 C11 C12 C13 C14 C15 C16 C17 C18 C19 C20; do
  out=$(./check $p --tier ${1:-quick} 2>&1); r=$?
  echo "$p rc=$r $(echo "$out" | grep "^$p \[" | head -1)"
  [ $r -ne 0 ] && rc=1 && echo "$out" | grep "VIOLATION\|ANALYSIS-ERROR\|SELFCHECK-MISS" | head -5
done
exit $rc
