#!/usr/bin/env python3
"""Regenerate /verif/MANIFEST.json from the table below and the packs present."""
import json
import os

HERE = os.path.dirname(os.path.dirname(os.path.abspath(__file__)))

TABLE = {
    'C01': dict(
        text='Static selection-discipline check of the three deciders (MerchantEngine.match first_match branch, legacy loop of normalize_merchant, Unknown fallback): rule order preserved by every builder, first-wins accumulator guarded by matched & unset & has-category, result fields read from one winner binding, non-matching rules inert, transforms applied before matching, right variable environment. Decides the necessary structural conditions on all paths of these functions, not the truth of any rule condition. The CSV loader turns every row into a rule independently of the rows before it (no carried container or name guards the append); the dispatch between expression and regex is decided by the expression parser, not by sniffing characters. The transaction dict handed to the rule evaluation carries description, amount, fields, source and location as given.',
        note='Assumes lexical name resolution, CPython semantics; the truth of match conditions and legacy modifier arithmetic are not decided.',
        tech='CFG control dependence + reaching definitions + who-may-reorder scan over the call graph'),
    'C02': dict(
        text='Static check that tag collection is control-dependent on the match flag only, accumulates monotonically in both modes, passes lower()/strip/non-empty, that every winner selection filters on has-category, and that tags survive every return of normalize_merchant and reach the transaction dict in all three parsers. Tags items are stored by the loader as written (no case fold on {expression} text); values produced by a generator helper are judged at their yield. Candidate filters are read as the conjuncts every candidate satisfies; a legacy result without match info is returned only when no tag was collected. The text of a tags: line is split into items as written.',
        note='Values of {expr} tags are not decided.',
        tech='control dependence + def-use provenance on tag accumulators'),
    'C03': dict(
        text='Inductive confinement argument over expr_parser: gate dominance of validate_ast before cache/evaluation, no forbidden builtins or modules reachable, closed reflective names (getattr arguments), closed callee tables, functions never returned as values, whitelist x evaluator cross-check, inputs not mutated, interpreter objects not stringified. Every premise is a syntactic/dataflow fact checked on every path of every _eval_*/_fn_* method. No rule / view text is used as a str.format template in the loader modules; getattr names are literals, ast class names or members of a constant collection / table of public names.',
        note='Resource exhaustion not in scope; C-level library functions trusted to behave as documented.',
        tech='dominator queries + taint/provenance over the evaluator classes + call-graph reachability of sinks'),
    'C04': dict(
        text='Structural clauses only: identifier normalisation agrees between definition and lookup sites, case-fold symmetry in each string primitive, zero-divisor guards, short-circuit shape of BoolOp, comparison-chain shape, primitive-name agreement, sibling evaluator agreement, operator-table agreement, function->library-primitive table, reference tables subset of implementation. The value-level part of the statement is declined. Every identifier read off an expression tree is lower-cased; the text handed to ast.parse is the caller\'s text, unrewritten; name tables are read through if-chains or constant collections alike.',
        note='Function results, equivalence laws, date and float semantics are NOT decided (majority of the statement).',
        tech='AST normal-form comparison of sibling evaluators + provenance checks + table agreement'),
    'C05': dict(
        text='Static check of parse_generic_csv: finite non-zero guard between amount conversion and append, per-row try containment with handler coverage of the exception-escape set, column provenance of every emitted field, sign discipline (abs before negate, once), total delimiter dispatch with header skip, append inside the row loop with unsorted return. Row independence (no name or container carries information between rows); the classifier receives a date; each reader\'s first line is skipped under has_header. Currency symbols are deleted by a bare character class (no anchor).',
        note='What csv.reader / strptime / parse_amount return for a given cell is not decided.',
        tech='dominator + exception-escape analysis + def-use provenance'),
    'C06': dict(
        text='categorize_amount is symbolically normalised to its decision tree and compared with the table written from the property (exactly one bucket per path, six leaves, precedence, |amount|); in analyze_transactions every accumulator is updated exactly once on every acyclic path of the loop body, with the right quantity in the right slot, commutatively.',
        note='Floating-point associativity under permutation is not decided.',
        tech='decision-tree normal form + path enumeration over the loop-body CFG + def-use'),
    'C07': dict(
        text='State inventory of all module-level mutable bindings; memo-soundness of each cache store (key carries every input of the value); every path of get_all_rules assigns the engine cache; parse() resets every attribute written while parsing; evaluators are per-evaluation; match() and everything it reaches never stores into rules / data_sources / the transaction outside apply_transforms. Only the functions of the cache protocol read the engine cache; nothing changes an engine attribute while a transaction is classified; a memo holds what was computed from its key; writing through an entry of a one-level copy counts as writing to the original.',
        note='Lexical resolution; no monkey-patching.',
        tech='global-state inventory + all-paths must-assign (CFG) + mutation/ownership scan over call-graph reachability'),
    'C08': dict(
        text='Exception-escape analysis: the set of exception classes that can leave the evaluation entry points (fixed point over the call graph with a table of raising primitives applied to expression-supplied operands) must be covered by the handlers around each external evaluation site inside item loops, and must not propagate to the row/source handlers.',
        note='RecursionError/MemoryError out of scope; raising-primitive table is the trusted base.',
        tech='interprocedural exception-escape analysis + handler coverage at 13 call sites'),
    'C09': dict(
        text='Selection idiom of the most_specific branch (max over candidates in rule order, first of equal keys), shape and provenance of the 4-tuple key, keyword tables agree with the language, structural quantities computed from structure, rule_mode plumbing. The winner of a field is chosen among rules that provide that field. The candidates of one field never depend on the winner of another.',
        note='Ranking arithmetic on concrete rule sets not decided.',
        tech='idiom matching + provenance of key components + table agreement'),
    'C10': dict(
        text='classify_merchants is a full double loop appending under the filter result only; variable dicts copied before adding locals; only exclusion guard is is_excluded_from_spending; get_cv normalises to population CV; month bucket keys agree; section totals sum members; dates handed to the view context derive from real dates. cv depends on the merchant\'s own monthly totals only; no positional argument lands in a parameter of another name (crossed-argument rule).',
        note='Aggregate values not decided.',
        tech='CFG shape + ownership + arithmetic normal form + provenance'),
    'C11': dict(
        text='Wiring of every documented setting from load_config/resolve_source_format through cmd_run into the consuming parameter (def-use chains), per-source isolation, error paths of the source loop keep going, parser siblings agree, documented keys are consumed. The source file is looked up under the budget only; every source gets a FormatSpec of its own (no module-level or caller-provided cache); no setting is derived from another; crossed-argument rule over the loaders. The date column of a supplemental row is reduced to a date like the transaction\'s.',
        note='Report contents as values not decided; cmd_run cannot be executed by the suite, analysis is source-only.',
        tech='def-use chains across functions + CFG exit analysis of the source loop'),
    'C12': dict(
        text='No unbound names in analyzer/report functions; script-safe embedding of the JSON data; placeholder replacement discipline; key functions injective or collision-handled; one source for headline figures; field coverage between analyzer writer and report reader. Finding keys of the id helpers include the sanitiser\'s own operations; formatting wrappers pass the amount unchanged; the report builders change nothing they did not create. Every rewrite of the serialised data is another JSON spelling of the same text. Each headline figure is printed under its own label in every format; per-category type totals classify a transaction by its own tags. Type totals are accumulated transaction by transaction.',
        note='HTML/JSON parser round trip (library behaviour) and text layout not decided.',
        tech='symbol-table analysis + text-template/sanitiser provenance'),
    'C13': dict(
        text='Translation validation: classification.py (ast) and the mirrored block of spending_report.js (own JS parser) are normalised to the same decision-tree terms and compared path by path for 7 function pairs and 5 constants; every JS call site of categorizeAmount is checked for argument provenance; special-tag literals outside the block are audited. External report assets are rewritten on every run. Decision trees that differ as path sets are compared by truth table over their atomic conditions; a JS switch is read as the if-chain it abbreviates. Arithmetic helpers receive their figures in parameter order at every JavaScript call site.',
        note='Assumes primitive correspondences (str.lower vs toLowerCase on ASCII tags, IEEE doubles on both sides, Set.has vs in).',
        tech='two front ends -> common decision-tree normal form, structural equality',
        level='translation_validation'),
    'C14': dict(
        text='Literal-context escaping of values interpolated into generated rule text, operator tables of modifier_parser / evaluators / _modifier_to_expr agree, per-operator meaning agrees, writer domain within reader domain, the two converters build the same expression. Every loaded CSV rule reaches the converter (no list rebuilt in between). The migration writes in the encoding the loader reads. Thresholds are written into generated rules without format specs or rounding.',
        note='Regex semantics beyond the quoting layer not decided.',
        tech='text-template hole analysis + operator-table agreement + normal-form comparison'),
    'C15': dict(
        text='Ordered effect sequence of each migration function run through a typestate automaton of what load_config can discover: pointer before destroy, nothing fallible after the destructive step, no overwrite by move, marker last, append-only settings. No directory is relocated entry by entry; the marker is written under the destination of the config move. The migrated file is read back only after a successful migration.',
        note='Resumability of the half-done layout migration and torn writes not decided.',
        tech='effect-sequence extraction along the CFG + typestate automaton'),
    'C16': dict(
        text='Sibling cross-check of cmd_run / cmd_explain / cmd_discover pipelines (feature vectors of loading, supplemental handling, parse_generic_csv keywords), one decision procedure reachable from each command, the Unknown literal contract. One place (load_config) decides the rules file; explain matches the amount it was given. A merchant found by a looser match is explained only where the exact name has been tried and failed. Inline modifiers are consulted under the same condition by explain and by the classifier; discover\'s totals are not computed from the list cut to --limit. Legacy patterns are searched with the same flags, and supplemental data is loaded under the same conditions, by explain / discover as by up.',
        note='Output formatting not decided.',
        tech='call-graph reachability + keyword-provenance feature vectors, contradiction rule'),
    'C17': dict(
        text='Line loops of MerchantEngine.parse and parse_sections consume-or-raise on every path, every kept expression reaches parse_expression before the engine is returned, load errors are reported by every handler, required-property guards dominate construction, classifier tests apply to the stripped line. Category-or-tags requirement decided by truth table over the guards of the construction; rejections classified by the branch outcomes leading to each raise; the line is classified as written; a property line is accepted independently of the section\'s other properties; a section is never rejected because of other sections. Per-section containers (let_bindings, fields) are created for the section, never inherited through a one-level copy of a shared template. A section is closed with the line of its own header; a configured rules file is loaded (and its failure reported) whether or not it exists.',
        note='The full metamorphic law over all files not decided.',
        tech='CFG path/dominance rules + handler audit'),
    'C18': dict(
        text='Positions stored from enumerate() unmodified, rejections dominate stores/construction, inspect writer tokens are accepted by the reader regex (constant evaluation of source literals), name agreement in the suggestion loop. Every date format the detector can emit is free of commas and braces; sign flags are only written for the amount field. The four rejections are recognised by the guards of their raise statements; a header gives its index to at most one column of the detector. The suggestion range is only ever widened. The description template reaches the FormatSpec as written.',
        note='Header keyword detection on real files not decided.',
        tech='dominance + provenance + regex-literal writer/reader agreement'),
    'C19': dict(
        text='Language agreement between suggest_pattern (regex text) and the matcher its consumers wrap it in, literal-context escaping at both consumers, emitted block uses keys of the loader table. No regex assertion is glued around the kept words; the loader reads each line back as written. Deletion patterns assembled from constant tables or precompiled at module level are folded and checked for anchoring. Property lines are cut at the first colon; the escaping class holds every regex metacharacter; unknown transactions are grouped by their raw statement text.',
        note='Sub-match reasoning about stripped prefixes not decided.',
        tech='producer/consumer language inference + template hole analysis'),
    'C20': dict(
        text='Who-may-write: reachable filesystem/process sinks from each read-only command are a subset of the sanctioned writers; output paths derive from the output parameter; migration is opt-in; init never clobbers; backup kept. The --config directory is made absolute before its parent is taken as the budget folder.',
        note='Lexical call graph (over-approximate by-name fallback for methods).',
        tech='effect inventory + call-graph reachability + guard dominance'),
}

TITLES = {}
with open(os.path.join(HERE, 'properties.jsonl')) as f:
    for line in f:
        d = json.loads(line)
        TITLES[d['id']] = d['title']

NA_REASONS = {}


def main():
    checks = []
    na = []
    for pid in sorted(TABLE):
        t = TABLE[pid]
        has_pack = os.path.exists(os.path.join(HERE, 'sa', 'packs', pid.lower() + '.py'))
        if not has_pack:
            na.append({'property_id': pid, 'reason': NA_REASONS.get(pid, 'rule pack designed (DESIGN.md section 3) but not yet built in this snapshot; not claimed until its check exists')})
            continue
        checks.append({
            'property_id': pid,
            'quick_cmd': f'./check {pid} --tier quick',
            'thorough_cmd': f'./check {pid} --tier thorough',
            'evidence_file': f'/verif/evidence/{pid}.json',
            'replay_cmd_template': f'./check {pid} --explain {{path}}',
            'engine': 'sa',
            'level_claimed': {'category': t.get('level', 'other'), 'text': t['text'], 'design_ref': f'DESIGN.md section 3, {pid}'},
            'level_note': t['note'],
            'technique': 'static analysis: ' + t['tech'],
        })
    m = {
        'version': 1,
        'setup_cmd': 'python3-vt -B -c "import ast, networkx; import sa.run" ',
        'hooks': {
            'guard': 'TALLY_VERIF',
            'enable': 'none needed: static analysis reads /repo source and instruments nothing',
            'baseline_off_cmd': 'cd /repo && /venv/bin/python -m pytest -q -p no:cacheprovider --timeout=900 --continue-on-collection-errors',
            'source_commits': [],
            'add_only': True,
        },
        'engines': [{'name': 'sa', 'path': '/verif/sa', 'serves_properties': [c['property_id'] for c in checks],
                     'kind_free_text': 'repository-specific static analyser: ast loader, statement CFG with dominators / post-dominators / control dependence / reaching definitions, resolved call graph, provenance, exception-escape analysis, decision-tree normal form, JS subset parser; never imports or runs tally'}],
        'checks': checks,
        'not_applicable': na,
        'notes': 'All checks are static (source only). exit 0 ok / exit 1 VIOLATION / exit 2 ANALYSIS-ERROR. known_findings.json lists recorded genuine defects.',
    }
    with open(os.path.join(HERE, 'MANIFEST.json'), 'w') as f:
        json.dump(m, f, indent=1)
    print(f'{len(checks)} checks, {len(na)} not_applicable')


if __name__ == '__main__':
    main()
