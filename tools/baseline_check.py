#!/usr/bin/env python3
"""Run the pinned baseline command on /repo (or $1) and compare with BASELINE.stable_pass."""
import json, subprocess, sys, tempfile, os, xml.etree.ElementTree as ET
repo = sys.argv[1] if len(sys.argv) > 1 else '/repo'
base = json.load(open('/root/.vp/BASELINE.json'))
out = tempfile.mktemp(suffix='.xml', dir='/var/tmp')
cmd = f"cd {repo} && /venv/bin/python -m pytest -ra -q -p no:cacheprovider --timeout=900 --continue-on-collection-errors --junitxml={out}"
env = dict(os.environ); env.pop('TALLY_VERIF', None)
subprocess.run(cmd, shell=True, stdout=subprocess.DEVNULL, stderr=subprocess.DEVNULL, env=env)
passed = set()
for tc in ET.parse(out).getroot().iter('testcase'):
    if not any(ch.tag in ('failure', 'error', 'skipped') for ch in tc):
        passed.add(f"{tc.get('classname')}::{tc.get('name')}")
os.remove(out)
stable = set(base['stable_pass'])
missing = sorted(stable - passed)
print(f'stable={len(stable)} passed_now={len(passed)} stable_missing={len(missing)}')
for m in missing[:20]:
    print('  MISSING', m)
sys.exit(1 if missing else 0)
