#!/usr/bin/env python3
"""Evaluate seeded changes against the checks.

usage: try_seed.py <dir with m*.diff / m*_demo.py / m*.json> [--all-checks] [--keep <PID>]

For each m<k>.diff:  demo on the clean /repo must exit 0;  apply the diff to /repo;  demo must exit 1;  the 701-test
baseline must still pass;  run the property's check (and optionally all checks) and record which raise VIOLATION;
undo the diff (git checkout -- .).  Nothing is ever committed to /repo.
"""
import glob
import json
import os
import re
import subprocess
import sys

REPO = '/repo'
VERIF = os.path.dirname(os.path.dirname(os.path.abspath(__file__)))
ALL = [f'C{i:02d}' for i in range(1, 21)]


def sh(cmd, **kw):
    return subprocess.run(cmd, shell=True, capture_output=True, text=True, **kw)


def demo(path):
    env = dict(os.environ, TALLY_SRC=f'{REPO}/src')
    r = subprocess.run(['/venv/bin/python', path], capture_output=True, text=True, env=env, timeout=300, cwd='/var/tmp')
    return r.returncode, (r.stdout + r.stderr)[-400:]


def clean():
    sh(f'git -C {REPO} checkout -- . && git -C {REPO} clean -fdq -- src config docs')


def run_check(pid):
    r = sh(f'cd {VERIF} && ./check {pid} --tier quick')
    viol = re.findall(r'^\s+(\S+:\d+) (\S+) rule=(\S+) instance=\[(.*?)\]', r.stdout, re.M)
    err = [l for l in r.stdout.splitlines() if l.startswith('ANALYSIS-ERROR')]
    return r.returncode, viol, err


def main():
    d = sys.argv[1].rstrip('/')
    all_checks = '--all-checks' in sys.argv
    assert sh(f'git -C {REPO} status --porcelain').stdout.strip() == '', '/repo is not clean'
    out = []
    for diff in sorted(glob.glob(f'{d}/m*.diff')):
        k = os.path.basename(diff)[:-5]
        meta = {}
        if os.path.exists(f'{d}/{k}.json'):
            try:
                meta = json.load(open(f'{d}/{k}.json'))
            except Exception:
                pass
        pid = meta.get('property') or re.search(r'C\d\d', d).group(0)
        rec = {'mutation': k, 'property': pid, 'diff': diff}
        dm = f'{d}/{k}_demo.py'
        rc0, o0 = demo(dm)
        rec['demo_clean'] = rc0
        a = sh(f'git -C {REPO} apply --whitespace=nowarn {diff}')
        if a.returncode != 0:
            rec['apply_error'] = a.stderr[-300:]
            out.append(rec)
            clean()
            continue
        try:
            rc1, o1 = demo(dm)
            rec['demo_mutated'] = rc1
            rec['demo_out'] = o1[-200:]
            t = sh(f'python3 {VERIF}/tools/baseline_check.py')
            rec['tests_ok'] = t.returncode == 0
            if t.returncode != 0:
                rec['tests_out'] = t.stdout[-300:]
            pids = ALL if all_checks else [pid]
            rec['checks'] = {}
            for p in pids:
                rc, viol, err = run_check(p)
                if rc != 0:
                    rec['checks'][p] = {'rc': rc, 'violations': [f'{v[2]} {v[1]} [{v[3]}] {v[0]}' for v in viol][:6], 'errors': err[:2]}
            rec['detected_by_own'] = rec['checks'].get(pid, {}).get('rc') == 1
            rec['detected_by_any'] = any(v.get('rc') == 1 for v in rec['checks'].values())
        finally:
            clean()
        out.append(rec)
        print(json.dumps(rec, indent=1))
    assert sh(f'git -C {REPO} status --porcelain').stdout.strip() == '', '/repo left dirty!'
    json.dump(out, open(f'{d}/result.json', 'w'), indent=1)
    ok = sum(1 for r in out if r.get('demo_clean') == 0 and r.get('demo_mutated') == 1 and r.get('tests_ok'))
    det = sum(1 for r in out if r.get('detected_by_any') and r.get('demo_clean') == 0 and r.get('demo_mutated') == 1 and r.get('tests_ok'))
    print(f'SUMMARY {d}: valid mutations {ok}/{len(out)}, detected {det}/{ok}')


if __name__ == '__main__':
    main()
