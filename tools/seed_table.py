#!/usr/bin/env python3
"""Run every check against every seeded change and print a markdown table (used for DESIGN.md §7 and seeded/README.md);
also refreshes the `detection_now` block of each seeded/<id>/meta.json."""
import glob
import json
import os
import sys
from concurrent.futures import ProcessPoolExecutor

HERE = os.path.dirname(os.path.dirname(os.path.abspath(__file__)))
sys.path.insert(0, HERE)
sys.path.insert(0, os.path.join(HERE, 'tools'))
import seed_check            # noqa: E402


def main():
    filt = sys.argv[1:]     # optional name filters (e.g. -m13 -m14): only those rows are recomputed and printed
    dirs = sorted(d for d in glob.glob(os.path.join(HERE, 'seeded', '*')) if os.path.isdir(d) and (not filt or any(d.endswith(f) for f in filt)))
    with ProcessPoolExecutor(max_workers=16) as ex:
        results = list(ex.map(seed_check.run_one, [(d, False) for d in dirs]))
    print('| change | what it breaks (author\'s words, shortened) | reported by (first failing obligation per check) | first try |')
    print('|---|---|---|---|')
    for (name, pid, out), d in zip(results, dirs):
        mp = os.path.join(d, 'meta.json')
        meta = json.load(open(mp))
        if '_superseded' in out:
            breaks = ' '.join(meta.get('breaks', '').split())
            print(f'| {name} | {(breaks[:147] + "…") if len(breaks) > 150 else breaks} | *superseded*: no longer a violation after fix 3d1ecfe (F3); kept for the record, not counted | {"own check" if meta.get("detection_at_first_try", {}).get("own_check") else "other check" if meta.get("detection_at_first_try", {}).get("any_check") else "missed"} |')
            continue
        v = {p: r[1] for p, r in out.items() if r[0] == 'VIOLATION'}
        first = meta.get('detection_at_first_try', {})
        ft = 'own check' if first.get('own_check') else ('other check' if first.get('any_check') else 'missed')
        breaks = ' '.join(meta.get('breaks', '').split())
        if len(breaks) > 150:
            breaks = breaks[:147] + '…'
        by = '; '.join(f'{p}: `{r[0].split(" [")[0].split(" ", 1)[0]}` {r[0].split(" ", 2)[1].rsplit(".", 1)[-1]}' for p, r in sorted(v.items())) or ('**not reported** — a check stops with exit 2: ' + '; '.join(f'{p}' for p, r in sorted(out.items()) if r[0] == 'ERR') if any(r[0] == 'ERR' for r in out.values()) else '**not reported** (declined, see text)')
        print(f'| {name} | {breaks.replace("|", "/")} | {by} | {ft} |')
        meta['detection_now'] = {'own_check': pid in v, 'any_check': bool(v), 'checks': {p: r for p, r in sorted(v.items())}}
        with open(mp, 'w') as f:
            json.dump(meta, f, indent=1)
            f.write('\n')


if __name__ == '__main__':
    main()
