#!/bin/sh
# Full regression of the machinery itself (not a registered check): clean tree, seeded changes, neutral sweeps, self-validation.
cd "$(dirname "$0")/.."
echo "== quick, clean tree"; tools/run_all.sh quick 2>&1 | grep -v "new=0" 
echo "== seeded changes"; python3-vt tools/seed_check.py 2>&1 | grep -v DETECTED
echo "== independent neutral refactorings (round 1: must be silent; rounds 3 and 4, bolder: exit 2 tolerated, no FALSE ALARM)"; python3-vt tools/neutral_check.py /verif/neutral 2>&1 | grep -v "silent$"; python3-vt tools/neutral_check.py /verif/neutral3 2>&1 | grep -v "silent$"; python3-vt tools/neutral_check.py /verif/neutral4 2>&1 | grep -v "silent$"; python3-vt tools/neutral_check.py /verif/neutral5 2>&1 | grep -v "silent$"; python3-vt tools/neutral_check.py /verif/neutral6 2>&1 | grep -v "silent$"
echo "== neutral sweeps"; python3-vt -u tools/neutral_sweep.py reformat docstr rename rename_deep rename_params tempvar augassign invert_guard reorder_defs else_after_jump annassign kwargs_style 2>&1 | grep -v silent
echo "== thorough + strict self-validation"; VERIF_SELFCHECK_STRICT=1 tools/run_all.sh thorough 2>&1 | grep -v "rc=0"
echo "== done"
