#!/usr/bin/env python3
"""Global behaviour-preserving transforms applied as overlays to the whole package; every pack must stay silent
(no new failing obligation; an analysis error is reported separately).

  reformat : every module replaced by ast.unparse(ast.parse(source))  (comments dropped, layout and quoting normalised)
  rename   : every function-local variable (not parameters, not names used in nested scopes / global / nonlocal) gets a suffix
  docstr   : a docstring-like constant statement is inserted at the top of every function body (shifts statement indices)
"""
import ast
import importlib
import os
import sys
import symtable

sys.path.insert(0, os.path.dirname(os.path.dirname(os.path.abspath(__file__))))
from sa import core                      # noqa: E402
from sa.project import Project           # noqa: E402

ROOT = os.environ.get('TALLY_REPO', '/repo')
ALL = [f'C{i:02d}' for i in range(1, 21)]


def py_files():
    out = []
    for d, _x, files in os.walk(os.path.join(ROOT, 'src/tally')):
        for f in files:
            if f.endswith('.py'):
                out.append(os.path.relpath(os.path.join(d, f), ROOT))
    return sorted(out)


def t_reformat(src, rel):
    return ast.unparse(ast.parse(src)) + '\n'


class Renamer(ast.NodeTransformer):
    def __init__(self, table, suffix):
        self.table = table
        self.suffix = suffix
        self.stack = []

    def _locals_of(self, fnode):
        # names assigned in this function and used nowhere else (no nested function, no global/nonlocal, not a parameter)
        assigned, banned = set(), set()
        params = {a.arg for a in fnode.args.posonlyargs + fnode.args.args + fnode.args.kwonlyargs}
        if fnode.args.vararg:
            params.add(fnode.args.vararg.arg)
        if fnode.args.kwarg:
            params.add(fnode.args.kwarg.arg)

        def walk(n, top):
            for c in ast.iter_child_nodes(n):
                if isinstance(c, (ast.FunctionDef, ast.AsyncFunctionDef, ast.Lambda, ast.ClassDef)):
                    for x in ast.walk(c):
                        if isinstance(x, ast.Name):
                            banned.add(x.id)
                    if hasattr(c, 'name'):
                        banned.add(c.name)
                    continue
                if isinstance(c, (ast.Global, ast.Nonlocal)):
                    banned.update(c.names)
                if isinstance(c, (ast.ListComp, ast.SetComp, ast.DictComp, ast.GeneratorExp)):
                    for x in ast.walk(c):
                        if isinstance(x, ast.Name):
                            banned.add(x.id)      # comprehension scopes: keep it simple
                    continue
                if isinstance(c, ast.Name) and isinstance(c.ctx, ast.Store):
                    assigned.add(c.id)
                if isinstance(c, (ast.Import, ast.ImportFrom)):
                    for a in c.names:
                        banned.add((a.asname or a.name).split('.')[0])
                if isinstance(c, ast.ExceptHandler) and c.name:
                    banned.add(c.name)
                walk(c, top)
        walk(fnode, fnode)
        return {n for n in assigned if n not in banned and n not in params and not n.startswith('__')}

    def visit_FunctionDef(self, node):
        loc = self._locals_of(node)
        self.stack.append(loc)
        new_body = []
        for s in node.body:
            new_body.append(self.visit(s))
        node.body = new_body
        self.stack.pop()
        return node

    visit_AsyncFunctionDef = visit_FunctionDef

    def visit_Lambda(self, node):
        return node

    def visit_ListComp(self, node):
        return node
    visit_SetComp = visit_DictComp = visit_GeneratorExp = visit_ListComp

    def visit_Name(self, node):
        if self.stack and node.id in self.stack[-1]:
            node.id = node.id + self.suffix
        return node

    def visit_JoinedStr(self, node):
        self.generic_visit(node)
        return node


def t_rename(src, rel):
    tree = ast.parse(src)
    tree = Renamer(None, '_rn').visit(tree)
    return ast.unparse(tree) + '\n'


def t_rename_deep(src, rel):
    """every plain local of every function renamed with proper scoping (closures and comprehensions included)"""
    from sa import canon
    tree = ast.parse(src)
    for _q, fnode in canon._functions(tree):
        used = canon._all_ids(fnode)
        for name, _d in canon.signature(fnode):
            new = name + '_q'
            if new in used:
                continue
            canon._rename(fnode, name, new)
    return ast.unparse(tree) + '\n'


_PARAM_TABLE = None


def _param_table():
    """{callee simple name: set of parameter names} over the package (class name stands for its __init__)"""
    global _PARAM_TABLE
    if _PARAM_TABLE is None:
        from sa import canon
        _PARAM_TABLE = {}
        for rel in py_files():
            with open(os.path.join(ROOT, rel), encoding='utf-8') as f:
                tree = ast.parse(f.read())
            for q, fnode in canon._functions(tree):
                short = q.rsplit('.', 1)[-1]
                names = [short]
                if short == '__init__' and '.' in q:
                    names.append(q.rsplit('.', 2)[-2])
                ps = {x for x in canon._params(fnode) if x not in ('self', 'cls')}
                for nm in names:
                    _PARAM_TABLE.setdefault(nm, set()).update(ps)
    return _PARAM_TABLE


def t_rename_params(src, rel, calls_only=False):
    """every parameter (except self/cls) of every function renamed, keyword arguments at call sites following"""
    from sa import canon
    table = _param_table()
    tree = ast.parse(src)
    if not calls_only:
        for _q, fnode in canon._functions(tree):
            used = canon._all_ids(fnode)
            for name in sorted(canon._params(fnode)):
                if name in ('self', 'cls') or name + '_p' in used:
                    continue
                canon._rename(fnode, name, name + '_p')
    cls_of = {}
    for k in ast.walk(tree):
        if isinstance(k, ast.ClassDef):
            for c in ast.walk(k):
                if isinstance(c, ast.Call) and isinstance(c.func, ast.Name) and c.func.id == 'cls':
                    cls_of[id(c)] = k.name
    for c in ast.walk(tree):
        if isinstance(c, ast.Call) and c.keywords:
            nm = c.func.id if isinstance(c.func, ast.Name) else (c.func.attr if isinstance(c.func, ast.Attribute) else None)
            nm = cls_of.get(id(c), nm)
            for kw in c.keywords:
                if kw.arg and kw.arg in table.get(nm, ()):
                    kw.arg = kw.arg + '_p'
    return ast.unparse(tree) + '\n'


def t_docstr(src, rel):
    tree = ast.parse(src)
    for n in ast.walk(tree):
        if isinstance(n, (ast.FunctionDef, ast.AsyncFunctionDef)):
            first = n.body[0]
            if isinstance(first, ast.Expr) and isinstance(first.value, ast.Constant) and isinstance(first.value.value, str):
                n.body.insert(1, ast.Expr(ast.Constant('note')))
            else:
                n.body.insert(0, ast.Expr(ast.Constant('note')))
    ast.fix_missing_locations(tree)
    return ast.unparse(tree) + '\n'


TRANSFORMS = {'reformat': t_reformat, 'rename': t_rename, 'rename_deep': t_rename_deep, 'rename_params': t_rename_params, 'docstr': t_docstr}


def main():
    args = [a for a in sys.argv[1:] if not a.startswith('--')]
    packs = [a[2:] for a in sys.argv[1:] if a.startswith('--C')]
    global ALL
    if packs:
        ALL = packs
    which = args or list(TRANSFORMS)
    verbose = '--all' in sys.argv
    emit = [a[7:] for a in sys.argv[1:] if a.startswith('--emit=')]
    if emit:
        # write the transformed tree over a scratch copy (to run the project's own tests on it)
        for rel in py_files():
            with open(os.path.join(ROOT, rel), encoding='utf-8') as f:
                s = f.read()
            with open(os.path.join(emit[0], rel), 'w', encoding='utf-8') as f:
                f.write(TRANSFORMS[which[0]](s, rel))
        if which[0] == 'rename_params':
            for d, _x, files in os.walk(os.path.join(emit[0], 'tests')):
                for fn in files:
                    if fn.endswith('.py'):
                        pth = os.path.join(d, fn)
                        with open(pth, encoding='utf-8') as f:
                            s = f.read()
                        with open(pth, 'w', encoding='utf-8') as f:
                            f.write(t_rename_params(s, pth, calls_only=True))
        return 0
    base = {}
    for pid in ALL:
        pack = importlib.import_module(f'sa.packs.{pid.lower()}')
        res = core.run_pack(pid, 'quick', pack.check, proj=Project(ROOT))
        base[pid] = {o.key for o in res['ctx'].obligations if o.status == 'fail'} if not res['error'] else None
    bad = 0
    for name in which:
        overlay = {}
        for rel in py_files():
            with open(os.path.join(ROOT, rel), encoding='utf-8') as f:
                s = f.read()
            try:
                overlay[rel] = TRANSFORMS[name](s, rel)
            except Exception as e:
                print(f'{name}: cannot transform {rel}: {e}')
        try:
            for rel, text in overlay.items():
                compile(text, rel, 'exec')
        except SyntaxError as e:
            print(f'{name}: transformed source does not compile: {e}')
            continue
        for pid in ALL:
            pack = importlib.import_module(f'sa.packs.{pid.lower()}')
            res = core.run_pack(pid, 'quick', pack.check, proj=Project(ROOT, overlay=overlay))
            if res['error']:
                print(f'{name} {pid}: ANALYSIS-ERROR {res["error"][:160]}')
                continue
            fails = {o.key for o in res['ctx'].obligations if o.status == 'fail'}
            new = sorted(fails - (base[pid] or set()))
            if new:
                bad += 1
                print(f'{name} {pid}: FALSE ALARMS {len(new)}: {new if verbose else new[:4]}')
            elif res.get('floor_error'):
                print(f'{name} {pid}: floor error {res["floor_error"][:120]}')
            else:
                print(f'{name} {pid}: silent')
    return 1 if bad else 0


if __name__ == '__main__':
    sys.exit(main())
