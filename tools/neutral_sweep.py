#!/usr/bin/env python3
"""Global behaviour-preserving transforms applied as overlays to the whole package; every pack must stay silent
(no new failing obligation; an analysis error is reported separately).

  reformat : every module replaced by ast.unparse(ast.parse(source))  (comments dropped, layout and quoting normalised)
  rename   : every function-local variable (not parameters, not names used in nested scopes / global / nonlocal) gets a suffix
  docstr   : a docstring-like constant statement is inserted at the top of every function body (shifts statement indices)
"""
import ast
import importlib
import os
import sys
import symtable

sys.path.insert(0, os.path.dirname(os.path.dirname(os.path.abspath(__file__))))
from sa import core                      # noqa: E402
from sa.project import Project           # noqa: E402

ROOT = os.environ.get('TALLY_REPO', '/repo')
ALL = [f'C{i:02d}' for i in range(1, 21)]


from sa.sweeps import TRANSFORMS, py_files, t_rename_params      # noqa: E402
from sa import sweeps                                            # noqa: E402


def _one_module(task):
    """per-module mode: transform a single module and run every pack on the result"""
    name, rel, packs = task
    with open(os.path.join(ROOT, rel), encoding='utf-8') as f:
        s = f.read()
    try:
        text = TRANSFORMS[name](s, rel)
        compile(text, rel, 'exec')
    except Exception as e:
        return name, rel, [f'cannot transform: {e}']
    if ast.dump(ast.parse(text)) == ast.dump(ast.parse(s)):
        return name, rel, None
    out = []
    for pid in packs:
        pack = importlib.import_module(f'sa.packs.{pid.lower()}')
        base = core.run_pack(pid, 'quick', pack.check, proj=Project(ROOT))
        bkeys = {o.key for o in base['ctx'].obligations if o.status == 'fail'} if not base['error'] else set()
        res = core.run_pack(pid, 'quick', pack.check, proj=Project(ROOT, overlay={rel: text}))
        if res['error']:
            out.append(f'{pid}: ANALYSIS-ERROR {res["error"][:200]}')
            continue
        new = sorted({o.key for o in res['ctx'].obligations if o.status == 'fail'} - bkeys)
        if new:
            out.append(f'{pid}: FALSE ALARMS {new[:6]}')
        elif res.get('floor_error'):
            out.append(f'{pid}: floor error {res["floor_error"][:160]}')
    return name, rel, out


def per_module(which, packs):
    from concurrent.futures import ProcessPoolExecutor
    tasks = [(n, rel, packs) for n in which for rel in py_files() if n != 'rename_params']
    bad = 0
    with ProcessPoolExecutor(max_workers=16) as ex:
        for name, rel, out in ex.map(_one_module, tasks):
            if out:
                bad += 1
                for line in out:
                    print(f'{name} {rel}: {line}')
    print(f'per-module: {len(tasks)} (transform, module) pairs, {bad} not silent')
    return 1 if bad else 0


def main():
    global ALL
    if '--per-module' in sys.argv:
        a = [x for x in sys.argv[1:] if not x.startswith('--')]
        pk = [x[2:] for x in sys.argv[1:] if x.startswith('--C')] or ALL
        return per_module(a or [t for t in TRANSFORMS], pk)
    args = [a for a in sys.argv[1:] if not a.startswith('--')]
    packs = [a[2:] for a in sys.argv[1:] if a.startswith('--C')]
    if packs:
        ALL = packs
    which = args or list(TRANSFORMS)
    verbose = '--all' in sys.argv
    emit = [a[7:] for a in sys.argv[1:] if a.startswith('--emit=')]
    if emit:
        # write the transformed tree over a scratch copy (to run the project's own tests on it)
        for rel in py_files():
            with open(os.path.join(ROOT, rel), encoding='utf-8') as f:
                s = f.read()
            with open(os.path.join(emit[0], rel), 'w', encoding='utf-8') as f:
                f.write(TRANSFORMS[which[0]](s, rel))
        if which[0] == 'rename_params':
            for d, _x, files in os.walk(os.path.join(emit[0], 'tests')):
                for fn in files:
                    if fn.endswith('.py'):
                        pth = os.path.join(d, fn)
                        with open(pth, encoding='utf-8') as f:
                            s = f.read()
                        with open(pth, 'w', encoding='utf-8') as f:
                            f.write(t_rename_params(s, pth, calls_only=True))
        return 0
    base = {}
    for pid in ALL:
        pack = importlib.import_module(f'sa.packs.{pid.lower()}')
        res = core.run_pack(pid, 'quick', pack.check, proj=Project(ROOT))
        base[pid] = {o.key for o in res['ctx'].obligations if o.status == 'fail'} if not res['error'] else None
    bad = 0
    for name in which:
        overlay = {}
        for rel in py_files():
            with open(os.path.join(ROOT, rel), encoding='utf-8') as f:
                s = f.read()
            try:
                overlay[rel] = TRANSFORMS[name](s, rel)
            except Exception as e:
                print(f'{name}: cannot transform {rel}: {e}')
        try:
            for rel, text in overlay.items():
                compile(text, rel, 'exec')
        except SyntaxError as e:
            print(f'{name}: transformed source does not compile: {e}')
            continue
        for pid in ALL:
            pack = importlib.import_module(f'sa.packs.{pid.lower()}')
            res = core.run_pack(pid, 'quick', pack.check, proj=Project(ROOT, overlay=overlay))
            if res['error']:
                print(f'{name} {pid}: ANALYSIS-ERROR {res["error"][:160]}')
                continue
            fails = {o.key for o in res['ctx'].obligations if o.status == 'fail'}
            new = sorted(fails - (base[pid] or set()))
            if new:
                bad += 1
                print(f'{name} {pid}: FALSE ALARMS {len(new)}: {new if verbose else new[:4]}')
            elif res.get('floor_error'):
                print(f'{name} {pid}: floor error {res["floor_error"][:120]}')
            else:
                print(f'{name} {pid}: silent')
    return 1 if bad else 0


if __name__ == '__main__':
    sys.exit(main())
