"""Local-name canonicalisation.

The rules in sa/packs speak about tally's code in tally's own vocabulary ("the `matched_rule` of MerchantEngine.match").
A function-local variable's name carries no behaviour, so a rule must not change its verdict when a developer renames one.
Rather than abstracting every rule over every local name by hand, the loader alpha-converts the *current* source back to
the reference vocabulary before any rule looks at it:

  sa/refnames.json   (generated once by tools/gen_refnames.py from the tree the rules were written against) lists, per
                     function, its local variables in order of first binding, each with a digest of the binding statement
                     in which every local name is blanked out (so the digest is itself invariant under renaming).
  canonicalise()     computes the same list for the function as it is *now*, aligns the two lists on the digests, and where
                     a reference name has vanished from the function and an unknown name sits in its aligned position,
                     renames the unknown name to the reference name throughout the function (respecting nested scopes).

The analysed program is still /repo's current source: the conversion is a pure alpha-renaming, applied only when the target
name occurs nowhere in the function (so it cannot capture anything), and it never moves, adds or drops a statement.  A variable
whose binding statement was also edited simply stays under its new name; then the rule that needs it reports an unrecognised
shape (exit 2) or, at worst, what it sees.  Positions in reports are those of the current file.
"""
from __future__ import annotations

import ast
import difflib
import hashlib
import json
import os
from typing import Dict, Iterator, List, Optional, Set, Tuple

REF = os.path.join(os.path.dirname(os.path.abspath(__file__)), 'refnames.json')
_SCOPES = (ast.FunctionDef, ast.AsyncFunctionDef, ast.Lambda, ast.ClassDef)
_COMPS = (ast.ListComp, ast.SetComp, ast.DictComp, ast.GeneratorExp)


def _params(fnode) -> Set[str]:
    a = fnode.args
    out = {x.arg for x in a.posonlyargs + a.args + a.kwonlyargs}
    if a.vararg:
        out.add(a.vararg.arg)
    if a.kwarg:
        out.add(a.kwarg.arg)
    return out


def _param_list(fnode) -> List[str]:
    a = fnode.args
    return [x.arg for x in a.posonlyargs + a.args] + ['*' + (a.vararg.arg if a.vararg else '')] + [x.arg for x in a.kwonlyargs] + ['**' + (a.kwarg.arg if a.kwarg else '')]


def _own_nodes(fnode) -> Iterator[ast.AST]:
    """nodes of the function's own scope (nested defs/lambdas/classes/comprehensions are separate scopes and not entered)"""
    stack = list(reversed(fnode.body))
    while stack:
        n = stack.pop()
        yield n
        if isinstance(n, _SCOPES):
            continue
        if isinstance(n, _COMPS):
            # the first iterable is evaluated in the enclosing scope
            stack.append(n.generators[0].iter)
            continue
        stack.extend(reversed(list(ast.iter_child_nodes(n))))


def _target_names(t, path='') -> Iterator[Tuple[str, str]]:
    if isinstance(t, ast.Name):
        yield t.id, path
    elif isinstance(t, (ast.Tuple, ast.List)):
        for i, e in enumerate(t.elts):
            yield from _target_names(e, f'{path}.{i}')
    elif isinstance(t, ast.Starred):
        yield from _target_names(t.value, path + '*')


def _bindings(fnode) -> List[Tuple[str, ast.AST, str, str]]:
    """(name, statement/expr giving the value, kind, position-in-target) for every binding of a plain local, in source order"""
    out = []
    for n in _own_nodes(fnode):
        if isinstance(n, ast.Assign):
            for t in n.targets:
                for name, pth in _target_names(t):
                    out.append((name, n.value, 'assign', pth))
        elif isinstance(n, ast.AnnAssign) and n.value is not None:
            for name, pth in _target_names(n.target):
                out.append((name, n.value, 'assign', pth))
        elif isinstance(n, ast.AugAssign):
            for name, pth in _target_names(n.target):
                out.append((name, n.value, 'aug', pth))
        elif isinstance(n, (ast.For, ast.AsyncFor)):
            for name, pth in _target_names(n.target):
                out.append((name, n.iter, 'for', pth))
        elif isinstance(n, (ast.With, ast.AsyncWith)):
            for it in n.items:
                if it.optional_vars is not None:
                    for name, pth in _target_names(it.optional_vars):
                        out.append((name, it.context_expr, 'with', pth))
        elif isinstance(n, ast.ExceptHandler) and n.name:
            out.append((n.name, n.type, 'except', ''))
        elif isinstance(n, ast.NamedExpr):
            out.append((n.target.id, n.value, 'walrus', ''))
    # traversal order (statement order of the function as it stands), not line numbers: inlined statements keep the line numbers of the
    # helper they came from
    return out


def _excluded(fnode) -> Set[str]:
    """names that are not plain locals: parameters, global/nonlocal declarations, imports, nested function/class names"""
    ex = set(_params(fnode))
    for n in _own_nodes(fnode):
        if isinstance(n, (ast.Global, ast.Nonlocal)):
            ex.update(n.names)
        elif isinstance(n, (ast.Import, ast.ImportFrom)):
            for a in n.names:
                ex.add((a.asname or a.name).split('.')[0])
        elif isinstance(n, (ast.FunctionDef, ast.AsyncFunctionDef, ast.ClassDef)):
            ex.add(n.name)
    return ex


_SKIP = ('lineno', 'col_offset', 'end_lineno', 'end_col_offset', 'ctx', 'type_comment')


def _dump(n, local_names: Set[str], out: List[str]) -> None:
    if isinstance(n, ast.Name):
        out.append('_' if n.id in local_names else n.id)
        return
    if isinstance(n, ast.AST):
        out.append(type(n).__name__)
        out.append('(')
        # variables bound by a nested comprehension / lambda are blanked as well (they may shadow a local of either vocabulary)
        if isinstance(n, _COMPS):
            local_names = local_names | {nm for g in n.generators for nm, _p in _target_names(g.target)}
        elif isinstance(n, ast.Lambda):
            local_names = local_names | _params(n)
        if isinstance(n, ast.arg):
            out.append('_' if n.arg in local_names else n.arg)
            out.append(')')
            return
        for fld in n._fields:
            if fld in _SKIP:
                continue
            _dump(getattr(n, fld, None), local_names, out)
            out.append(',')
        out.append(')')
    elif isinstance(n, list):
        out.append('[')
        for x in n:
            _dump(x, local_names, out)
            out.append(',')
        out.append(']')
    else:
        out.append(repr(n))


def _digest(value, kind, pth, local_names: Set[str]) -> str:
    out: List[str] = []
    _dump(value, local_names, out)
    return hashlib.sha1(f'{kind}|{pth}|{"".join(out)}'.encode()).hexdigest()[:10]


def signature(fnode) -> List[Tuple[str, str]]:
    """[(local name, digest of its first binding with all locals blanked)] in order of first binding"""
    ex = _excluded(fnode)
    binds = [b for b in _bindings(fnode) if b[0] not in ex]
    local_names = {b[0] for b in binds}
    seen, out = set(), []
    for name, value, kind, pth in binds:
        if name in seen:
            continue
        seen.add(name)
        out.append((name, _digest(value, kind, pth, local_names)))
    return out


def _all_ids(fnode) -> Set[str]:
    ids = set()
    for n in ast.walk(fnode):
        if isinstance(n, ast.Name):
            ids.add(n.id)
        elif isinstance(n, ast.arg):
            ids.add(n.arg)
        elif isinstance(n, ast.ExceptHandler) and n.name:
            ids.add(n.name)
        elif isinstance(n, (ast.FunctionDef, ast.AsyncFunctionDef, ast.ClassDef)):
            ids.add(n.name)
        elif isinstance(n, (ast.Global, ast.Nonlocal)):
            ids.update(n.names)
        elif isinstance(n, ast.alias):
            ids.add((n.asname or n.name).split('.')[0])
    return ids


def _rebinds(scope, name: str) -> bool:
    """does the nested scope bind `name` itself (so that occurrences inside it are a different variable)?"""
    if isinstance(scope, (ast.FunctionDef, ast.AsyncFunctionDef, ast.Lambda)):
        if name in _params(scope):
            return True
        if isinstance(scope, ast.Lambda):
            return False
        nonlocal_ = any(isinstance(n, (ast.Nonlocal, ast.Global)) and name in n.names for n in _own_nodes(scope))
        if nonlocal_:
            return False
        return any(b[0] == name for b in _bindings(scope))
    if isinstance(scope, _COMPS):
        return any(name == nm for g in scope.generators for nm, _p in _target_names(g.target))
    if isinstance(scope, ast.ClassDef):
        return False
    return False


def _rename(fnode, old: str, new: str) -> None:
    def walk(n, top):
        for c in ast.iter_child_nodes(n):
            if isinstance(c, _SCOPES + _COMPS) and _rebinds(c, old):
                if isinstance(c, _COMPS):
                    walk_expr(c.generators[0].iter)      # evaluated in the enclosing scope
                continue
            if isinstance(c, ast.Name) and c.id == old:
                c.id = new
            elif isinstance(c, ast.ExceptHandler) and c.name == old:
                c.name = new
            elif isinstance(c, ast.Nonlocal) and old in c.names:
                c.names = [new if x == old else x for x in c.names]
            walk(c, False)

    def walk_expr(e):
        if isinstance(e, ast.Name) and e.id == old:
            e.id = new
        walk(e, False)
    a = fnode.args
    for x in a.posonlyargs + a.args + a.kwonlyargs + [y for y in (a.vararg, a.kwarg) if y is not None]:
        if x.arg == old:
            x.arg = new
    walk(fnode, True)


def _functions(tree) -> Iterator[Tuple[str, ast.AST]]:
    def rec(body, prefix):
        for n in body:
            if isinstance(n, (ast.FunctionDef, ast.AsyncFunctionDef)):
                q = f'{prefix}.{n.name}' if prefix else n.name
                yield q, n
                yield from rec(n.body, q)
            elif isinstance(n, ast.ClassDef):
                q = f'{prefix}.{n.name}' if prefix else n.name
                yield from rec(n.body, q)
            elif isinstance(n, (ast.If, ast.Try, ast.With, ast.For, ast.While)):
                for fld in ('body', 'orelse', 'finalbody'):
                    yield from rec(getattr(n, fld, []) or [], prefix)
                for h in getattr(n, 'handlers', []) or []:
                    yield from rec(h.body, prefix)
    yield from rec(tree.body, '')


_ref_cache: Optional[dict] = None


def reference() -> dict:
    global _ref_cache
    if _ref_cache is None:
        try:
            with open(REF, encoding='utf-8') as f:
                _ref_cache = json.load(f)
        except OSError:
            _ref_cache = {}
    return _ref_cache


def plan(fnode, ref_entry) -> Dict[str, str]:
    """{current name: reference name} for this function (locals aligned on binding digests, parameters by position)"""
    ref_sig = ref_entry.get('l', [])
    ref_params = ref_entry.get('p', [])
    cur = signature(fnode)
    cur_params = _param_list(fnode)
    if [n for n, _d in cur] == [n for n, _d in ref_sig] and cur_params == ref_params:
        return {}
    ref_names = {n for n, _d in ref_sig} | {x.lstrip('*') for x in ref_params}
    cur_names = {n for n, _d in cur} | {x.lstrip('*') for x in cur_params}
    used = _all_ids(fnode)
    out: Dict[str, str] = {}

    def consider(rname, cname):
        if rname == cname or not rname or not cname:
            return
        if cname in ref_names or rname in cur_names or rname in used:
            return                      # both vocabularies know the name: not a rename, or the target is taken
        if cname in out or rname in out.values():
            return
        out[cname] = rname
    if len(cur_params) == len(ref_params):
        for r, c in zip(ref_params, cur_params):
            if r.count('*') == c.count('*'):
                consider(r.lstrip('*'), c.lstrip('*'))
    sm = difflib.SequenceMatcher(a=[d for _n, d in ref_sig], b=[d for _n, d in cur], autojunk=False)
    for blk in sm.get_matching_blocks():
        for k in range(blk.size):
            consider(ref_sig[blk.a + k][0], cur[blk.b + k][0])
    return out


def canonicalise(tree, relpath: str) -> Dict[str, Dict[str, str]]:
    """Alpha-convert renamed locals of every function of the module back to the reference vocabulary (in place).
    Returns {function: {current: reference}} for the evidence."""
    ref = reference().get(relpath)
    if not ref:
        return {}
    applied = {}
    for q, fnode in _functions(tree):
        rs = ref.get(q)
        if rs is None or q.startswith('#'):
            continue
        before = set(_params(fnode))
        m = plan(fnode, rs)
        for old, new in m.items():
            _rename(fnode, old, new)
        if m:
            applied[q] = dict(m)
            pm = {o: n for o, n in m.items() if o in before}
            if pm:
                applied[q]['#params'] = pm
    return applied


def fix_keywords(trees: Dict[str, ast.AST], renamed: Dict[str, Dict[str, Dict[str, str]]]) -> int:
    """After parameters were renamed back, keyword arguments at call sites must follow.  A keyword `new=` in a call whose callee's
    simple name is that of a function with a renamed parameter is converted, unless some other function of the same simple name
    really has a parameter called `new`."""
    by_short: Dict[str, Dict[str, str]] = {}
    for rel, per in renamed.items():
        for q, m in per.items():
            pm = m.get('#params')
            if pm:
                short = q.rsplit('.', 1)[-1]
                names = [short]
                if short == '__init__' and '.' in q:
                    names.append(q.rsplit('.', 2)[-2])
                for nm in names:
                    by_short.setdefault(nm, {}).update(pm)
    if not by_short:
        return 0
    has_param: Dict[str, Set[str]] = {}
    for tree in trees.values():
        for q, fnode in _functions(tree):
            has_param.setdefault(q.rsplit('.', 1)[-1], set()).update(_params(fnode))
    n = 0
    for tree in trees.values():
        cls_of = {}
        for k in ast.walk(tree):
            if isinstance(k, ast.ClassDef):
                for c in ast.walk(k):
                    if isinstance(c, ast.Call) and isinstance(c.func, ast.Name) and c.func.id == 'cls':
                        cls_of[id(c)] = k.name          # cls(...) in a classmethod constructs the enclosing class
        for c in ast.walk(tree):
            if isinstance(c, ast.Call) and c.keywords:
                nm = c.func.id if isinstance(c.func, ast.Name) else (c.func.attr if isinstance(c.func, ast.Attribute) else None)
                nm = cls_of.get(id(c), nm)
                pm = by_short.get(nm)
                if not pm:
                    continue
                for kw in c.keywords:
                    if kw.arg in pm and kw.arg not in has_param.get(nm, set()):
                        kw.arg = pm[kw.arg]
                        n += 1
    return n


def build_reference(root: str, files: List[str]) -> dict:
    out = {}
    for rel in files:
        with open(os.path.join(root, rel), encoding='utf-8') as f:
            tree = ast.parse(f.read())
        per = {}
        for q, fnode in _functions(tree):
            sig = signature(fnode)
            per[q] = {'p': _param_list(fnode), 'l': [[n, d] for n, d in sig]}
        # classes and module-level names known to the reference (a record type that is not listed is new: see normalize N13)
        per['#classes'] = {'p': [], 'l': [[n.name, ''] for n in ast.walk(tree) if isinstance(n, ast.ClassDef)] +
                           [[t.id, ''] for n in tree.body if isinstance(n, ast.Assign) for t in n.targets if isinstance(t, ast.Name)]}
        if per:
            out[rel] = per
    return out
