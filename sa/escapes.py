"""Exception-escape analysis.

For each function: the set of exception classes that can leave it, with one
witness (file:line construct) per class.  Sources: explicit `raise`, a table of
raising primitives (applied to *expression-supplied* operands inside the
evaluator classes, and to library calls everywhere), callee escapes; minus what
enclosing handlers catch.  Fixed point over the call graph.
"""
from __future__ import annotations

import ast
from typing import Dict, List, Optional, Set, Tuple

from .callgraph import CallGraph, get_cg
from .cfg import header_exprs
from .flow import Flow, call_name, get_flow
from .project import FuncInfo, Project, ancestors, dotted, parent, src

# builtin hierarchy (child -> parent)
HIER = {
    'BaseException': None, 'Exception': 'BaseException',
    'ArithmeticError': 'Exception', 'ZeroDivisionError': 'ArithmeticError', 'OverflowError': 'ArithmeticError',
    'LookupError': 'Exception', 'IndexError': 'LookupError', 'KeyError': 'LookupError',
    'ValueError': 'Exception', 'UnicodeError': 'ValueError', 'UnicodeDecodeError': 'UnicodeError',
    'TypeError': 'Exception', 'AttributeError': 'Exception', 'StopIteration': 'Exception',
    'RuntimeError': 'Exception', 'NameError': 'Exception', 'OSError': 'Exception', 'FileNotFoundError': 'OSError',
    'PermissionError': 'OSError', 'IOError': 'OSError', 'SyntaxError': 'Exception', 'AssertionError': 'Exception',
    'NotImplementedError': 'RuntimeError', 'ImportError': 'Exception', 'SystemExit': 'BaseException',
    'KeyboardInterrupt': 'BaseException', 're.error': 'Exception', 'statistics.StatisticsError': 'ValueError',
    'csv.Error': 'Exception', 'yaml.YAMLError': 'Exception', 'json.JSONDecodeError': 'ValueError',
    'subprocess.CalledProcessError': 'Exception', 'EOFError': 'Exception',
}

ORDER_OPS = (ast.Lt, ast.LtE, ast.Gt, ast.GtE)
STR_METHODS_RET_STR = {'split', 'rsplit', 'splitlines', 'upper', 'lower', 'strip', 'lstrip', 'rstrip', 'title', 'replace', 'format', 'join', 'strftime',
                       'isoformat', 'capitalize', 'casefold'}
SANITIZERS_STR = {'call:str'} | {f'call:{m}' for m in STR_METHODS_RET_STR}
SANITIZERS_NUM = {'call:len', 'call:float', 'call:int', 'call:abs', 'call:round', 'call:bool', 'call:count'}

# library / builtin calls: name -> classes raised when an argument is expression-supplied ("user") / always ("lib")
CALL_TABLE_USER = {
    'next': ['StopIteration', 'TypeError'], 'min': ['ValueError', 'TypeError'], 'max': ['ValueError', 'TypeError'],
    'sum': ['TypeError'], 'len': ['TypeError'], 'any': ['TypeError'], 'all': ['TypeError'], 'abs': ['TypeError'],
    'round': ['TypeError', 'OverflowError', 'ValueError'], 'sorted': ['TypeError'], 'list': ['TypeError'], 'set': ['TypeError'],
    'float': ['ValueError', 'TypeError'], 'int': ['ValueError', 'TypeError', 'OverflowError'],
    're.compile': ['re.error', 'TypeError'], 're.search': ['re.error', 'TypeError'], 're.match': ['re.error', 'TypeError'],
    're.sub': ['re.error', 'TypeError', 'IndexError'], 're.findall': ['re.error', 'TypeError'],
    'statistics.stdev': ['statistics.StatisticsError', 'TypeError'], 'statistics.mean': ['statistics.StatisticsError', 'TypeError'],
    'SequenceMatcher': ['TypeError'], 'range': ['TypeError'],
}
CALL_TABLE_LIB = {
    'float': ['ValueError'], 'int': ['ValueError'], 'datetime.strptime': ['ValueError'], 'strptime': ['ValueError'],
    'date_type.fromisoformat': ['ValueError'], 'fromisoformat': ['ValueError'], 'date.fromisoformat': ['ValueError'],
    'datetime.fromisoformat': ['ValueError'],
    're.compile': ['re.error'], 'open': ['OSError'], 'ast.parse': ['SyntaxError'],
    'yaml.safe_load': ['yaml.YAMLError'], 'json.loads': ['json.JSONDecodeError'], 'json.load': ['json.JSONDecodeError'],
    'shutil.move': ['OSError'], 'shutil.copy': ['OSError'], 'os.makedirs': ['OSError'], 'os.rename': ['OSError'],
    'os.remove': ['OSError'], 'os.replace': ['OSError'], 'read_text': ['OSError', 'UnicodeDecodeError'], 'write_text': ['OSError'],
}


class Esc(dict):
    """exception class -> witness string"""

    def add(self, cls: str, wit: str) -> None:
        if cls not in self:
            self[cls] = wit

    def merge(self, other: 'Esc') -> None:
        for k, v in other.items():
            self.add(k, v)


class Escapes:
    def __init__(self, proj: Project, user_funcs: Set[str], cg: Optional[CallGraph] = None):
        self.proj = proj
        self.cg = cg or get_cg(proj)
        self.user_funcs = user_funcs          # qualnames whose operands are expression-supplied
        self.hier = dict(HIER)
        for ci in proj.classes.values():
            # package exception classes
            bases = [b for b in ci.bases]
            for b in bases:
                nm = b.split('.')[-1] if b in proj.classes else b
                if nm in self.hier or b in proj.classes:
                    self.hier.setdefault(ci.name, nm)
        self.esc: Dict[str, Esc] = {}
        self._solve()

    # ---------------------------------------------------------------- classes
    def is_sub(self, cls: str, sup: str) -> bool:
        cur = cls
        n = 0
        while cur is not None and n < 20:
            if cur == sup:
                return True
            cur = self.hier.get(cur)
            n += 1
        return False

    def handler_classes(self, h: ast.ExceptHandler) -> List[str]:
        if h.type is None:
            return ['BaseException']
        ts = h.type.elts if isinstance(h.type, ast.Tuple) else [h.type]
        out = []
        for t in ts:
            d = dotted(t) or src(t)
            out.append(self.norm_class(d))
        return out

    def norm_class(self, d: str) -> str:
        if d in self.hier:
            return d
        last = d.split('.')[-1]
        if d.endswith('re.error') or d == 'regex_module.error':
            return 're.error'
        if last == 'StatisticsError':
            return 'statistics.StatisticsError'
        if last in self.hier:
            return last
        return last

    def caught_by(self, cls: str, handler_types: List[str]) -> bool:
        return any(self.is_sub(cls, t) for t in handler_types)

    # ------------------------------------------------------------- fixed point
    def _solve(self) -> None:
        funcs = list(self.proj.all_funcs())
        for f in funcs:
            self.esc[f.qualname] = Esc()
        changed = True
        rounds = 0
        while changed and rounds < 30:
            changed = False
            rounds += 1
            for f in funcs:
                new = self._local(f)
                old = self.esc[f.qualname]
                if set(new) != set(old):
                    merged = Esc(old)
                    merged.merge(new)
                    # monotone: only grow
                    if set(merged) != set(old):
                        self.esc[f.qualname] = merged
                        changed = True

    def of_block(self, f: FuncInfo, stmts) -> Esc:
        """Escape set of a statement list inside f (after the fixed point has been computed)."""
        self._cur = f
        self._targets = {id(c): t for c, t in self.cg.calls_from(f)}
        return self._block(stmts, Esc())

    def of(self, f: FuncInfo) -> Esc:
        return self.esc.get(f.qualname, Esc())

    # --------------------------------------------------------------- one func
    def _local(self, f: FuncInfo) -> Esc:
        self._cur = f
        self._targets = {id(c): t for c, t in self.cg.calls_from(f)}
        body = f.node.body
        return self._block(body, Esc())

    def _wit(self, node, what: str) -> str:
        f = self._cur
        return f'{f.module.relpath}:{getattr(node, "lineno", f.lineno)} {f.short}: {what}'

    def _block(self, stmts, reraise: Esc) -> Esc:
        out = Esc()
        for s in stmts:
            out.merge(self._stmt(s, reraise))
        return out

    def _stmt(self, s, reraise: Esc) -> Esc:
        out = Esc()
        if isinstance(s, ast.Try):
            body = self._block(s.body, reraise)
            remaining = Esc(body)
            for h in s.handlers:
                types = self.handler_classes(h)
                caught = Esc({k: v for k, v in remaining.items() if self.caught_by(k, types)})
                for k in caught:
                    del remaining[k]
                out.merge(self._block(h.body, caught))
            out.merge(remaining)
            out.merge(self._block(s.orelse, reraise))
            out.merge(self._block(s.finalbody, reraise))
            return out
        if isinstance(s, ast.Raise):
            if s.exc is None:
                out.merge(reraise)
            else:
                e = s.exc.func if isinstance(s.exc, ast.Call) else s.exc
                d = dotted(e)
                # `raise e` of the handler variable
                h = next((a for a in ancestors(s) if isinstance(a, ast.ExceptHandler)), None)
                if h is not None and isinstance(e, ast.Name) and h.name == e.id:
                    out.merge(reraise)
                elif d is not None:
                    out.add(self.norm_class(d), self._wit(s, f'raise {d}'))
                else:
                    out.add('Exception', self._wit(s, f'raise {src(s.exc)[:40]}'))
                if isinstance(s.exc, ast.Call):
                    for a in s.exc.args:
                        out.merge(self._expr(a, s))
            return out
        if isinstance(s, (ast.FunctionDef, ast.AsyncFunctionDef, ast.ClassDef)):
            return out
        for e in header_exprs(s):
            out.merge(self._expr(e, s))
        if isinstance(s, (ast.For, ast.AsyncFor)):
            if self._user() and self._tainted(s.iter, s):
                out.add('TypeError', self._wit(s, f'iteration over expression value {src(s.iter)[:40]}'))
        for fld in ('body', 'orelse', 'finalbody'):
            sub = getattr(s, fld, None)
            if isinstance(sub, list) and not isinstance(s, ast.Try):
                out.merge(self._block(sub, reraise))
        return out

    # ------------------------------------------------------------ expressions
    def _user(self) -> bool:
        f = self._cur
        q = f.qualname
        while True:
            if q in self.user_funcs:
                return True
            if '.' not in q:
                return False
            # nested functions inherit
            f2 = self.proj.funcs.get(q)
            if f2 is not None and f2.outer is not None:
                q = f2.outer.qualname
            else:
                return False

    def _tainted(self, e, at) -> bool:
        """May the value of e be of arbitrary (expression-chosen) type?"""
        f = self._cur
        if isinstance(e, ast.Name):
            # `x.upper() if isinstance(x, str) else ...`
            child = e
            for a in ancestors(e):
                if isinstance(a, ast.IfExp) and child is a.body:
                    t = src(a.test).replace(' ', '')
                    if f'isinstance({e.id},' in t:
                        return False
                if isinstance(a, ast.stmt):
                    break
                child = a
        fl = get_flow(self.proj, f) if f.outer is None and not isinstance(f.node, ast.Lambda) else None
        if fl is None or not fl.cfg.has(at):
            return not isinstance(e, ast.Constant)
        # isinstance guards on plain names
        if isinstance(e, ast.Name):
            for text, truth in fl.cfg.guard_literals(at):
                t = text.replace(' ', '')
                if truth and t.startswith(f'isinstance({e.id},'):
                    return False
            # early-exit guards: `if not isinstance(x, int): raise`
            for text, truth in fl.cfg.guard_literals(at):
                t = text.replace(' ', '')
                if (not truth) and t.startswith('not') is False and t.startswith(f'isinstance({e.id},') is False:
                    continue
        for leaf, ops in fl.leaf_paths(e, at):
            if self._leaf_tainted(leaf, ops, f):
                return True
        return False

    CONTAINER_ATTRS = ('.variables', '._scope', '.data_sources')
    ELEMENT_OPS = ('op:iter', 'call:get', 'call:values', 'call:items', 'call:pop', 'unpack')

    @classmethod
    def _element_after(cls, ops: Tuple[str, ...], start: int) -> bool:
        return any(o.startswith('[') or o in cls.ELEMENT_OPS for o in ops[start + 1:])

    def _leaf_tainted(self, leaf: str, ops: Tuple[str, ...], f: FuncInfo) -> bool:
        opset = set(ops)
        if opset & SANITIZERS_STR or opset & SANITIZERS_NUM or 'op:cmp' in opset or 'op:not' in opset or 'op:fstring' in opset:
            return False
        if 'call:evaluate' in opset or 'call:get_function' in opset:
            return True
        if leaf.startswith('param:'):
            p = leaf.split(':', 1)[1]
            va = f.node.args.vararg.arg if f.node.args.vararg else None
            if p == va:
                # the *args tuple is a trusted container of expression values
                return self._element_after(ops, 0)
            if p in ('self', 'cls', 'node', 'generators', 'index', 'element_expr', 'comp'):
                # AST structure and evaluator plumbing are not expression *values*;
                # ctx.variables / data_sources / _scope are containers of evaluated values
                for i, o in enumerate(ops):
                    if o in self.CONTAINER_ATTRS and self._element_after(ops, i):
                        return True
                return False
            return True       # _fn_* arguments, context-method parameters
        if leaf.startswith('loopvar:'):
            return False      # decided by the leaves of the iterated expression
        if leaf.startswith(('unknown:', 'outer:', 'lambdaarg:')):
            for i, o in enumerate(ops):
                if o in self.CONTAINER_ATTRS:
                    return self._element_after(ops, i)
            return True
        return False

    def _locally_guarded(self, n, names: Set[str], at) -> bool:
        """Is node n under an `X if <test on names> else Y` / comprehension `if`, or under a statement guard
        that mentions one of the names (emptiness / length tests)?"""
        for a in ancestors(n):
            if isinstance(a, ast.IfExp):
                if names & {x.id for x in ast.walk(a.test) if isinstance(x, ast.Name)}:
                    return True
            if isinstance(a, ast.stmt):
                break
        f = self._cur
        fl = get_flow(self.proj, f)
        if fl.cfg.has(at):
            for atom, truth in fl.cfg.guard_atoms(at):
                if names & {x.id for x in ast.walk(atom) if isinstance(x, ast.Name)}:
                    return True
        return False

    def _expr(self, e, at) -> Esc:
        out = Esc()
        if e is None:
            return out
        user = self._user()
        todo = [e]
        while todo:
            n = todo.pop()
            if isinstance(n, (ast.Lambda, ast.FunctionDef, ast.AsyncFunctionDef)):
                continue
            for c in ast.iter_child_nodes(n):
                todo.append(c)
            if isinstance(n, ast.Call):
                self._call(n, at, out, user)
            elif user and isinstance(n, ast.BinOp):
                if self._tainted(n.left, at) or self._tainted(n.right, at):
                    out.add('TypeError', self._wit(n, f'operator on expression values: {src(n)[:50]}'))
                    if isinstance(n.op, ast.Pow):
                        out.add('OverflowError', self._wit(n, f'power on expression values: {src(n)[:50]}'))
                    if isinstance(n.op, (ast.Div, ast.Mod, ast.FloorDiv)) and not self._zero_guarded(n, at) \
                            and not self._locally_guarded(n, {x.id for x in ast.walk(n.right) if isinstance(x, ast.Name)}, at):
                        out.add('ZeroDivisionError', self._wit(n, f'unguarded division: {src(n)[:50]}'))
            elif user and isinstance(n, ast.UnaryOp) and isinstance(n.op, (ast.USub, ast.UAdd, ast.Invert)):
                if self._tainted(n.operand, at):
                    out.add('TypeError', self._wit(n, f'unary operator on expression value: {src(n)[:50]}'))
            elif user and isinstance(n, ast.Compare):
                left = n.left
                for op, right in zip(n.ops, n.comparators):
                    if isinstance(op, ORDER_OPS + (ast.In, ast.NotIn)):
                        if self._tainted(left, at) or self._tainted(right, at):
                            out.add('TypeError', self._wit(n, f'comparison of expression values: {src(n)[:50]}'))
                    left = right
            elif user and isinstance(n, ast.Subscript) and isinstance(n.ctx, ast.Load):
                if self._tainted(n.value, at) or self._tainted(n.slice, at):
                    module_table = isinstance(n.value, ast.Name) and n.value.id in self._cur.module.globals_assigned
                    if not isinstance(n.slice, ast.Slice) and not module_table:
                        for c in ('IndexError', 'KeyError'):
                            out.add(c, self._wit(n, f'subscript of expression value: {src(n)[:50]}'))
                    out.add('TypeError', self._wit(n, f'subscript of expression value: {src(n)[:50]}'))
            elif user and isinstance(n, (ast.ListComp, ast.SetComp, ast.GeneratorExp, ast.DictComp)):
                for g in n.generators:
                    if self._tainted(g.iter, at):
                        out.add('TypeError', self._wit(n, f'iteration over expression value {src(g.iter)[:40]}'))
        return out

    def _zero_guarded(self, n: ast.BinOp, at) -> bool:
        f = self._cur
        fl = get_flow(self.proj, f)
        if not fl.cfg.has(at):
            return False
        r = src(n.right)
        for text, truth in fl.cfg.guard_literals(at):
            t = text.replace(' ', '')
            if (not truth and t in (f'{r}==0', f'not{r}')) or (truth and t in (f'{r}!=0', r, f'{r}>0')):
                return True
        return False

    def _call(self, n: ast.Call, at, out: Esc, user: bool) -> None:
        f = self._cur
        d = dotted(n.func)
        name = call_name(n)
        targets = self._targets.get(id(n), [])
        for t in targets:
            if isinstance(t, FuncInfo):
                for k, v in self.esc.get(t.qualname, {}).items():
                    out.add(k, v)
        # library table (always)
        for key in (d, name):
            if key and key in CALL_TABLE_LIB and not any(isinstance(t, FuncInfo) for t in targets):
                # literal-pattern regex calls cannot fail
                if key == 're.compile' and n.args and isinstance(n.args[0], ast.Constant):
                    continue
                for c in CALL_TABLE_LIB[key]:
                    out.add(c, self._wit(n, f'{key}(...)'))
                break
        if not user:
            return
        args_tainted = any(self._tainted(a.value if isinstance(a, ast.Starred) else a, at) for a in n.args)
        in_pkg = any(isinstance(t, FuncInfo) for t in targets)
        # dynamic callee chosen by the expression: func(*args)
        if isinstance(n.func, ast.Name) and any(isinstance(t, str) and t.startswith('ext:builtins.') for t in targets) and in_pkg:
            out.add('TypeError', self._wit(n, f'{src(n)[:40]}: argument count/type chosen by the expression'))
            for b in ('abs', 'round'):
                for c in CALL_TABLE_USER[b]:
                    out.add(c, self._wit(n, f'{b}() reached through {src(n)[:30]}'))
            return
        if in_pkg:
            return
        for key in (d, name):
            if key and key in CALL_TABLE_USER:
                is_re = key.startswith('re.')
                regex_lit = is_re and n.args and isinstance(n.args[0], ast.Constant)
                if is_re and not regex_lit:
                    # a str is not necessarily a valid pattern: sanitising with str() does not help
                    out.add('re.error', self._wit(n, f'{key}() with a computed pattern: {src(n)[:50]}'))
                if args_tainted or key in ('next', 'min', 'max'):
                    names = {x.id for a in n.args for x in ast.walk(a) if isinstance(x, ast.Name)}
                    for c in CALL_TABLE_USER[key]:
                        if c == 're.error':
                            continue
                        if c == 'ValueError' and key in ('min', 'max') and len(n.args) > 1:
                            continue
                        if c == 'ValueError' and key in ('min', 'max') and self._locally_guarded(n, names, at):
                            continue
                        if c == 'StopIteration' and len(n.args) > 1:
                            continue
                        if c == 'statistics.StatisticsError' and self._locally_guarded(n, names, at):
                            continue
                        if c == 'TypeError' and not args_tainted:
                            continue
                        out.add(c, self._wit(n, f'{key}() on expression values: {src(n)[:50]}'))
                break
        # method call on an expression value
        if isinstance(n.func, ast.Attribute):
            recv = n.func.value
            if not (isinstance(recv, ast.Name) and recv.id in ('self', 'cls', 're', 'ast', 'statistics', 'warnings')):
                if self._tainted(recv, at):
                    out.add('AttributeError', self._wit(n, f'method {n.func.attr}() on expression value {src(recv)[:30]}'))
                    out.add('TypeError', self._wit(n, f'method {n.func.attr}() on expression value {src(recv)[:30]}'))
                elif args_tainted and n.func.attr in ('startswith', 'endswith', 'replace', 'split', 'join', 'find', 'count', 'index',
                                                      'search', 'match', 'sub', 'strip'):
                    out.add('TypeError', self._wit(n, f'{n.func.attr}() with expression-supplied argument: {src(n)[:50]}'))
