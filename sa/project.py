"""Project loader: parses the tally package from source, indexes modules,
classes and functions by qualified name, resolves imports and callees.

Nothing here imports or executes the analysed repository.
"""
from __future__ import annotations

import ast
import os
from dataclasses import dataclass, field
from typing import Dict, Iterable, List, Optional, Tuple


class AnalysisError(Exception):
    """The analysis cannot be carried out (exit 2), never a violation."""


PKG = 'tally'
SRC = 'src/tally'


def set_parents(tree: ast.AST) -> None:
    for node in ast.walk(tree):
        for child in ast.iter_child_nodes(node):
            child._parent = node  # type: ignore[attr-defined]
    tree._parent = None  # type: ignore[attr-defined]


def parent(node):
    return getattr(node, '_parent', None)


def ancestors(node):
    p = parent(node)
    while p is not None:
        yield p
        p = parent(p)


def src(node) -> str:
    """Normalised source text of a node."""
    try:
        return ast.unparse(node)
    except Exception:  # pragma: no cover
        return ast.dump(node)


def dotted(node) -> Optional[str]:
    """a.b.c for Name/Attribute chains, else None."""
    parts = []
    while isinstance(node, ast.Attribute):
        parts.append(node.attr)
        node = node.value
    if isinstance(node, ast.Name):
        parts.append(node.id)
        return '.'.join(reversed(parts))
    return None


def root_name(node) -> Optional[str]:
    """Root Name id of an attribute/subscript/call chain."""
    while True:
        if isinstance(node, ast.Attribute):
            node = node.value
        elif isinstance(node, ast.Subscript):
            node = node.value
        elif isinstance(node, ast.Call):
            node = node.func
        elif isinstance(node, ast.Starred):
            node = node.value
        else:
            break
    if isinstance(node, ast.Name):
        return node.id
    return None


@dataclass
class FuncInfo:
    qualname: str          # tally.merchant_engine.MerchantEngine.match
    name: str
    node: ast.AST          # FunctionDef / AsyncFunctionDef / Lambda
    module: 'ModuleInfo'
    cls: Optional['ClassInfo'] = None
    outer: Optional['FuncInfo'] = None

    @property
    def short(self) -> str:
        return self.qualname[len(PKG) + 1:]

    @property
    def params(self) -> List[str]:
        a = self.node.args
        names = [x.arg for x in a.posonlyargs + a.args]
        if a.vararg:
            names.append(a.vararg.arg)
        names += [x.arg for x in a.kwonlyargs]
        if a.kwarg:
            names.append(a.kwarg.arg)
        return names

    @property
    def lineno(self) -> int:
        return self.node.lineno

    def __hash__(self):
        return hash(self.qualname)

    def __eq__(self, other):
        return isinstance(other, FuncInfo) and other.qualname == self.qualname

    def __repr__(self):
        return f'<Func {self.short}>'


@dataclass
class ClassInfo:
    qualname: str
    name: str
    node: ast.ClassDef
    module: 'ModuleInfo'
    methods: Dict[str, FuncInfo] = field(default_factory=dict)
    bases: List[str] = field(default_factory=list)   # resolved qualnames or raw dotted

    def __hash__(self):
        return hash(self.qualname)


@dataclass
class ModuleInfo:
    name: str              # tally.merchant_engine
    relpath: str           # src/tally/merchant_engine.py
    source: str
    tree: ast.Module
    is_package: bool = False
    # name -> ('module', 'tally.x') | ('attr', 'tally.x', 'f') | ('ext', 'os.path')
    imports: Dict[str, Tuple] = field(default_factory=dict)
    functions: Dict[str, FuncInfo] = field(default_factory=dict)
    classes: Dict[str, ClassInfo] = field(default_factory=dict)
    globals_assigned: Dict[str, List[ast.AST]] = field(default_factory=dict)

    @property
    def short(self) -> str:
        return self.name[len(PKG) + 1:] if self.name != PKG else ''


class Project:
    def __init__(self, root: str = None, overlay: Optional[Dict[str, str]] = None):
        self.root = root or os.environ.get('TALLY_REPO', '/repo')
        self.overlay = overlay or {}
        self.modules: Dict[str, ModuleInfo] = {}
        self.funcs: Dict[str, FuncInfo] = {}
        self.classes: Dict[str, ClassInfo] = {}
        self.func_of_node: Dict[int, FuncInfo] = {}
        self.normalised: Dict[str, Dict[str, int]] = {}
        self.renamed: Dict[str, Dict[str, Dict[str, str]]] = {}     # locals alpha-converted back to the reference vocabulary (sa/canon.py)
        self._load()

    # ------------------------------------------------------------------ io
    def read_text(self, relpath: str) -> str:
        if relpath in self.overlay:
            return self.overlay[relpath]
        path = os.path.join(self.root, relpath)
        try:
            with open(path, 'r', encoding='utf-8') as f:
                return f.read()
        except OSError as e:
            raise AnalysisError(f'cannot read {relpath}: {e}')

    def exists(self, relpath: str) -> bool:
        return relpath in self.overlay or os.path.exists(os.path.join(self.root, relpath))

    def _py_files(self) -> List[str]:
        out = []
        base = os.path.join(self.root, SRC)
        if not os.path.isdir(base):
            raise AnalysisError(f'{SRC} not found under {self.root}')
        for d, _dirs, files in os.walk(base):
            for fn in files:
                if fn.endswith('.py'):
                    out.append(os.path.relpath(os.path.join(d, fn), self.root))
        for rel in self.overlay:
            if rel.endswith('.py') and rel.startswith(SRC) and rel not in out:
                out.append(rel)
        return sorted(out)

    # ---------------------------------------------------------------- load
    def _load(self) -> None:
        for rel in self._py_files():
            text = self.read_text(rel)
            try:
                tree = ast.parse(text, filename=rel)
            except SyntaxError as e:
                raise AnalysisError(f'{rel} does not parse: {e}')
            if not os.environ.get('VERIF_NO_CANON'):
                from . import canon, inline
                known = canon.reference().get(rel)
                if known and not os.environ.get('VERIF_NO_INLINE'):
                    st = inline.inline_module(tree, set(known))
                    if st:
                        self.normalised.setdefault(rel, {})['inlined'] = st
                done = canon.canonicalise(tree, rel)
                if done:
                    self.renamed[rel] = done
            if not os.environ.get('VERIF_NO_NORMALISE'):
                from . import normalize
                from . import canon as _canon
                st = normalize.normalise(tree, _canon.reference().get(rel))
                if st:
                    self.normalised.setdefault(rel, {}).update(st)
            set_parents(tree)
            modpath = rel[len('src/'):-3].replace('/', '.')
            is_pkg = False
            if modpath.endswith('.__init__'):
                modpath = modpath[:-len('.__init__')]
                is_pkg = True
            mi = ModuleInfo(modpath, rel, text, tree, is_pkg)
            self.modules[modpath] = mi
        if any('#params' in m for per in self.renamed.values() for m in per.values()):
            from . import canon
            canon.fix_keywords({mi.relpath: mi.tree for mi in self.modules.values()}, self.renamed)
        for mi in self.modules.values():
            self._index_module(mi)
        for ci in self.classes.values():
            ci.bases = [self._resolve_base(ci, b) for b in ci.node.bases]
        if not os.environ.get('VERIF_NO_NORMALISE'):
            self._positional_calls()

    def _positional_calls(self) -> None:
        """N6 of the normal form (see sa/normalize.py): at a call of a project function, a leading run of parameters passed by keyword
        is moved into positional slots (`f(a, y=b)` -> `f(a, b)` when y is f's second parameter).  Python binds both the same way; the
        rules then find an argument either at its position or, for the remaining ones, by keyword."""
        n = 0
        for mi in self.modules.values():
            for c in ast.walk(mi.tree):
                if not isinstance(c, ast.Call) or not c.keywords:
                    continue
                if any(isinstance(a, ast.Starred) for a in c.args) or any(k.arg is None for k in c.keywords):
                    continue
                d = dotted(c.func)
                if not d:
                    continue
                callee = None
                drop_self = False
                if d.startswith('self.') and d.count('.') == 1:
                    f = self.func_of_node.get(id(next((a for a in ancestors(c) if isinstance(a, (ast.FunctionDef, ast.AsyncFunctionDef))), None)))
                    if f is not None and f.cls is not None:
                        callee = self.find_method(f.cls, d[5:])
                        drop_self = True
                else:
                    r = self.resolve_name(mi, d)
                    if r and r[0] == 'func':
                        callee = r[1]
                        drop_self = callee.cls is not None and bool(callee.params) and callee.params[0] in ('self', 'cls')
                    elif r and r[0] == 'class':
                        callee = self.find_method(r[1], '__init__')
                        drop_self = True
                if callee is None or callee.node.args.vararg is not None or callee.node.args.posonlyargs:
                    continue
                params = [a.arg for a in callee.node.args.args]
                if drop_self and params and params[0] in ('self', 'cls'):
                    params = params[1:]
                kws = {k.arg: k for k in c.keywords}
                while len(c.args) < len(params) and params[len(c.args)] in kws:
                    k = kws.pop(params[len(c.args)])
                    c.args.append(k.value)
                    c.keywords.remove(k)
                    n += 1
        if n:
            self.normalised.setdefault('*', {})['N6'] = n

    def _resolve_import_from(self, mi: ModuleInfo, node: ast.ImportFrom) -> str:
        if node.level:
            base = mi.name if mi.is_package else mi.name.rsplit('.', 1)[0]
            for _ in range(node.level - 1):
                base = base.rsplit('.', 1)[0]
            return base + ('.' + node.module if node.module else '')
        return node.module or ''

    def _record_import(self, mi: ModuleInfo, table: Dict[str, Tuple], node) -> None:
        if isinstance(node, ast.Import):
            for a in node.names:
                if a.asname:
                    table[a.asname] = ('module', a.name)
                else:
                    table[a.name.split('.')[0]] = ('module', a.name.split('.')[0])
        elif isinstance(node, ast.ImportFrom):
            modname = self._resolve_import_from(mi, node)
            for a in node.names:
                if a.name == '*':
                    raise AnalysisError(f'{mi.relpath}:{node.lineno} star import makes name resolution unsound')
                local = a.asname or a.name
                full = modname + '.' + a.name
                if full in self.modules:
                    table[local] = ('module', full)
                else:
                    table[local] = ('attr', modname, a.name)

    def _index_module(self, mi: ModuleInfo) -> None:
        for node in ast.walk(mi.tree):
            if isinstance(node, (ast.Import, ast.ImportFrom)):
                # module-level table collects *all* imports of the module (incl.
                # function-level ones): names are used consistently in this repo
                # and function-level tables are consulted first (see imports_at).
                self._record_import(mi, mi.imports, node)
        for node in mi.tree.body:
            if isinstance(node, (ast.Assign, ast.AnnAssign, ast.AugAssign)):
                targets = node.targets if isinstance(node, ast.Assign) else [node.target]
                for t in targets:
                    for n in ast.walk(t):
                        if isinstance(n, ast.Name):
                            mi.globals_assigned.setdefault(n.id, []).append(node)
        self._index_body(mi, mi.tree.body, mi.name, None, None)

    def _index_body(self, mi, body, prefix, cls, outer) -> None:
        for node in body:
            self._index_node(mi, node, prefix, cls, outer)

    def _index_node(self, mi, node, prefix, cls, outer) -> None:
        if isinstance(node, (ast.FunctionDef, ast.AsyncFunctionDef)):
            qn = f'{prefix}.{node.name}'
            fi = FuncInfo(qn, node.name, node, mi, cls, outer)
            self.funcs[qn] = fi
            self.func_of_node[id(node)] = fi
            if cls is not None and outer is None:
                cls.methods[node.name] = fi
            elif cls is None and outer is None:
                mi.functions[node.name] = fi
            # nested defs
            for sub in ast.walk(node):
                if sub is node:
                    continue
                if isinstance(sub, (ast.FunctionDef, ast.AsyncFunctionDef)) and self._owner_def(sub) is node:
                    self._index_node(mi, sub, qn, None, fi)
                elif isinstance(sub, ast.ClassDef) and self._owner_def(sub) is node:
                    self._index_node(mi, sub, qn, None, fi)
        elif isinstance(node, ast.ClassDef):
            qn = f'{prefix}.{node.name}'
            ci = ClassInfo(qn, node.name, node, mi)
            self.classes[qn] = ci
            if cls is None and outer is None:
                mi.classes[node.name] = ci
            for sub in node.body:
                self._index_node(mi, sub, qn, ci, None)
        elif isinstance(node, (ast.If, ast.Try, ast.With)):
            for sub in ast.iter_child_nodes(node):
                if isinstance(sub, (ast.FunctionDef, ast.AsyncFunctionDef, ast.ClassDef)):
                    self._index_node(mi, sub, prefix, cls, outer)
                elif isinstance(sub, ast.ExceptHandler):
                    for s2 in sub.body:
                        self._index_node(mi, s2, prefix, cls, outer)

    @staticmethod
    def _owner_def(node):
        for a in ancestors(node):
            if isinstance(a, (ast.FunctionDef, ast.AsyncFunctionDef, ast.ClassDef, ast.Lambda)):
                return a
        return None

    def _resolve_base(self, ci: ClassInfo, b: ast.AST) -> str:
        d = dotted(b)
        if d is None:
            return src(b)
        r = self.resolve_name(ci.module, d)
        if r and r[0] in ('class',):
            return r[1].qualname
        return d

    # ------------------------------------------------------------- lookups
    def module(self, short: str) -> ModuleInfo:
        name = f'{PKG}.{short}' if short else PKG
        if name not in self.modules:
            raise AnalysisError(f'anchor module {name} not found')
        return self.modules[name]

    def func(self, short: str) -> FuncInfo:
        qn = f'{PKG}.{short}'
        if qn not in self.funcs:
            raise AnalysisError(f'anchor function {short} not found')
        return self.funcs[qn]

    def maybe_func(self, short: str) -> Optional[FuncInfo]:
        return self.funcs.get(f'{PKG}.{short}')

    def cls(self, short: str) -> ClassInfo:
        qn = f'{PKG}.{short}'
        if qn not in self.classes:
            raise AnalysisError(f'anchor class {short} not found')
        return self.classes[qn]

    def enclosing_func(self, node) -> Optional[FuncInfo]:
        for a in ancestors(node):
            if isinstance(a, (ast.FunctionDef, ast.AsyncFunctionDef)):
                return self.func_of_node.get(id(a))
        return None

    def all_funcs(self) -> Iterable[FuncInfo]:
        return self.funcs.values()

    def mro(self, ci: ClassInfo) -> List[ClassInfo]:
        out, seen, todo = [], set(), [ci]
        while todo:
            c = todo.pop(0)
            if c.qualname in seen:
                continue
            seen.add(c.qualname)
            out.append(c)
            for b in c.bases:
                if b in self.classes:
                    todo.append(self.classes[b])
        return out

    def find_method(self, ci: ClassInfo, name: str) -> Optional[FuncInfo]:
        for c in self.mro(ci):
            if name in c.methods:
                return c.methods[name]
        return None

    def subclasses(self, ci: ClassInfo) -> List[ClassInfo]:
        return [c for c in self.classes.values() if ci in self.mro(c)]

    # ------------------------------------------------------ name resolution
    def resolve_name(self, mi: ModuleInfo, name: str):
        """Resolve a dotted name used in module `mi`.

        Returns ('func', FuncInfo) | ('class', ClassInfo) | ('module', ModuleInfo)
              | ('ext', 'os.path.exists') | ('global', mi, name) | None
        """
        parts = name.split('.')
        head, rest = parts[0], parts[1:]
        cur = None
        if head in mi.functions:
            cur = ('func', mi.functions[head])
        elif head in mi.classes:
            cur = ('class', mi.classes[head])
        elif head in mi.imports:
            imp = mi.imports[head]
            if imp[0] == 'module':
                if imp[1] in self.modules:
                    cur = ('module', self.modules[imp[1]])
                else:
                    cur = ('ext', imp[1])
            else:
                _k, modname, attr = imp
                if modname in self.modules:
                    cur = self._member(self.modules[modname], attr)
                    if cur is None:
                        cur = ('global', self.modules[modname], attr)
                else:
                    cur = ('ext', f'{modname}.{attr}')
        elif head in mi.globals_assigned:
            cur = ('global', mi, head)
        else:
            return None
        for p in rest:
            if cur is None:
                return None
            if cur[0] == 'module':
                sub = cur[1].name + '.' + p
                if sub in self.modules:
                    cur = ('module', self.modules[sub])
                else:
                    m = self._member(cur[1], p)
                    cur = m if m is not None else ('global', cur[1], p)
            elif cur[0] == 'ext':
                cur = ('ext', cur[1] + '.' + p)
            elif cur[0] == 'class':
                m = self.find_method(cur[1], p)
                cur = ('func', m) if m else None
            else:
                return None
        return cur

    def _member(self, mi: ModuleInfo, attr: str):
        if attr in mi.functions:
            return ('func', mi.functions[attr])
        if attr in mi.classes:
            return ('class', mi.classes[attr])
        if attr in mi.imports:
            return self.resolve_name(mi, attr)
        return None
