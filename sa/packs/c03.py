"""C03 — rule expressions are confined.

Inductive argument: if no evaluator operation can turn a data value into a
type / function / module, none touches a reflective or I/O sink, and nothing
is evaluated that did not pass the whitelist gate, then no expression can.
Each premise is a syntactic / dataflow fact about expr_parser.py and the
modules that hand expression text to it.
"""
from __future__ import annotations

import ast
from typing import List, Optional, Set

from ..callgraph import CallGraph, all_nodes, own_nodes, BUILTINS, get_cg
from ..cfg import CFG, EXIT
from ..core import Ctx
from ..flow import Flow, call_name, get_flow
from ..project import AnalysisError, FuncInfo, Project, ancestors, dotted, parent, root_name, set_parents, src

LEVEL = 'other'
EP = 'expr_parser'

FORBIDDEN_BUILTINS = {'eval', 'exec', 'compile', '__import__', 'open', 'input', 'breakpoint', 'globals', 'locals',
                      'vars', 'setattr', 'delattr', 'dir', 'memoryview', 'help', 'exit', 'quit'}
FORBIDDEN_MODULES = {'os', 'sys', 'subprocess', 'socket', 'importlib', 'builtins', 'ctypes', 'pickle', 'marshal', 'shutil',
                     'pathlib', 'io', 'tempfile', 'urllib', 'gc', 'code', 'codeop', 'runpy', 'operator',
                     'http', 'ftplib', 'smtplib', 'shelve', 'dbm', 'sqlite3', 'multiprocessing', 'threading', 'signal',
                     'pty', 'platform', 'glob', 'fnmatch', 'zipfile', 'tarfile', 'webbrowser', 'requests',
                     'site', 'pkgutil', 'zipimport', 'linecache', 'dis'}
VETTED_BUILTIN_VALUES = {'abs', 'round'}
DENY_NODES = {'Lambda', 'Yield', 'YieldFrom', 'Await', 'FunctionDef', 'AsyncFunctionDef', 'ClassDef', 'Import', 'ImportFrom',
              'Global', 'Nonlocal', 'Delete', 'Assign', 'AugAssign', 'AnnAssign', 'With', 'AsyncWith', 'Try', 'Raise',
              'For', 'AsyncFor', 'While', 'If', 'Return', 'Assert', 'Expr', 'Module', 'Interactive', 'FunctionType',
              'JoinedStr', 'FormattedValue', 'Starred', 'Match', 'TryStar', 'Pass', 'Break', 'Continue'}
MUTATORS = {'append', 'add', 'update', 'pop', 'clear', 'extend', 'insert', 'remove', 'setdefault', 'sort', 'reverse',
            'popitem', 'discard', '__setitem__', '__delitem__', 'difference_update', 'intersection_update',
            'symmetric_difference_update'}
EVALUATORS = ['TransactionEvaluator', 'ExpressionEvaluator']
CONTEXTS = ['TransactionContext', 'ExpressionContext']


def _ep_funcs(proj: Project) -> List[FuncInfo]:
    mi = proj.module(EP)
    return [f for f in proj.all_funcs() if f.module is mi]


def check(ctx: Ctx) -> None:
    proj = ctx.proj
    mi = proj.module(EP)
    ctx.rule('C03.R1', 'gate dominance: only whitelisted, validated trees are cached or evaluated; validate_ast checks every node recursively', floor=8)
    ctx.rule('C03.R2', 'no forbidden builtin (eval, exec, compile, __import__, open, globals, vars, setattr, …) and no denied module (os, sys, subprocess, importlib, …) in expr_parser', floor=3)
    ctx.rule('C03.R3', 'reflective names are closed: the name argument of every getattr/hasattr is a literal, an ast class name, or dominated by membership in a literal set', floor=3)
    ctx.rule('C03.R4', 'no attribute-walking formatter on user-derived values; no dunder attribute read; string methods applied to user values are literal attribute calls', floor=2)
    ctx.rule('C03.R5', 'closed callee: every dynamically chosen callee comes from get_function, whose tables hold bound _fn_* methods or vetted builtins; an evaluated value is never called', floor=5)
    ctx.rule('C03.R6', 'functions are not values: name/attribute/subscript/constant evaluation returns data, never function tables, builtins or bound methods', floor=6)
    ctx.rule('C03.R7', 'whitelist x evaluator: no whitelisted node with an evaluator is of a code-building kind; every evaluator method names a real ast class', floor=20)
    ctx.rule('C03.R8', 'inputs are not mutated: no store or mutator call in expr_parser rooted at the AST, the transaction, rows, fields or variables handed in', floor=10)
    ctx.rule('C03.R9', 'interpreter objects (live generators) produced by the evaluator do not reach stringification sinks', floor=1)

    _self_test(ctx)
    r1_gate(ctx)
    r2_forbidden(ctx)
    r3_reflective(ctx)
    r4_formatters(ctx)
    r5_closed_callee(ctx)
    r6_not_values(ctx)
    r7_whitelist(ctx)
    r8_mutation(ctx)
    r9_generators(ctx)


# ---------------------------------------------------------------------------
def _self_test(ctx: Ctx) -> None:
    """Positive control for the zero-expected rules: a tiny embedded module must be flagged."""
    sample = ("import os\n"
              "def f(obj, name, s):\n"
              "    eval(s)\n"
              "    return getattr(obj, name)\n")
    tree = ast.parse(sample)
    set_parents(tree)
    hits = _forbidden_calls(tree) + _forbidden_imports(tree)
    if len(hits) < 2:
        raise AnalysisError('C03 self-test: forbidden-call detector did not flag the embedded positive example')
    gs = [n for n in ast.walk(tree) if isinstance(n, ast.Call) and isinstance(n.func, ast.Name) and n.func.id == 'getattr']
    if not gs or _classify_reflective_arg(None, None, gs[0]) [0] != 'open':
        raise AnalysisError('C03 self-test: reflective-name classifier accepted an open getattr')


def _forbidden_calls(tree) -> List[ast.Call]:
    out = []
    for n in ast.walk(tree):
        if isinstance(n, ast.Call) and isinstance(n.func, ast.Name) and n.func.id in FORBIDDEN_BUILTINS:
            out.append(n)
        if isinstance(n, ast.Name) and n.id in FORBIDDEN_BUILTINS and isinstance(n.ctx, ast.Load) and not (
                isinstance(parent(n), ast.Call) and parent(n).func is n):
            out.append(n)     # forbidden builtin used as a value
    return out


def _forbidden_imports(tree) -> List[ast.AST]:
    out = []
    for n in ast.walk(tree):
        if isinstance(n, ast.Import):
            for a in n.names:
                if a.name.split('.')[0] in FORBIDDEN_MODULES:
                    out.append(n)
        elif isinstance(n, ast.ImportFrom):
            if (n.module or '').split('.')[0] in FORBIDDEN_MODULES and not n.level:
                out.append(n)
    return out


# --------------------------------------------------------------------------- R1
def r1_gate(ctx: Ctx) -> None:
    proj = ctx.proj
    mi = proj.module(EP)
    pe = proj.func(f'{EP}.parse_expression')
    fl = get_flow(proj, pe)
    cfg = fl.cfg

    # ast.parse sites anywhere in the package's expression path
    parse_calls = []
    for f in _ep_funcs(proj):
        for n in all_nodes(f.node):
            if isinstance(n, ast.Call) and dotted(n.func) in ('ast.parse',):
                parse_calls.append((f, n))
    if not parse_calls:
        ctx.unknown('C03.R1', pe, 'no ast.parse call found in expr_parser')
    for f, n in parse_calls:
        mode = [kw.value for kw in n.keywords if kw.arg == 'mode']
        if len(n.args) >= 2:
            mode = [n.args[1]]
        ok = f is pe and len(mode) == 1 and isinstance(mode[0], ast.Constant) and mode[0].value == 'eval'
        ctx.check(ok, 'C03.R1', f, 'ast.parse:mode', "ast.parse(<str>, mode='eval') inside parse_expression",
                  f'ast.parse call {src(n)!r} is outside parse_expression or not in literal eval mode', n)

    # validate_ast call statements on a parsed tree
    vcalls = [c for c in fl.calls('validate_ast')]
    if not vcalls:
        ctx.fail('C03.R1', pe, 'validate-call', 'parse_expression never calls validate_ast', pe.node)
    # every return: cache read or validated tree
    cache_names = {'_expression_cache'}
    rets = [s for s in cfg.stmts() if isinstance(s, ast.Return)]
    if not rets:
        ctx.unknown('C03.R1', pe, 'parse_expression has no return statement')
    for r in rets:
        v = r.value
        if v is None:
            ctx.fail('C03.R1', pe, 'return:none', 'parse_expression returns None on some path', r)
            continue
        if isinstance(v, ast.Subscript) and isinstance(v.value, ast.Name) and v.value.id in cache_names:
            ctx.ok('C03.R1', pe, 'return of a cache entry (cache holds validated trees only, see store rule)', r, 'return:cache-read')
            continue
        if isinstance(v, ast.Call) and dotted(v.func) in ('_expression_cache.get',):
            ctx.ok('C03.R1', pe, 'return of a cache entry', r, 'return:cache-read')
            continue
        if isinstance(v, ast.Name):
            # a local that holds a cache entry on this path: every definition reaching the return reads the cache
            ds = [cfg.stmt[d] for d in cfg.defs_reaching(r, v.id) if d != 'param']
            def is_cache_read(e):
                return (isinstance(e, ast.Subscript) and isinstance(e.value, ast.Name) and e.value.id in cache_names) or \
                    (isinstance(e, ast.Call) and dotted(e.func) in ('_expression_cache.get',))
            if ds and all(isinstance(d_, ast.Assign) and is_cache_read(d_.value) for d_ in ds):
                ctx.ok('C03.R1', pe, 'return of a cache entry held in a local', r, 'return:cache-read')
                continue
        ok, why = _validated_at(fl, v, r, vcalls)
        ctx.check(ok, 'C03.R1', pe, 'return:validated-tree', 'returned tree is the ast.parse result and validate_ast(tree) dominates the return',
                  f'return {src(v)!r}: {why}', r)
    # cache stores
    stores = []
    for f in proj.all_funcs():
        for n in all_nodes(f.node):
            tgt = []
            if isinstance(n, ast.Assign):
                tgt = n.targets
            elif isinstance(n, (ast.AugAssign, ast.AnnAssign)):
                tgt = [n.target]
            for t in tgt:
                if isinstance(t, ast.Subscript) and (dotted(t.value) or '').split('.')[-1] == '_expression_cache':
                    stores.append((f, n, t))
            if isinstance(n, ast.Call) and isinstance(n.func, ast.Attribute) and (dotted(n.func.value) or '').split('.')[-1] == '_expression_cache' \
                    and n.func.attr in MUTATORS:
                stores.append((f, n, None))
    for f, n, t in stores:
        if f is not pe or t is None:
            ctx.fail('C03.R1', f, 'cache-store', f'expression cache written outside the gate: {src(n)!r}', n)
            continue
        ok, why = _validated_at(fl, n.value, n, vcalls)
        ctx.check(ok, 'C03.R1', pe, 'cache-store', 'the only cache store is dominated by validate_ast on the stored tree',
                  f'cache store {src(n)!r}: {why}', n)

    # validate_ast itself
    va = proj.func(f'{EP}.validate_ast')
    _check_validate_ast(ctx, va)

    # every evaluation of a tree obtains it from the gate
    _check_eval_sites(ctx)


def _validated_at(fl: Flow, value, at_stmt, vcalls):
    """value must be a Name whose only reaching definition is `x = ast.parse(..)`, and a statement
    `validate_ast(x[, ...])` must dominate at_stmt and be dominated by that definition."""
    if not isinstance(value, ast.Name):
        return False, 'not a plain name bound to the parsed tree'
    cfg = fl.cfg
    defs = cfg.defs_reaching(at_stmt, value.id)
    if not defs or 'param' in defs:
        return False, f'{value.id} is not defined from ast.parse on every path'
    for d in defs:
        s = cfg.stmt[d]
        ok = isinstance(s, ast.Assign) and isinstance(s.value, ast.Call) and dotted(s.value.func) == 'ast.parse'
        if not ok:
            return False, f'{value.id} may come from {src(s)[:60]!r}, not from ast.parse'
    for c in vcalls:
        if not c.args or not isinstance(c.args[0], ast.Name) or c.args[0].id != value.id:
            continue
        cs = fl.stmt_of(c)
        if not isinstance(cs, ast.Expr):
            continue
        if len(c.args) > 1 or c.keywords:
            # a caller-chosen whitelist would weaken the gate
            return False, 'validate_ast called with a non-default whitelist'
        if cfg.dominates(cs, at_stmt) and all(cfg.dominates(d, cs) for d in defs) and cfg.nid(cs) != cfg.nid(at_stmt):
            # the validation must not be skippable: control-dependent only on try / none
            g = [(cfg.stmt.get(b), lab) for b, lab in cfg.guards(cs) if isinstance(cfg.stmt.get(b), (ast.If, ast.While, ast.For))]
            if g:
                # dominance already implies every path passes it; guards are then irrelevant
                pass
            return True, ''
    return False, f'no validate_ast({value.id}) call dominates this statement'


def _check_validate_ast(ctx: Ctx, va: FuncInfo) -> None:
    cfg = CFG.of_function(va.node)
    params = va.params
    if len(params) < 1:
        ctx.unknown('C03.R1', va, 'validate_ast has no parameters')
    node_p = params[0]
    allowed_p = params[1] if len(params) > 1 else None
    # default whitelist
    if allowed_p is not None:
        d = va.node.args.defaults
        ok = len(d) == 1 and isinstance(d[0], ast.Name) and d[0].id == 'ALLOWED_NODES'
        ctx.check(ok, 'C03.R1', va, 'validate:default', 'default whitelist is ALLOWED_NODES',
                  f'default whitelist is {src(d[0]) if d else "missing"}')
    # form A: test on the node, then unconditional recursion over its children
    # form B: one flat loop over ast.walk(node) testing every visited node
    loops = [s for s in cfg.stmts() if isinstance(s, ast.For)]
    walk_var = None
    for lp in loops:
        it = lp.iter
        if isinstance(it, ast.Call) and dotted(it.func) == 'ast.walk' and it.args and src(it.args[0]) == node_p and isinstance(lp.target, ast.Name):
            walk_var = lp.target.id
    subjects = [node_p] + ([walk_var] if walk_var else [])
    raises = [s for s in cfg.stmts() if isinstance(s, ast.Raise)]
    good_subject = None
    for r in raises:
        for text, truth in cfg.guard_literals(r):
            t = text.replace(' ', '')
            for subj in subjects:
                if (truth and t in (f'type({subj})notin{allowed_p}', f'type({subj})notinALLOWED_NODES')) or \
                        (not truth and t in (f'type({subj})in{allowed_p}', f'type({subj})inALLOWED_NODES')):
                    good_subject = subj
    ctx.check(good_subject is not None, 'C03.R1', va, 'validate:membership', 'a node whose exact type is not whitelisted raises',
              'no raise guarded by `type(node) not in allowed` found (isinstance-style tests would admit subclasses and are not accepted)')
    rec_ok = False
    for lp in loops:
        it = lp.iter
        if not (isinstance(it, ast.Call) and dotted(it.func) in ('ast.iter_child_nodes', 'ast.walk') and it.args and src(it.args[0]) == node_p):
            continue
        tgt = lp.target.id if isinstance(lp.target, ast.Name) else None
        guards = [(cfg.stmt[b], lab) for b, lab in cfg.guards(lp) if isinstance(cfg.stmt.get(b), ast.If)]
        bad_guards = [g for g in guards if not (_is_membership_test(g[0].test, node_p, allowed_p) or _is_membership_test(g[0].test, tgt, allowed_p))]
        if bad_guards:
            continue
        if dotted(it.func) == 'ast.walk':
            # every visited node is tested first thing in the body
            first = lp.body[0] if lp.body else None
            if isinstance(first, ast.If) and _is_membership_test(first.test, tgt, allowed_p) and good_subject == tgt:
                rec_ok = True
        else:
            top = [s for s in lp.body if isinstance(s, ast.Expr) and isinstance(s.value, ast.Call) and call_name(s.value) == 'validate_ast']
            if top and tgt and top[0].value.args and src(top[0].value.args[0]) == tgt and good_subject == node_p:
                a = top[0].value
                rec_ok = (len(a.args) > 1 and src(a.args[1]) == allowed_p) or any(kw.arg == allowed_p and src(kw.value) == allowed_p for kw in a.keywords) \
                    or (len(a.args) == 1 and not a.keywords)
    ctx.check(rec_ok, 'C03.R1', va, 'validate:recursion', 'every node of the tree is tested (recursion over iter_child_nodes / flat ast.walk), unconditionally',
              'no unconditional visit of every child node found (a skipped child escapes the whitelist)')
    # no early return before the test
    early = [s for s in cfg.stmts() if isinstance(s, ast.Return)]
    ctx.check(not early, 'C03.R1', va, 'validate:no-early-return', 'validate_ast has no early return',
              f'validate_ast can return early at line {early[0].lineno if early else 0} (nodes may skip validation)', early[0] if early else None)


def _is_membership_test(test, node_p, allowed_p) -> bool:
    t = src(test).replace(' ', '')
    return t in (f'type({node_p})notin{allowed_p}', f'type({node_p})in{allowed_p}', f'type({node_p})notinALLOWED_NODES',
                 f'type({node_p})inALLOWED_NODES')


def _check_eval_sites(ctx: Ctx) -> None:
    """Every `<Evaluator>(..).evaluate(tree)` outside the evaluator classes gets its tree from the gate
    (parse_expression / parse) or from a parameter of an *_ast API whose callers do."""
    proj = ctx.proj
    cg = get_cg(proj)
    ev_classes = {proj.cls(f'{EP}.{c}').qualname for c in EVALUATORS}
    sites = 0
    for f in proj.all_funcs():
        if f.cls is not None and f.cls.qualname in ev_classes:
            continue
        lt = cg.local_types(f)
        fl = None
        for n in all_nodes(f.node):
            if not (isinstance(n, ast.Call) and isinstance(n.func, ast.Attribute) and n.func.attr == 'evaluate' and n.args):
                continue
            recv = n.func.value
            is_ev = False
            if isinstance(recv, ast.Name) and lt.get(recv.id, set()) & ev_classes:
                is_ev = True
            if isinstance(recv, ast.Call):
                d = dotted(recv.func)
                if d and d.split('.')[-1] in EVALUATORS:
                    is_ev = True
            if isinstance(recv, ast.Name) and recv.id in f.params and not is_ev:
                # helper taking the evaluator as a parameter: some caller passes an evaluator instance
                from ..flow import arg_of
                for caller, call in cg.callers(f):
                    a = arg_of(call, f, recv.id)
                    if isinstance(a, ast.Name) and cg.local_types(caller).get(a.id, set()) & ev_classes:
                        is_ev = True
            if not is_ev:
                continue
            sites += 1
            fl = fl or get_flow(proj, f)
            _tree_provenance(ctx, cg, f, fl, n.args[0], n, 0)
    # external callers of the *_ast variants
    for api in ('evaluate_ast', 'evaluate_transaction_ast'):
        fa = proj.func(f'{EP}.{api}')
        for caller, call in cg.callers(fa):
            if caller.module is proj.module(EP) and caller.name in ('evaluate', 'evaluate_transaction'):
                continue
            sites += 1
            fl = get_flow(proj, caller)
            _tree_provenance(ctx, cg, caller, fl, call.args[0] if call.args else None, call, 0)
    ctx.count('call_sites', sites)
    ctx.need(not (sites < 2), f'C03.R1: only {sites} evaluation sites found (at least the evaluate* API and the view filter are expected)')


GATE_Q = {'callq:expr_parser.parse_expression', 'callq:expr_parser.parse', 'callq:parse_expression'}


def _gated(ops, f: FuncInfo) -> bool:
    if GATE_Q & set(ops):
        return True
    # inside expr_parser itself `parse(...)` is the module's own wrapper of parse_expression
    return 'callq:parse' in ops and f.module.name.endswith('.expr_parser')


def _ungated_leaves(ctx, cg, f, expr, node, depth, seen):
    """Leaves of the provenance of `expr` (in f) that do not pass parse_expression / parse."""
    from ..flow import arg_of
    fl = get_flow(ctx.proj, f)
    bad = []
    for leaf, ops in fl.leaf_paths(expr, node):
        if _gated(ops, f):
            continue
        attrs = [o for o in ops if o.startswith('attr:')]
        if attrs and _attr_filled_from_gate(ctx.proj, attrs[0].split('.')[-1]):
            continue      # object attribute that is only ever assigned a gated tree (or None)
        if leaf.startswith('param:') and depth < 4:
            pname = leaf.split(':', 1)[1]
            callers = cg.callers(f)
            if not callers:
                if f.name.endswith('_ast') and f.module.name.endswith('.expr_parser'):
                    continue   # public "pre-parsed AST" API without in-package callers
                bad.append(f'{f.short}:{leaf}')
                continue
            for caller, call in callers:
                key = (caller.qualname, id(call), pname)
                if key in seen:
                    continue
                seen.add(key)
                a = arg_of(call, f, pname)
                if a is None:
                    continue
                bad += _ungated_leaves(ctx, cg, caller, a, call, depth + 1, seen)
            continue
        bad.append(f'{f.short}:{leaf}')
    return bad


def _tree_provenance(ctx, cg, f, fl, expr, node, depth):
    if expr is None:
        ctx.unknown('C03.R1', f, 'evaluation call without a tree argument', node)
    bad = _ungated_leaves(ctx, cg, f, expr, node, 0, set())
    ctx.check(not bad, 'C03.R1', f, f'eval-site:{src(node.func)}', 'evaluated tree comes from parse_expression / parse',
              f'evaluated tree has provenance {bad[:4]} that does not pass the whitelist gate', node)


def _attr_filled_from_gate(proj: Project, attr: str) -> bool:
    """Every assignment `<x>.<attr> = v` / keyword `attr=v` in the package takes v from parse()/parse_expression() or None."""
    ok_any = False
    for f in proj.all_funcs():
        fl = None
        for n in all_nodes(f.node):
            vals = []
            if isinstance(n, ast.Assign) and any(isinstance(t, ast.Attribute) and t.attr == attr for t in n.targets):
                vals.append(n.value)
            if isinstance(n, ast.Call):
                vals += [kw.value for kw in n.keywords if kw.arg == attr]
            for v in vals:
                if isinstance(v, ast.Constant) and v.value is None:
                    continue
                fl = fl or get_flow(proj, f)
                for leaf, ops in fl.leaf_paths(v, n):
                    if _gated(ops, f):
                        ok_any = True
                    else:
                        return False
    return ok_any


# --------------------------------------------------------------------------- R2
def r2_forbidden(ctx: Ctx) -> None:
    proj = ctx.proj
    mi = proj.module(EP)
    calls = _forbidden_calls(mi.tree)
    # `compile` as an attribute (re.compile) is a different function: only Name calls are flagged above
    if calls:
        for n in calls:
            f = proj.enclosing_func(n)
            nm = n.func.id if isinstance(n, ast.Call) else n.id
            ctx.fail('C03.R2', f or EP, f'builtin:{nm}', f'forbidden builtin {nm!r} used in the expression evaluator: {src(n)[:80]!r}', n,
                     file=mi.relpath)
    else:
        ncalls = sum(1 for n in ast.walk(mi.tree) if isinstance(n, ast.Call))
        ctx.ok('C03.R2', EP, f'{ncalls} calls in expr_parser, none resolves to a forbidden builtin', construct='builtins')
    imps = _forbidden_imports(mi.tree)
    if imps:
        for n in imps:
            ctx.fail('C03.R2', proj.enclosing_func(n) or EP, f'import:{src(n)}', f'denied module imported in the expression evaluator: {src(n)!r}', n,
                     file=mi.relpath)
    else:
        names = sorted({(a.name if isinstance(n, ast.Import) else (n.module or '')) for n in ast.walk(mi.tree)
                        if isinstance(n, (ast.Import, ast.ImportFrom)) for a in n.names})
        ctx.ok('C03.R2', EP, f'imports {names}: none on the deny list', construct='imports')
    # __builtins__ / __import__ style access through names
    dunder_names = [n for n in ast.walk(mi.tree) if isinstance(n, ast.Name) and n.id.startswith('__') and n.id.endswith('__')
                    and n.id not in ('__name__',) and isinstance(n.ctx, ast.Load)]
    ctx.check(not dunder_names, 'C03.R2', EP, 'dunder-names', 'no dunder global (e.g. __builtins__) referenced',
              f'dunder names referenced: {sorted({n.id for n in dunder_names})}', dunder_names[0] if dunder_names else None)


# --------------------------------------------------------------------------- R3
def _classify_reflective_arg(proj, f: Optional[FuncInfo], call: ast.Call):
    """('const'|'evalname'|'guarded'|'open', detail) for getattr/hasattr(obj, NAME...)."""
    if len(call.args) < 2:
        return ('open', 'fewer than two arguments')
    a = call.args[1]
    if isinstance(a, ast.Constant) and isinstance(a.value, str):
        return ('const', a.value)
    if f is None:
        return ('open', src(a))
    fl = get_flow(proj, f)
    # closed by a constant collection: `if NAME in <literal / class-level constant collection>` dominates the call, or NAME is looked up in a
    # constant dict (TABLE[x] / TABLE.get(x)); every member must be a public identifier
    from ._tables import const_collection, table_of

    def public(names) -> bool:
        return bool(names) and all(isinstance(x, str) and x.isidentifier() and not x.startswith('_') for x in names)
    if isinstance(a, ast.Name):
        for atom, truth in fl.cfg.guard_atoms(fl.stmt_of(call)):
            if truth and isinstance(atom, ast.Compare) and len(atom.ops) == 1 and isinstance(atom.ops[0], ast.In) and isinstance(atom.left, ast.Name) and atom.left.id == a.id:
                members = const_collection(atom.comparators[0], f.module, f.cls)
                if members is not None:
                    return ('guarded', f'{a.id} in {src(atom.comparators[0])}') if public(members) else ('open', f'{src(atom.comparators[0])} contains a non-public name')
        defs_ = [fl.cfg.stmt[d] for d in fl.cfg.defs_reaching(fl.stmt_of(call), a.id) if d != 'param']
        if defs_ and len(defs_) == len(fl.cfg.defs_reaching(fl.stmt_of(call), a.id)) and all(isinstance(s_, ast.Assign) for s_ in defs_):
            tabs = [table_of(s_.value, f.module, f.cls) for s_ in defs_]
            if all(t_ is not None for t_ in tabs):
                vals = [v for t_ in tabs for v in t_[0].values()]
                return ('guarded', 'looked up in a constant table') if public(vals) else ('open', 'table contains a non-public name')
    exprs = [a]
    if isinstance(a, ast.Name):
        exprs = []
        for d in fl.cfg.defs_reaching(fl.stmt_of(call), a.id):
            if d == 'param':
                return ('open', f'{a.id} is a parameter')
            s = fl.cfg.stmt[d]
            if isinstance(s, ast.Assign) and len(s.targets) == 1:
                exprs.append(s.value)
            else:
                return ('open', f'{a.id} defined by {src(s)[:50]!r}')
    kinds = []
    for e in exprs:
        if isinstance(e, ast.Constant) and isinstance(e.value, str):
            kinds.append('const')
            continue
        if isinstance(e, ast.JoinedStr):
            consts = ''.join(v.value for v in e.values if isinstance(v, ast.Constant))
            holes = [v.value for v in e.values if isinstance(v, ast.FormattedValue)]
            if consts.startswith('_eval_') and len(holes) == 1 and src(holes[0]).replace(' ', '') .startswith('type(') \
                    and src(holes[0]).endswith('.__name__'):
                kinds.append('evalname')
                continue
            if consts.startswith('_fn_') and len(holes) == 1 and isinstance(holes[0], ast.Name):
                nm = holes[0].id
                lits = fl.cfg.guard_literals(fl.stmt_of(call))
                guarded = any(truth and text.replace(' ', '') in (f'{nm}inself._FUNCTION_NAMES', f'{nm}in{f.cls.name if f.cls else ""}._FUNCTION_NAMES')
                              for text, truth in lits)
                if guarded:
                    kinds.append('guarded')
                    continue
                return ('open', f'f"_fn_{{{nm}}}" not dominated by `{nm} in self._FUNCTION_NAMES`')
        if isinstance(e, ast.BinOp) and isinstance(e.op, ast.Add) and isinstance(e.left, ast.Constant) and e.left.value == '_eval_' \
                and src(e.right).replace(' ', '').startswith('type(') and src(e.right).endswith('.__name__'):
            kinds.append('evalname')
            continue
        return ('open', f'name expression {src(e)[:60]!r} is neither literal, an ast class name, nor guarded by a literal set')
    if not kinds:
        return ('open', 'no definition found')
    return (kinds[0] if len(set(kinds)) == 1 else 'guarded', '')


def r3_reflective(ctx: Ctx) -> None:
    proj = ctx.proj
    n_sites = 0
    for f in _ep_funcs(proj):
        for n in all_nodes(f.node):
            if isinstance(n, ast.Call) and isinstance(n.func, ast.Name) and n.func.id in ('getattr', 'hasattr'):
                n_sites += 1
                kind, detail = _classify_reflective_arg(proj, f, n)
                ctx.check(kind != 'open', 'C03.R3', f, f'{n.func.id}:{src(n.args[1]) if len(n.args) > 1 else "?"}',
                          f'{src(n)[:70]} — name is {kind}', f'{src(n)[:70]!r}: attribute name is open to user text ({detail})', n)
    # the literal set and its members
    tc = proj.cls(f'{EP}.TransactionContext')
    fn_names = None
    for s in tc.node.body:
        tgt = s.target if isinstance(s, ast.AnnAssign) else (s.targets[0] if isinstance(s, ast.Assign) else None)
        if tgt is not None and isinstance(tgt, ast.Name) and tgt.id == '_FUNCTION_NAMES':
            v = s.value
            if isinstance(v, ast.Set) and all(isinstance(e, ast.Constant) and isinstance(e.value, str) for e in v.elts):
                fn_names = [e.value for e in v.elts]
            else:
                ctx.fail('C03.R3', f'{EP}.TransactionContext', '_FUNCTION_NAMES', '_FUNCTION_NAMES is not a literal set of strings', s,
                         file=tc.module.relpath)
                return
    if fn_names is None:
        # accepted alternative: a functions dict like ExpressionContext (checked under R5)
        ctx.ok('C03.R3', f'{EP}.TransactionContext', 'no _FUNCTION_NAMES table (function lookup must then be a dict literal, see R5)', construct='_FUNCTION_NAMES')
        return
    gf = proj.find_method(tc, 'get_function')
    handled_before = set()
    if gf is not None:
        for n in ast.walk(gf.node):
            if isinstance(n, ast.Compare) and isinstance(n.left, ast.Name) and len(n.ops) == 1 and isinstance(n.ops[0], ast.Eq) \
                    and isinstance(n.comparators[0], ast.Constant):
                handled_before.add(n.comparators[0].value)
    for name in fn_names:
        has = f'_fn_{name}' in tc.methods or name in handled_before
        lower = name == name.lower()
        ctx.check(has and lower and not name.startswith('_'), 'C03.R3', f'{EP}.TransactionContext', f'fn:{name}',
                  f'{name!r} -> _fn_{name} exists', f'function name {name!r}: ' + ('no _fn_ method' if not has else 'not a lower-case public name'))
    # no writes to the set
    for f in proj.all_funcs():
        for n in all_nodes(f.node):
            if isinstance(n, ast.Call) and isinstance(n.func, ast.Attribute) and n.func.attr in MUTATORS and (dotted(n.func.value) or '').endswith('_FUNCTION_NAMES'):
                ctx.fail('C03.R3', f, '_FUNCTION_NAMES:mutated', f'{src(n)[:70]!r} extends the closed function-name set at run time', n)


# --------------------------------------------------------------------------- R4
def r4_formatters(ctx: Ctx) -> None:
    proj = ctx.proj
    mi = proj.module(EP)
    bad = 0
    n_attr = 0
    for f in _ep_funcs(proj):
        fl = None
        for n in all_nodes(f.node):
            if isinstance(n, ast.Call) and isinstance(n.func, ast.Attribute) and n.func.attr in ('format', 'format_map'):
                recv = n.func.value
                if isinstance(recv, ast.Constant):
                    continue
                bad += 1
                ctx.fail('C03.R4', f, f'format:{src(recv)[:30]}', f'str.format on a non-literal receiver {src(n)[:70]!r}: format fields walk attributes of their arguments', n)
            if isinstance(n, ast.Attribute):
                n_attr += 1
                if n.attr.startswith('__') and n.attr.endswith('__'):
                    # accepted: type(x).__name__ ; super().__init__
                    v = n.value
                    ok = n.attr == '__name__' and isinstance(v, ast.Call) and isinstance(v.func, ast.Name) and v.func.id == 'type'
                    ok = ok or (n.attr == '__init__' and isinstance(v, ast.Call) and isinstance(v.func, ast.Name) and v.func.id == 'super')
                    if not ok:
                        bad += 1
                        ctx.fail('C03.R4', f, f'dunder:{n.attr}', f'dunder attribute read {src(n)[:60]!r} in the evaluator', n)
    # the modules that hand rule / view text to the evaluator must not use that text as a format template either
    # (a tag such as `x-{txn.__class__}` expanded with str.format walks attributes outside the whitelist)
    for short in ('merchant_engine', 'merchant_utils', 'section_engine'):
        mi2 = proj.module(short)
        for f in [x for x in proj.all_funcs() if x.module is mi2]:
            for n in own_nodes(f.node):
                if isinstance(n, ast.Call) and isinstance(n.func, ast.Attribute) and n.func.attr in ('format', 'format_map') and not isinstance(n.func.value, (ast.Constant, ast.JoinedStr)):
                    bad += 1
                    ctx.fail('C03.R4', f, f'format:{src(n.func.value)[:30]}', f'{src(n)[:70]!r}: text taken from a rules / views file is used as a str.format template; its fields '
                             f'(`{{txn.__class__}}`, `{{txn.__init__.__globals__[…]}}`) read arbitrary attributes of the objects passed in, outside the expression whitelist', n)
    if not bad:
        ctx.ok('C03.R4', EP, f'{n_attr} attribute reads: no str.format on computed receivers, no dunder reads besides type(x).__name__', construct='formatters')
    # string methods on user values: literal attribute calls chosen by literal comparisons
    for cname in EVALUATORS:
        ci = proj.cls(f'{EP}.{cname}')
        ec = ci.methods.get('_eval_Call')
        if ec is None:
            continue
        cfg = CFG.of_function(ec.node)
        n_methods = 0
        for n in all_nodes(ec.node):
            if isinstance(n, ast.Call) and isinstance(n.func, ast.Attribute) and isinstance(n.func.value, ast.Name) and n.func.value.id == 'obj':
                n_methods += 1
                lits = cfg.guard_literals(n)
                want = n.func.attr
                ok = any(truth and text.replace(' ', '') in (f"method_name=='{want}'", f'method_name=="{want}"') for text, truth in lits) \
                    and any(truth and text.replace(' ', '') == 'isinstance(obj,str)' for text, truth in lits)
                safe = want in {'lower', 'upper', 'strip', 'startswith', 'endswith', 'replace', 'lstrip', 'rstrip', 'title',
                                'split', 'find', 'count', 'isdigit', 'isalpha', 'casefold', 'capitalize', 'removeprefix', 'removesuffix'}
                ctx.check(ok and safe, 'C03.R4', ec, f'method:{want}', f'obj.{want}() under method_name == {want!r} and isinstance(obj, str)',
                          f'obj.{want}(...) is not selected by a literal comparison on a str receiver, or {want!r} is not a vetted string method', n)
        if cname == 'TransactionEvaluator' and n_methods == 0:
            ctx.ok('C03.R4', ec, 'no method calls on evaluated objects', construct='method:none')


# --------------------------------------------------------------------------- R5
def r5_closed_callee(ctx: Ctx) -> None:
    proj = ctx.proj
    for cname in CONTEXTS:
        ci = proj.cls(f'{EP}.{cname}')
        gf = ci.methods.get('get_function')
        if gf is None:
            ctx.unknown('C03.R5', f'{EP}.{cname}', 'context class without get_function')
        fl = get_flow(proj, gf)
        for r in [s for s in fl.cfg.stmts() if isinstance(s, ast.Return)]:
            v = r.value
            label = src(v) if v is not None else 'None'
            if v is None or (isinstance(v, ast.Constant) and v.value is None):
                ctx.ok('C03.R5', gf, 'returns None (unknown function)', r, 'return:None')
            elif isinstance(v, ast.Name) and v.id in BUILTINS and not fl.is_local(v.id):
                ctx.check(v.id in VETTED_BUILTIN_VALUES, 'C03.R5', gf, f'return:{v.id}', f'returns vetted builtin {v.id}',
                          f'get_function hands out builtin {v.id!r}, which is not in the vetted set {sorted(VETTED_BUILTIN_VALUES)}', r)
            elif isinstance(v, ast.Call) and isinstance(v.func, ast.Name) and v.func.id == 'getattr':
                kind, detail = _classify_reflective_arg(proj, gf, v)
                recv_ok = isinstance(v.args[0], ast.Name) and v.args[0].id == 'self'
                dflt_ok = len(v.args) < 3 or (isinstance(v.args[2], ast.Constant) and v.args[2].value is None)
                ctx.check(kind == 'guarded' and recv_ok and dflt_ok, 'C03.R5', gf, 'return:getattr',
                          'returns getattr(self, f"_fn_{name}") under name in _FUNCTION_NAMES',
                          f'{src(v)[:70]!r}: {detail or "receiver/default not closed"}', r)
            elif isinstance(v, ast.Call) and dotted(v.func) == 'self.functions.get':
                dflt_ok = len(v.args) < 2 or (isinstance(v.args[1], ast.Constant) and v.args[1].value is None)
                ctx.check(dflt_ok, 'C03.R5', gf, 'return:functions.get', 'returns self.functions.get(name)',
                          f'{src(v)[:70]!r}: fallback default {src(v.args[1]) if len(v.args) > 1 else ""!r} widens the table', r)
            elif isinstance(v, ast.Subscript) and dotted(v.value) == 'self.functions':
                ctx.ok('C03.R5', gf, 'returns self.functions[name]', r, 'return:functions[]')
            else:
                ctx.fail('C03.R5', gf, f'return:{label[:40]}', f'get_function returns {label[:70]!r}: not a lookup in the closed tables '
                                                               f'(a builtins / globals / getattr fallback would expose interpreter functions)', r)
        # the functions dict literal
        for m in ci.methods.values():
            for n in all_nodes(m.node):
                tgt = n.targets if isinstance(n, ast.Assign) else ([n.target] if isinstance(n, ast.AnnAssign) and n.value is not None else [])
                for t in tgt:
                    if isinstance(t, ast.Attribute) and dotted(t) == 'self.functions':
                        v = n.value
                        if m.name != '__init__' or not isinstance(v, ast.Dict):
                            ctx.fail('C03.R5', m, 'functions:assign', f'self.functions assigned outside a dict literal in __init__: {src(n)[:60]!r}', n)
                            continue
                        for k, val in zip(v.keys, v.values):
                            kk = k.value if isinstance(k, ast.Constant) else None
                            ok = (isinstance(val, ast.Attribute) and dotted(val) and dotted(val).startswith('self._fn_')
                                  and val.attr in ci.methods) or (isinstance(val, ast.Name) and val.id in VETTED_BUILTIN_VALUES)
                            ctx.check(ok and isinstance(kk, str) and kk == kk.lower(), 'C03.R5', m, f'functions[{kk}]',
                                      f'{kk!r} -> {src(val)}', f'function table entry {kk!r} -> {src(val)!r} is not a bound _fn_* method or a vetted builtin', val)
                    if isinstance(t, ast.Subscript) and dotted(t.value) in ('self.functions', 'ctx.functions', 'self.ctx.functions'):
                        ctx.fail('C03.R5', m, 'functions:store', f'function table extended at run time: {src(n)[:60]!r}', n)
    # evaluator call sites
    for cname in EVALUATORS:
        ci = proj.cls(f'{EP}.{cname}')
        for m in ci.methods.values():
            fl = get_flow(proj, m)
            for n in all_nodes(m.node):
                if not isinstance(n, ast.Call):
                    continue
                f = n.func
                if isinstance(f, ast.Name) and fl.is_local(f.id) and f.id not in m.module.functions:
                    defs = fl.cfg.defs_reaching(fl.stmt_of(n), f.id)
                    ok = bool(defs)
                    why = ''
                    for d in defs:
                        s = fl.cfg.stmt[d] if d != 'param' else None
                        good = s is not None and isinstance(s, ast.Assign) and isinstance(s.value, ast.Call) and \
                            dotted(s.value.func) in ('self.ctx.get_function', 'ctx.get_function')
                        if isinstance(s, (ast.FunctionDef,)):
                            good = True     # local helper (e.g. generator())
                        if not good and s is not None and isinstance(s, ast.Assign):
                            # a handler picked from a class-level table of the evaluator's own methods (closed: keys and methods are literals of the source)
                            from ._tables import method_table
                            good = method_table(s.value, m.module, m.cls) is not None
                        if not good:
                            ok = False
                            why = src(s)[:60] if s is not None else 'parameter'
                    ctx.check(ok, 'C03.R5', m, f'call:{f.id}', f'{f.id}(...) is the result of ctx.get_function',
                              f'local callee {f.id} may be {why!r}, not a get_function result', n)
                elif isinstance(f, ast.Call):
                    # getattr(self, method)(node) dispatch is R3's; anything else calls a computed value
                    ok = isinstance(f.func, ast.Name) and f.func.id == 'getattr' and isinstance(f.args[0], ast.Name) and f.args[0].id == 'self'
                    if not ok and isinstance(f.func, ast.Name) and f.func.id == 'getattr' and len(f.args) >= 2 and src(f.args[0]) in ('self.ctx', 'ctx'):
                        members = _closed_members(proj, get_flow(proj, m), f)
                        ctxc = proj.cls(f'{EP}.ExpressionContext' if cname == 'ExpressionEvaluator' else f'{EP}.TransactionContext')
                        ok = members is not None and all(x.startswith('get_') and x in ctxc.methods for x in members)
                    ctx.check(ok, 'C03.R5', m, f'call:{src(f)[:30]}', 'dispatch getattr(self, "_eval_…")(node)',
                              f'calls a computed callee {src(f)[:60]!r}', n)
                elif isinstance(f, (ast.Subscript, ast.IfExp, ast.BoolOp, ast.Lambda)):
                    ctx.fail('C03.R5', m, f'call:{src(f)[:30]}', f'calls a computed callee {src(f)[:60]!r}', n)
                elif isinstance(f, ast.Attribute):
                    # calling a method on an *evaluated* value other than the literal str methods (R4)
                    r = root_name(f.value)
                    if isinstance(f.value, ast.Call) and call_name(f.value) == 'evaluate':
                        ctx.fail('C03.R5', m, f'call:{f.attr}', f'method {f.attr!r} called directly on an evaluated value: {src(n)[:60]!r}', n)


# --------------------------------------------------------------------------- R6
VALUE_METHODS = ['_eval_Name', '_eval_Attribute', '_eval_Subscript', '_eval_Constant', '_eval_NamedExpr']


def r6_not_values(ctx: Ctx) -> None:
    proj = ctx.proj
    fn_like = set()
    for cname in CONTEXTS + EVALUATORS:
        ci = proj.cls(f'{EP}.{cname}')
        fn_like |= {m for m in ci.methods}
    for cname in EVALUATORS:
        ci = proj.cls(f'{EP}.{cname}')
        for mname in VALUE_METHODS:
            m = ci.methods.get(mname)
            if m is None:
                continue
            fl = get_flow(proj, m)
            rets = [s for s in fl.cfg.stmts() if isinstance(s, ast.Return) and s.value is not None]
            for r in rets:
                bad = _function_valued(proj, fl, r.value, r, fn_like)
                ctx.check(not bad, 'C03.R6', m, f'return:{src(r.value)[:40]}', f'returns data: {src(r.value)[:50]}',
                          f'return {src(r.value)[:60]!r} can yield {bad}: functions/methods/types must not become expression values', r)


def _closed_members(proj, fl: Flow, call: ast.Call):
    """members of the constant collection / table that closes the name argument of getattr(obj, NAME[, default]); None if it is not closed"""
    from ._tables import const_collection, table_of
    a = call.args[1]
    f = fl.fi
    if not isinstance(a, ast.Name):
        return None
    try:
        st = fl.stmt_of(call)
    except Exception:
        return None
    for atom, truth in fl.cfg.guard_atoms(st):
        if truth and isinstance(atom, ast.Compare) and len(atom.ops) == 1 and isinstance(atom.ops[0], ast.In) and isinstance(atom.left, ast.Name) and atom.left.id == a.id:
            members = const_collection(atom.comparators[0], f.module, f.cls)
            if members is not None and all(isinstance(x, str) for x in members):
                return list(members)
    ds = fl.cfg.defs_reaching(st, a.id)
    defs_ = [fl.cfg.stmt[d] for d in ds if d != 'param']
    if defs_ and len(defs_) == len(ds) and all(isinstance(s_, ast.Assign) for s_ in defs_):
        tabs = [table_of(s_.value, f.module, f.cls) for s_ in defs_]
        if all(t_ is not None for t_ in tabs):
            vals = [v for t_ in tabs for v in t_[0].values()]
            if all(isinstance(v, str) for v in vals):
                return vals
    return None


def _function_valued(proj, fl: Flow, e, at, fn_like) -> List[str]:
    bad = []
    seen_exprs = [e]
    # expand local names one level through reaching defs
    for n in list(ast.walk(e)):
        if isinstance(n, ast.Name) and fl.is_local(n.id) and n.id not in ('self',):
            for d in fl.cfg.defs_reaching(fl.stmt_of(at), n.id):
                if d == 'param':
                    continue
                s = fl.cfg.stmt[d]
                if isinstance(s, ast.Assign):
                    seen_exprs.append(s.value)
    for ex in seen_exprs:
        for n in ast.walk(ex):
            p = parent(n)
            is_callee = isinstance(p, ast.Call) and p.func is n
            if isinstance(n, ast.Attribute) and not is_callee:
                if n.attr in fn_like or n.attr == 'functions' or n.attr.startswith('_fn_'):
                    bad.append(f'bound method/table {src(n)}')
            if isinstance(n, ast.Name) and isinstance(n.ctx, ast.Load) and not is_callee and not fl.is_local(n.id):
                if n.id in BUILTINS and n.id not in ('True', 'False', 'None'):
                    bad.append(f'builtin {n.id}')
                r = proj.resolve_name(fl.fi.module, n.id)
                if r and r[0] in ('func', 'class', 'module'):
                    bad.append(f'{r[0]} {n.id}')
                if r and r[0] == 'ext':
                    bad.append(f'library object {n.id}')
            if isinstance(n, ast.Call) and isinstance(n.func, ast.Name) and n.func.id in ('getattr', 'type', 'vars', 'globals', 'locals', 'dir', 'id'):
                # getattr(self.ctx, '<data slot>', default) with a literal slot name is data
                if n.func.id == 'getattr' and len(n.args) >= 2 and isinstance(n.args[1], ast.Constant) and isinstance(n.args[1].value, str) \
                        and n.args[1].value not in fn_like and not n.args[1].value.startswith('_'):
                    continue
                if n.func.id == 'getattr' and len(n.args) >= 2:
                    members = _closed_members(proj, fl, n)
                    if members is not None:
                        p_ = parent(n)
                        called = isinstance(p_, ast.Call) and p_.func is n and not p_.args and not p_.keywords
                        if called and all(m_ in fn_like and m_.startswith('get_') for m_ in members):
                            continue        # a getter of the context chosen from a constant table and called at once: its result is data
                        if not called and all(m_ not in fn_like and not m_.startswith('_') for m_ in members):
                            continue        # a data slot of the context chosen from a constant collection
                bad.append(f'reflective call {src(n)[:40]}')
            if isinstance(n, ast.Lambda):
                bad.append('lambda')
            if isinstance(n, ast.Call) and call_name(n) == 'get_function':
                bad.append(f'function object from {src(n)[:40]}')
    return bad


# --------------------------------------------------------------------------- R7
def r7_whitelist(ctx: Ctx) -> None:
    proj = ctx.proj
    mi = proj.module(EP)
    node = mi.globals_assigned.get('ALLOWED_NODES')
    if not node or len(node) != 1 or not isinstance(node[0].value, ast.Set):
        ctx.unknown('C03.R7', EP, 'ALLOWED_NODES is not a single set literal')
    allowed = []
    for e in node[0].value.elts:
        d = dotted(e)
        if d is None or not d.startswith('ast.'):
            ctx.fail('C03.R7', EP, f'allowed:{src(e)}', f'whitelist entry {src(e)!r} is not an ast.<Node> class', e, file=mi.relpath)
            continue
        allowed.append(d[4:])
    # whitelist written to elsewhere?
    for f in proj.all_funcs():
        for n in all_nodes(f.node):
            if isinstance(n, ast.Call) and isinstance(n.func, ast.Attribute) and n.func.attr in MUTATORS and (dotted(n.func.value) or '').endswith('ALLOWED_NODES'):
                ctx.fail('C03.R7', f, 'allowed:mutated', f'whitelist mutated at run time: {src(n)[:60]!r}', n)
    evals = {}
    for cname in EVALUATORS:
        ci = proj.cls(f'{EP}.{cname}')
        for c in proj.mro(ci):
            for m in c.methods.values():
                if m.name.startswith('_eval_'):
                    evals.setdefault(m.name[6:], []).append(m)
    for t in allowed:
        has = t in evals
        if not hasattr(ast, t):
            ctx.fail('C03.R7', EP, f'allowed:{t}', f'ast.{t} does not exist', file=mi.relpath)
            continue
        if t in DENY_NODES and has:
            ctx.fail('C03.R7', evals[t][0], f'allowed:{t}', f'ast.{t} is whitelisted AND has an evaluator: a code-building / statement node can be evaluated', evals[t][0].node)
        elif t in DENY_NODES:
            ctx.ok('C03.R7', EP, f'ast.{t} whitelisted but inert (no evaluator: rejected at evaluation time)', construct=f'allowed:{t}')
        else:
            ctx.ok('C03.R7', EP, f'ast.{t}: {"evaluator " + evals[t][0].short if has else "operator/context node"}', construct=f'allowed:{t}')
    for t, ms in evals.items():
        if hasattr(ast, t):
            ctx.ok('C03.R7', ms[0], f'_eval_{t} names a real ast class', construct=f'evaluator:{t}')
        else:
            ctx.ok('C03.R7', ms[0], f'_eval_{t} is a helper: no ast class of that name exists, the dispatch cannot select it', construct=f'evaluator:{t}')
        # evaluator methods must not build closures over user code that escape (lambda / nested def returned uncalled)
        for m in ms:
            for n in all_nodes(m.node):
                if isinstance(n, ast.Lambda):
                    ctx.fail('C03.R7', m, f'closure:{t}', f'_eval_{t} builds a lambda: a function object becomes reachable from an expression', n)
                if isinstance(n, ast.Return) and isinstance(n.value, ast.Name):
                    qn = f'{m.qualname}.{n.value.id}'
                    if qn in proj.funcs:
                        ctx.fail('C03.R7', m, f'closure:{t}', f'_eval_{t} returns the nested function {n.value.id} itself', n)


# --------------------------------------------------------------------------- R8
FRESH_CALLS = {'set', 'list', 'dict', 'tuple', 'sorted', 'defaultdict', 'OrderedDict', 'copy', 'deepcopy', 'frozenset'}


def _fresh(fl: Flow, name: str, at, _depth: int = 0) -> bool:
    defs = fl.cfg.defs_reaching(fl.stmt_of(at), name) - ({fl.cfg.nid(at)} if isinstance(at, ast.AugAssign) else set())
    if not defs:
        return False
    for d in defs:
        if d == 'param':
            return False
        s = fl.cfg.stmt[d]
        v = None
        if isinstance(s, ast.Assign):
            v = s.value
        elif isinstance(s, ast.AnnAssign):
            v = s.value
        elif isinstance(s, ast.AugAssign) and isinstance(s.target, ast.Name) and s.target.id == name:
            # x |= {…} / x += […] on a local that was fresh before stays the function's own object
            if _depth < 4 and _fresh(fl, name, s, _depth + 1):
                continue
            return False
        if v is None:
            return False
        if isinstance(v, (ast.List, ast.Dict, ast.Set, ast.ListComp, ast.SetComp, ast.DictComp, ast.Tuple, ast.Constant)):
            continue
        if isinstance(v, ast.Call) and call_name(v) in FRESH_CALLS:
            continue
        return False
    return True


def r8_mutation(ctx: Ctx) -> None:
    proj = ctx.proj
    cg = get_cg(proj)
    module_caches = {'_expression_cache', '_regex_cache'}
    n = 0
    for f in _ep_funcs(proj):
        fl = None
        for node in all_nodes(f.node):
            target = None
            what = ''
            if isinstance(node, (ast.Assign, ast.AugAssign, ast.AnnAssign, ast.Delete)):
                tg = node.targets if isinstance(node, (ast.Assign, ast.Delete)) else [node.target]
                for t in tg:
                    if isinstance(t, (ast.Attribute, ast.Subscript)):
                        target, what = t, f'store {src(t)[:40]}'
                        n += 1
                        fl = fl or get_flow(proj, f)
                        _judge_mutation(ctx, cg, f, fl, t, node, what, module_caches)
            elif isinstance(node, ast.Call) and isinstance(node.func, ast.Attribute) and node.func.attr in MUTATORS:
                n += 1
                fl = fl or get_flow(proj, f)
                _judge_mutation(ctx, cg, f, fl, node.func.value, node, f'{node.func.attr}() on {src(node.func.value)[:40]}', module_caches)
    ctx.count('mutation_sites', n)


def _judge_mutation(ctx, cg, f: FuncInfo, fl: Flow, recv, node, what, module_caches) -> None:
    root = root_name(recv)
    label = f'{what}'
    if root is None:
        # e.g. groups.setdefault(k, []).append(x) – root through call chain
        ctx.unknown('C03.R8', f, f'mutation with an unrooted receiver: {src(node)[:60]}', node)
    if root == 'self':
        d = dotted(recv) or ''
        chain = src(recv)
        # self.<attr> = … : defining own attributes
        if isinstance(recv, ast.Attribute) and isinstance(recv.value, ast.Name):
            ok = f.name in ('__init__', '__post_init__') or recv.attr in ('_scope',)
            ctx.check(ok, 'C03.R8', f, label, f'{chain}: own attribute initialised in {f.name}',
                      f'{what}: evaluator/context attribute rewritten outside __init__ (shared state across evaluations)', node)
            return
        # self._scope[...] / self._scope.pop(...)
        if chain.startswith('self._scope'):
            ctx.ok('C03.R8', f, f'{what}: per-evaluation scope', node, label)
            return
        ctx.fail('C03.R8', f, label, f'{what}: mutates state reachable from the context (self.ctx.* holds the caller\'s transaction, rows and variables)', node)
        return
    if root in module_caches and not fl.is_local(root):
        ctx.ok('C03.R8', f, f'{what}: module memo cache', node, label)
        return
    if not fl.is_local(root):
        ctx.fail('C03.R8', f, label, f'{what}: mutates module-level object {root}', node)
        return
    if root in f.params:
        # accepted when every in-package caller passes a fresh container (or its own parameter: recursion)
        ok = True
        callers = cg.callers(f)
        from ..flow import arg_of
        why = 'no in-package caller found'
        if not callers:
            ok = False
        for caller, call in callers:
            a = arg_of(call, f, root)
            if a is None:
                continue
            if isinstance(a, ast.Name):
                if caller is f and a.id == root:
                    continue
                fl2 = get_flow(ctx.proj, caller)
                if _fresh(fl2, a.id, call):
                    continue
            ok = False
            why = f'caller {caller.short} passes {src(a)[:40]!r}'
        ctx.check(ok, 'C03.R8', f, label, f'{what}: parameter is a fresh accumulator at every call site',
                  f'{what}: mutates the caller\'s object ({why})', node)
        return
    if _fresh(fl, root, node):
        ctx.ok('C03.R8', f, f'{what}: local fresh container', node, label)
        return
    # loop items of fresh containers etc.
    leaves = {l for l, _ in fl.leaf_paths(recv, node)}
    tainted = [l for l in leaves if l.startswith(('param:', 'outer:')) and l not in ('param:self',)]
    ctx.check(not tainted, 'C03.R8', f, label, f'{what}: receiver derives from {sorted(leaves)[:3]}',
              f'{what}: receiver derives from caller data {tainted[:3]}', node)


# --------------------------------------------------------------------------- R9
def r9_generators(ctx: Ctx) -> None:
    proj = ctx.proj
    te = proj.cls(f'{EP}.TransactionEvaluator')
    producers = []
    for m in te.methods.values():
        if not m.name.startswith('_eval_'):
            continue
        for r in [n for n in own_nodes(m.node) if isinstance(n, ast.Return) and n.value is not None]:
            v = r.value
            if isinstance(v, ast.GeneratorExp):
                producers.append((m, r, 'generator expression'))
            if isinstance(v, ast.Call) and isinstance(v.func, ast.Name):
                qn = f'{m.qualname}.{v.func.id}'
                sub = proj.funcs.get(qn)
                if sub is not None and any(isinstance(x, (ast.Yield, ast.YieldFrom)) for x in ast.walk(sub.node)):
                    producers.append((m, r, f'call of nested generator function {v.func.id}()'))
            if isinstance(v, ast.Call) and isinstance(v.func, ast.Attribute) and isinstance(v.func.value, ast.Name) and v.func.value.id == 'self':
                sub = te.methods.get(v.func.attr)
                if sub is not None and any(isinstance(x, (ast.Yield, ast.YieldFrom)) for x in own_nodes(sub.node)):
                    producers.append((m, r, f'generator method {v.func.attr}()'))
    if not producers:
        ctx.ok('C03.R9', f'{EP}.TransactionEvaluator', 'no _eval_* method returns a live generator object', construct='generator-escapes')
        return
    # does a public entry point materialise / reject generators?
    guarded_entry = True
    entry_names = ['evaluate_transaction', 'evaluate_transaction_ast']
    for en in entry_names:
        fe = proj.func(f'{EP}.{en}')
        text = ' '.join(src(n) for n in all_nodes(fe.node) if isinstance(n, ast.Call))
        helper_ok = False
        for n in all_nodes(fe.node):
            if isinstance(n, ast.Call) and isinstance(n.func, ast.Name) and n.func.id in fe.module.functions:
                h = fe.module.functions[n.func.id]
                if any(isinstance(x, ast.Call) and call_name(x) in ('isinstance', 'isgenerator') and 'Generator' in src(x) for x in ast.walk(h.node)):
                    helper_ok = True
        if not ('GeneratorType' in text or 'isgenerator' in text or helper_ok):
            guarded_entry = False
    # stringification sinks on evaluation results in the consumers
    sinks = []
    for qn in ('merchant_engine.MerchantEngine._resolve_tags', 'merchant_utils._resolve_dynamic_tags', 'merchant_utils.apply_transforms'):
        f = proj.maybe_func(qn)
        if f is None:
            continue
        fl = get_flow(proj, f)
        for c in fl.calls('str'):
            if not c.args:
                continue
            a = fl.atoms(c.args[0], c)
            if a & {'call:evaluate_transaction', 'call:evaluate', 'call:evaluate_transaction_ast'}:
                lits = fl.cfg.guard_literals(c)
                guarded = any('isinstance' in t and ('str' in t or 'Generator' in t) and 'list' not in t for t, truth in lits)
                if not guarded:
                    sinks.append((f, c))
    m, r, how = producers[0]
    if guarded_entry or not sinks:
        ctx.ok('C03.R9', m, f'{m.name} returns a {how}, but ' + ('entry points materialise generators' if guarded_entry else 'no unguarded str() sink remains'),
               r, 'generator-escapes')
    else:
        sink_txt = ', '.join(f'{f.short}:{c.lineno}' for f, c in sinks)
        ctx.fail('C03.R9', m, 'generator-escapes',
                 f'{m.name} returns a live generator ({how}); evaluation results are stringified without a type guard at {sink_txt}: '
                 f'"<generator object … at 0x…>" (an interpreter internal with a memory address) becomes a tag / field value', r)
