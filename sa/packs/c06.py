"""C06 — totals conserve money: each transaction counted once, in exactly one bucket."""
from __future__ import annotations

import ast

from .. import norm
from ..cfg import CFG, CONT, ENTRY, BREAK, EXIT, RAISE
from ..core import Ctx
from ..flow import Flow, call_name
from ..project import src, dotted

LEVEL = 'other'

P0, P1 = ('param', 0), ('param', 1)
LOWER = ('map', 'set', 'lower', P1)


def _has(tag):
    return ('has', LOWER, ('const', tag))


POS = ('cmp', '>', P0, ('const', 0))
ABS = ('abs', P0)
KEYS = ['income', 'investment', 'transferin', 'transferout', 'spending', 'credits']

# The decision table written from the property statement (precedence income > investment > transfer > sign).
SPEC = [
    ([(_has('income'), True)], 'income', ABS),
    ([(_has('income'), False), (_has('investment'), True)], 'investment', ABS),
    ([(_has('income'), False), (_has('investment'), False), (_has('transfer'), True), (POS, True)], 'transferin', P0),
    ([(_has('income'), False), (_has('investment'), False), (_has('transfer'), True), (POS, False)], 'transferout', ABS),
    ([(_has('income'), False), (_has('investment'), False), (_has('transfer'), False), (POS, True)], 'spending', P0),
    ([(_has('income'), False), (_has('investment'), False), (_has('transfer'), False), (POS, False)], 'credits', ABS),
]


def _equiv_value(slot, t, conds):
    """Value equal to |a| under the path's guards: abs(a); a when a>0 holds."""
    if t == ABS:
        return True
    if t == P0 and (POS, True) in conds:
        return True
    if t == ('neg', P0) and (POS, False) in conds:
        return True
    return False


def _nnf(conds):
    """push negations inwards (De Morgan) so that `not a and not b` being false reads as `a or b` being true"""
    out = []

    def neg(t):
        if isinstance(t, tuple) and t and t[0] == 'not':
            return t[1]
        if isinstance(t, tuple) and t and t[0] == 'and':
            return ('or',) + tuple(neg(x) for x in t[1:])
        if isinstance(t, tuple) and t and t[0] == 'or':
            return ('and',) + tuple(neg(x) for x in t[1:])
        return ('not', t)

    def pos(t, v):
        if not v:
            t, v = neg(t), True
        # now t is asserted true
        if isinstance(t, tuple) and t and t[0] == 'not':
            inner = t[1]
            if isinstance(inner, tuple) and inner and inner[0] in ('and', 'or', 'not'):
                pos(neg(inner), True)
            else:
                out.append((inner, False))
        elif isinstance(t, tuple) and t and t[0] == 'and':
            for x in t[1:]:
                pos(x, True)
        else:
            out.append((t, True))
    for c, v in conds:
        pos(c, v)
    return out


def check(ctx: Ctx) -> None:
    proj = ctx.proj
    ctx.rule('C06.R1', 'categorize_amount: every path assigns exactly one key of the zero-initialised result; the leaves cover all six keys', floor=6)
    ctx.rule('C06.R2', 'categorize_amount / normalize_amount / calculate_cash_flow / calculate_transfers_net equal the decision tables written from the property', floor=9)
    ctx.rule('C06.R3', 'in analyze_transactions every accumulator is updated exactly once on every path through the transaction-loop body', floor=10)
    ctx.rule('C06.R4', 'same quantity, right slot: grouped totals add effective_amount; flow totals add the like-named bucket; returned keys map to like-named accumulators; cash_flow/transfers_net argument order', floor=12)
    ctx.rule('C06.R5', 'accumulators are order/partition independent: commutative updates of per-transaction values only', floor=8)

    # ---------------- R1 / R2 on categorize_amount
    fi = proj.func('classification.categorize_amount')
    # known-wrong shape: the bucket is chosen by walking the tag *list* and stopping at the first special tag
    # (the result then depends on the order in which the tags are listed, not on precedence)
    tags_p = fi.params[1] if len(fi.params) > 1 else 'tags'
    first_hit = []
    # the same shape one call away: a helper of the module that receives the tags and returns the *first* tag it finds (a value taken from
    # the loop variable, not a constant such as True: an any()-style helper is order independent)
    for c in [x for x in ast.walk(fi.node) if isinstance(x, ast.Call) and isinstance(x.func, ast.Name)]:
        pos = [i for i, a in enumerate(c.args) if isinstance(a, ast.Name) and a.id == tags_p]
        h = next((g for g in proj.all_funcs() if g.module is fi.module and g.name == c.func.id and g is not fi), None)
        if h is None or not pos or pos[0] >= len(h.params):
            continue
        hp = h.params[pos[0]]
        for n in ast.walk(h.node):
            if isinstance(n, ast.For) and any(isinstance(x, ast.Name) and x.id == hp for x in ast.walk(n.iter)):
                loopvars = {x.id for x in ast.walk(n.target) if isinstance(x, ast.Name)}
                derived = set(loopvars)
                for a_ in ast.walk(n):
                    if isinstance(a_, ast.Assign) and any(isinstance(x, ast.Name) and x.id in derived for x in ast.walk(a_.value)):
                        derived |= {t.id for t in a_.targets if isinstance(t, ast.Name)}
                if any(isinstance(r, ast.Return) and r.value is not None and any(isinstance(x, ast.Name) and x.id in derived for x in ast.walk(r.value))
                       for r in ast.walk(n)):
                    first_hit.append(n)
    for n in ast.walk(fi.node):
        if isinstance(n, ast.Call) and isinstance(n.func, ast.Name) and n.func.id == 'next' and n.args and isinstance(n.args[0], ast.GeneratorExp) \
                and any(isinstance(x, ast.Name) and x.id == tags_p for g in n.args[0].generators for x in ast.walk(g.iter)):
            first_hit.append(n)
        if isinstance(n, ast.For) and any(isinstance(x, ast.Name) and x.id == tags_p for x in ast.walk(n.iter)) \
                and any(isinstance(x, (ast.Break, ast.Return)) for x in ast.walk(n)):
            first_hit.append(n)
    if first_hit:
        ctx.fail('C06.R2', fi, 'order-dependent', f'`{src(first_hit[0])[:70]}` picks the first special tag in *list order*: a payment tagged [transfer, income] and one tagged [income, transfer] land in '
                                                   f'different buckets, although the bucket must depend only on which tags are present (precedence income > investment > transfer)', first_hit[0])
        _analyze(ctx)
        return
    paths = norm.py_paths(proj, fi)
    ctx.count('paths', len(paths))
    seen_slots = set()
    table = {}
    for p in paths:
        ret = p.ret
        if not (isinstance(ret, tuple) and ret[0] == 'dict'):
            ctx.unknown('C06.R1', fi, 'categorize_amount does not return a dict literal value')
        d = ret[1]
        if set(d) != set(KEYS):
            ctx.fail('C06.R1', fi, 'keys', f'result keys {sorted(d)} differ from the six buckets {KEYS}')
            continue
        nz = [k for k, v in d.items() if v != ('const', 0)]
        guard = ' & '.join(f'{norm.show(c)}={v}' for c, v in p.conds)
        if len(nz) == 1:
            ctx.ok('C06.R1', fi, f'path [{guard}] assigns exactly one bucket: {nz[0]}', construct=f'path:{nz[0]}')
            seen_slots.add(nz[0])
            table[tuple(p.conds)] = (nz[0], d[nz[0]])
        else:
            ctx.fail('C06.R1', fi, f'path:{"+".join(nz) or "none"}', f'path [{guard}] assigns {len(nz)} buckets: {nz}')
    ctx.check(seen_slots == set(KEYS), 'C06.R1', fi, 'coverage', 'the leaves cover all six buckets',
              f'buckets never assigned: {sorted(set(KEYS) - seen_slots)}')

    for conds, slot, val in SPEC:
        got = table.get(tuple(conds))
        name = f'spec:{slot}'
        if got is None:
            # maybe the implementation orders/structures guards differently: look for a path with the same literal set
            alt = [(k, v) for k, v in table.items() if set(k) == set(conds)]
            got = alt[0][1] if alt else None
        if got is None:
            ctx.fail('C06.R2', fi, name, f'no path with guards {[(norm.show(c), v) for c, v in conds]} (precedence income > investment > transfer > sign)')
        elif got[0] != slot:
            ctx.fail('C06.R2', fi, name, f'guards {[(norm.show(c), v) for c, v in conds]} lead to bucket {got[0]!r}, specified {slot!r}')
        elif not (got[1] == val or _equiv_value(slot, got[1], conds)):
            ctx.fail('C06.R2', fi, name, f'bucket {slot} receives {norm.show(got[1])}, specified |amount|')
        else:
            ctx.ok('C06.R2', fi, f'{slot} <- {norm.show(got[1])} under the specified guards', construct=name)

    # normalize_amount
    fn = proj.func('classification.normalize_amount')
    np_ = norm.py_paths(proj, fn)
    inc, inv = _has('income'), _has('investment')
    ok = True
    why = ''
    for p in np_:
        lits = dict()
        flat = []
        for c, v in _nnf(p.conds):
            if isinstance(c, tuple) and c[0] == 'or' and v is False:
                flat += [(x, False) for x in c[1:]]
            elif isinstance(c, tuple) and c[0] == 'or' and v is True:
                flat.append((c, True))
            else:
                flat.append((c, v))
        is_special = any((c == ('or', inc, inv) and v) or (c in (inc, inv) and v) for c, v in flat)
        both_false = (inc, False) in flat and (inv, False) in flat
        if is_special and p.ret != ABS:
            ok, why = False, f'income/investment path returns {norm.show(p.ret)}'
        elif both_false and p.ret != P0:
            ok, why = False, f'ordinary path returns {norm.show(p.ret)}'
        elif not is_special and not both_false:
            ok, why = False, f'unexpected guard set {[(norm.show(c), v) for c, v in p.conds]}'
    ctx.check(ok and len(np_) >= 2, 'C06.R2', fn, 'spec:normalize_amount',
              'income or investment -> |amount|; otherwise amount', why or f'{len(np_)} path(s)')

    for fname, spec, text in [
        ('classification.calculate_cash_flow', ('bin', '+', ('bin', '-', ('param', 0), ('param', 1)), ('param', 2)), 'income - spending + credits'),
        ('classification.calculate_transfers_net', ('bin', '-', ('param', 0), ('param', 1)), 'in - out'),
    ]:
        f2 = proj.func(fname)
        pp = norm.py_paths(proj, f2)
        got = pp[0].ret if len(pp) == 1 else None
        ctx.check(got is not None and _arith_equal(got, spec), 'C06.R2', f2, f'spec:{f2.name}', f'returns {text}',
                  f'returns {norm.show(got) if got else "several paths"}, specified {text}')
        # parameter names carry the meaning the callers rely on
        want = {'calculate_cash_flow': ['income', 'spending', 'credits'], 'calculate_transfers_net': ['transfers_in', 'transfers_out']}[f2.name]
        ctx.check(f2.params == want, 'C06.R2', f2, f'params:{f2.name}', f'parameters {want}', f'parameters {f2.params} (expected {want})')

    # tag tests are on the lower-cased tag set
    g = proj.func('classification.get_tags_lower')
    gp = norm.py_paths(proj, g)
    ctx.check(len(gp) == 1 and gp[0].ret == ('map', 'set', 'lower', ('param', 0)), 'C06.R2', g, 'spec:get_tags_lower',
              'tag set is {t.lower() for t in tags or []}', f'returns {norm.show(gp[0].ret) if gp else "?"}')

    _analyze(ctx)


def _lin(t, sign=1, acc=None):
    """Linear form {term: coeff} of +/- expressions."""
    acc = {} if acc is None else acc
    if isinstance(t, tuple) and t and t[0] == 'bin' and t[1] in '+-':
        _lin(t[2], sign, acc)
        _lin(t[3], sign if t[1] == '+' else -sign, acc)
    elif isinstance(t, tuple) and t and t[0] == 'neg':
        _lin(t[1], -sign, acc)
    else:
        acc[t] = acc.get(t, 0) + sign
    return acc


def _arith_equal(a, b) -> bool:
    return {k: v for k, v in _lin(a).items() if v} == {k: v for k, v in _lin(b).items() if v}


FLOW_TOTALS = {'income_total': 'income', 'investment_total': 'investment', 'spending_total': 'spending',
               'credits_total': 'credits', 'transfers_in': 'transfer_in', 'transfers_out': 'transfer_out'}


def _analyze(ctx: Ctx) -> None:
    proj = ctx.proj
    fi = proj.func('analyzer.analyze_transactions')
    fl = Flow(proj, fi)
    param = fi.params[0]
    loops = [s for s in fi.node.body if isinstance(s, ast.For) and isinstance(s.iter, ast.Name) and s.iter.id == param]
    if len(loops) != 1:
        ctx.unknown('C06.R3', fi, f'expected exactly one top-level loop over the {param!r} parameter, found {len(loops)}')
    loop = loops[0]
    txn = loop.target.id if isinstance(loop.target, ast.Name) else None
    if txn is None:
        ctx.unknown('C06.R3', fi, 'loop target is not a simple name')
    body = CFG(loop.body, loop_body=True, opaque_loops=True)
    paths = body.paths(ENTRY, (CONT, BREAK, EXIT, RAISE))
    ctx.count('paths', len(paths))
    if len(paths) >= 20000:
        ctx.unknown('C06.R3', fi, 'too many paths through the loop body')

    # accumulators: augmented assignments in the loop body whose target outlives the iteration
    updates = {}     # accumulator key -> [stmt]
    for s in body.stmts():
        if isinstance(s, ast.AugAssign):
            updates.setdefault(_acc_key(s.target, txn), []).append(s)
    required = list(FLOW_TOTALS) + ['by_category[]/count', 'by_category[]/total', 'by_merchant[]/count', 'by_merchant[]/total',
                                    'by_month[]']
    bound = {n.id for n in ast.walk(fi.node) if isinstance(n, ast.Name) and isinstance(n.ctx, ast.Store)}
    for acc in required:
        if acc not in updates:
            root = acc.split('[')[0]
            if root not in bound:
                # the accumulator this rule was confirmed on does not exist any more (totals kept in a dict, a dataclass …): not a verdict
                ctx.unknown('C06.R3', fi, f'accumulator {root!r} is not a variable of analyze_transactions any more')
            ctx.fail('C06.R3', fi, f'acc:{acc}', f'accumulator {acc} is never updated in the transaction loop')
    for acc, stmts in sorted(updates.items()):
        ids = {body.nid(s) for s in stmts}
        counts = set()
        bad_path = None
        for p in paths:
            if p[-1] == RAISE:
                continue
            c = sum(1 for n in p if n in ids)
            counts.add(c)
            if c != 1 and bad_path is None:
                bad_path = p
        if counts == {1}:
            ctx.ok('C06.R3', fi, f'{acc} updated exactly once on each of {len(paths)} path(s) of the loop body', stmts[0], f'acc:{acc}')
        else:
            trail = [f'L{body.stmt[n].lineno}' for n in (bad_path or []) if isinstance(n, int)]
            ctx.fail('C06.R3', fi, f'acc:{acc}', f'{acc} updated {sorted(counts)} times depending on the path '
                                                 f'(a transaction can be skipped or double counted); e.g. path {" > ".join(trail[-8:])}', stmts[0])

    # R4 / R5 -------------------------------------------------------------
    eff_defs = [s for s in body.stmts() if isinstance(s, ast.Assign) and any(isinstance(t, ast.Name) and t.id == 'effective_amount' for t in s.targets)]
    # effective amount: normalize_amount(txn['amount'], tags-of-txn)
    for acc, stmts in sorted(updates.items()):
        for s in stmts:
            a = fl.atoms(s.value, s)
            if acc in FLOW_TOTALS:
                want = FLOW_TOTALS[acc]
                ok = (f'key:cat:{want}' in a or any(x.startswith('key:') and x.endswith(':' + want) for x in a)) and 'call:categorize_amount' in a \
                     and f'key:{txn}:amount' in a
                ctx.check(ok and isinstance(s.op, ast.Add), 'C06.R4', fi, f'slot:{acc}',
                          f'{acc} += categorize_amount({txn}[amount], tags)[{want}]',
                          f'{acc} is updated with {src(s.value)!r} (atoms {sorted(x for x in a if x.startswith(("key:", "call:")))}); '
                          f'expected the {want!r} bucket of categorize_amount of this transaction', s)
            elif acc.endswith('/total') or acc == 'by_month[]' or acc == 'by_merchant[]/monthly_amounts[]':
                ok = 'call:normalize_amount' in a and f'key:{txn}:amount' in a and isinstance(s.op, ast.Add)
                ctx.check(ok, 'C06.R4', fi, f'slot:{acc}', f'{acc} += normalize_amount({txn}[amount], tags)',
                          f'{acc} is updated with {src(s.value)!r}, not with this transaction\'s effective amount', s)
            elif acc.endswith('/count'):
                ok = isinstance(s.value, ast.Constant) and s.value.value == 1 and isinstance(s.op, ast.Add)
                ctx.check(ok, 'C06.R4', fi, f'slot:{acc}', f'{acc} += 1', f'{acc} is updated with {src(s.value)!r}, expected += 1', s)
            # R5: the update reads no other accumulator
            reads_acc = [n.id for n in ast.walk(s.value) if isinstance(n, ast.Name) and (n.id in FLOW_TOTALS or n.id in ('by_category', 'by_merchant', 'by_month'))]
            ctx.check(isinstance(s.op, ast.Add) and not reads_acc, 'C06.R5', fi, f'commutative:{acc}',
                      f'{acc}: += of a per-transaction value', f'{acc}: update {src(s)!r} is not a commutative per-transaction addition '
                                                            f'(reads {reads_acc})', s)
    # the tags/amount handed to both classification calls are this transaction's
    for cname in ('normalize_amount', 'categorize_amount'):
        cs = [c for c in fl.calls(cname) if body.has(c)]
        if len(cs) != 1:
            ctx.fail('C06.R4', fi, f'call:{cname}', f'{len(cs)} calls of {cname} in the loop body (expected exactly one)')
            continue
        c = cs[0]
        a0 = fl.atoms(c.args[0], c) if c.args else set()
        a1 = fl.atoms(c.args[1], c) if len(c.args) > 1 else set()
        ok = f'key:{txn}:amount' in a0 and 'call:abs' not in a0 and not (a0 & {'op:+', 'op:-', 'op:*', 'op:/', 'op:neg', 'op:%', 'op:**'}) and f'key:{txn}:tags' in a1
        ctx.check(ok, 'C06.R4', fi, f'call:{cname}', f'{cname}({txn}[amount], {txn}[tags])',
                  f'{cname} receives {src(c.args[0]) if c.args else "?"}, {src(c.args[1]) if len(c.args) > 1 else "?"}: not the raw amount and tags of this transaction', c)

    # returned dict
    rets = [s for s in fi.node.body if isinstance(s, ast.Return)]
    if len(rets) != 1 or not isinstance(rets[0].value, ast.Dict):
        ctx.unknown('C06.R4', fi, 'analyze_transactions does not end in a single dict-literal return')
    rd = {k.value: v for k, v in zip(rets[0].value.keys, rets[0].value.values) if isinstance(k, ast.Constant)}
    for key in ['income_total', 'spending_total', 'credits_total', 'transfers_in', 'transfers_out', 'investment_total']:
        v = rd.get(key)
        ctx.check(isinstance(v, ast.Name) and v.id == key, 'C06.R4', fi, f'return:{key}', f'result[{key!r}] is the accumulator {key}',
                  f'result[{key!r}] is {src(v) if v is not None else "missing"}, not the accumulator {key}', v or rets[0])
    for key, callee, args in [('cash_flow', 'calculate_cash_flow', ['income_total', 'spending_total', 'credits_total']),
                              ('transfers_net', 'calculate_transfers_net', ['transfers_in', 'transfers_out'])]:
        v = rd.get(key)
        ok = isinstance(v, ast.Call) and call_name(v) == callee and [src(a) for a in v.args] == args and not v.keywords
        if isinstance(v, ast.Call) and call_name(v) == callee and v.keywords and not v.args:
            cal = ctx.proj.func(f'classification.{callee}')
            ok = {kw.arg: src(kw.value) for kw in v.keywords} == dict(zip(cal.params, args))
        ctx.check(ok, 'C06.R4', fi, f'return:{key}', f'result[{key!r}] = {callee}({", ".join(args)})',
                  f'result[{key!r}] is {src(v) if v is not None else "missing"}; expected {callee}({", ".join(args)})', v or rets[0])
    for key, want in [('by_category', 'by_category'), ('by_merchant', 'by_merchant'), ('by_month', 'by_month')]:
        v = rd.get(key)
        ctx.check(v is not None and want in {n.id for n in ast.walk(v) if isinstance(n, ast.Name)}, 'C06.R4', fi, f'return:{key}',
                  f'result[{key!r}] is built from {want}', f'result[{key!r}] is {src(v) if v is not None else "missing"}', v or rets[0])
    v = rd.get('count')
    ctx.check(v is not None and src(v) == f'len({param})', 'C06.R4', fi, 'return:count', 'count = len(transactions)',
              f'count is {src(v) if v is not None else "missing"}', v or rets[0])
    v = rd.get('total')
    ok = v is not None and isinstance(v, ast.Call) and call_name(v) == 'sum' and f"['amount']" in src(v) and param in src(v) and ' if ' not in src(v)
    ctx.check(ok, 'C06.R4', fi, 'return:total', 'total = sum of every transaction amount (no filter)',
              f'total is {src(v) if v is not None else "missing"}', v or rets[0])
    # month key
    mk = [s for s in body.stmts() if isinstance(s, ast.Assign) and any(isinstance(t, ast.Name) and t.id == 'month_key' for t in s.targets)]
    ok = len(mk) == 1 and "strftime('%Y-%m')" in src(mk[0].value) and f"{txn}['date']" in src(mk[0].value)
    ctx.check(ok, 'C06.R4', fi, 'month_key', "month bucket key is the transaction date's %Y-%m",
              f'month key is {src(mk[0].value) if mk else "missing"}', mk[0] if mk else loop)
    # group keys derive from this transaction
    for acc, stmts in sorted(updates.items()):
        for s in stmts:
            t = s.target
            keys = []
            while isinstance(t, ast.Subscript):
                keys.append(t.slice)
                t = t.value
            for k in keys:
                if isinstance(k, ast.Constant):
                    continue
                a = fl.atoms(k, s)
                ok = any(x.startswith(f'key:{txn}:') for x in a) and not any(x.startswith('key:') and not x.startswith(f'key:{txn}:') for x in a)
                ctx.check(ok, 'C06.R4', fi, f'groupkey:{acc}', f'{acc}: group key {src(k)} derives from this transaction only',
                          f'{acc}: group key {src(k)} has provenance {sorted(x for x in a if x.startswith(("key:", "param:", "global:")))}', s)


def _acc_key(target, txn) -> str:
    """Normalised accumulator name: by_merchant[txn['merchant']]['total'] -> by_merchant[]/total."""
    parts = []
    t = target
    while isinstance(t, ast.Subscript):
        if isinstance(t.slice, ast.Constant):
            parts.append(str(t.slice.value))
        else:
            parts.append('[]')
        t = t.value
    base = t.id if isinstance(t, ast.Name) else src(t)
    out = base
    for p in reversed(parts):
        out += '[]' if p == '[]' else '/' + p
    return out
