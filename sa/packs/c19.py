"""C19 — every rule that discover suggests matches the transaction it was suggested for."""
from __future__ import annotations

import ast
import re
from typing import List, Optional, Tuple

from ..callgraph import all_nodes
from ..core import Ctx
from ..flow import call_name, get_flow
from ..project import AnalysisError, FuncInfo, ancestors, dotted, parent, src
from .c14 import escapes_for_string_literal, fparts, holes_in_quotes

LEVEL = 'other'
LITERAL_MATCHERS = {'contains', 'startswith', 'anyof', 'normalized'}
REGEX_MATCHERS = {'regex'}


def _producer_language(f: FuncInfo) -> Tuple[str, List[str]]:
    """'regex' if the function escapes regex metacharacters / joins with regex syntax, else 'literal'."""
    ev = []
    for n in ast.walk(f.node):
        if isinstance(n, ast.Call) and dotted(n.func) == 're.escape':
            ev.append('re.escape')
        if isinstance(n, ast.Call) and dotted(n.func) == 're.sub' and len(n.args) >= 2 and isinstance(n.args[1], ast.Constant) and isinstance(n.args[1].value, str) \
                and n.args[1].value.startswith('\\\\') and '\\1' in n.args[1].value:
            ev.append(f're.sub(…, {n.args[1].value!r}) backslash-escapes metacharacters')
        if isinstance(n, ast.Call) and isinstance(n.func, ast.Attribute) and n.func.attr == 'join' and isinstance(n.func.value, ast.Constant) \
                and isinstance(n.func.value.value, str) and '\\' in n.func.value.value:
            ev.append(f'joins words with the regex fragment {n.func.value.value!r}')
    return ('regex' if ev else 'literal'), ev


def _matcher_of(js: ast.JoinedStr, hole) -> Optional[str]:
    """name of the function call whose quoted argument contains the hole: …name("{hole}")…"""
    text = ''
    for k, v in fparts(js):
        if k == 'hole' and v is hole:
            break
        text += v if k == 'const' else '\x00'
    m = re.search(r'([A-Za-z_]+)\(\s*"[^"]*$', text)
    return m.group(1) if m else None


def check(ctx: Ctx) -> None:
    proj = ctx.proj
    ctx.rule('C19.R1', 'language agreement: the pattern text produced by suggest_pattern is wrapped in a matcher of the same language (regex text -> regex(), literal text -> contains())', floor=2)
    ctx.rule('C19.R2', 'literal-context escaping: the pattern is escaped for the quoted string literal it is written into, at every consumer', floor=2)
    ctx.rule('C19.R4', 'suggest_pattern only cuts text off the ends of the description (end-anchored deletions, start-anchored prefixes), so what is left is one contiguous piece of it', floor=4)
    ctx.rule('C19.R5', 'the pattern shown for a description is computed from that very description (no reuse of another description\'s pattern)', floor=2)
    ctx.rule('C19.R3', 'the suggested block is accepted by the rules loader: [header], match:, category: are keys of the loader\'s property table', floor=3)
    sp = proj.func('commands.discover.suggest_pattern')
    lang, evidence = _producer_language(sp)
    consumers = []
    for qn in ('commands.discover.suggest_merchants_rule', 'commands.discover.cmd_discover'):
        f = proj.func(qn)
        fl = get_flow(proj, f)
        for js in [x for x in all_nodes(f.node) if isinstance(x, ast.JoinedStr)]:
            for hole, inside in holes_in_quotes(js):
                a = fl.atoms(hole, js)
                is_pattern = 'call:suggest_pattern' in a or 'param:pattern' in a or src(hole) in ('pattern', 'escaped_pattern')
                if not inside or not is_pattern:
                    continue
                m = _matcher_of(js, hole)
                if m is None:
                    continue
                consumers.append((f, fl, js, hole, m))
    ctx.need(len(consumers) >= 2, f'C19.R1: only {len(consumers)} consumers of the suggested pattern found')
    for f, fl, js, hole, m in consumers:
        kind = 'regex' if m in REGEX_MATCHERS else 'literal' if m in LITERAL_MATCHERS else 'unknown'
        label = f'consumer:{m}:{"json" if f.name == "suggest_merchants_rule" else "text"}'
        if kind == 'unknown':
            ctx.unknown('C19.R1', f, f'pattern wrapped in unknown matcher {m}', js)
        if kind == lang:
            ctx.ok('C19.R1', f, f'{lang} text wrapped in {m}("…")', js, label)
        else:
            ctx.fail('C19.R1', f, label,
                     f'suggest_pattern produces {lang} text ({"; ".join(evidence)}) but it is wrapped in {m}("…"), a {kind} matcher: for "WHOLE FOODS MARKET #123 SEATTLE WA" the suggestion '
                     f'is contains("WHOLE\\s*FOODS\\s*MARKET"), which looks for the characters backslash-s-star and matches no description with two words or one metacharacter — '
                     f'the suggested rule does not match the transaction it was suggested for', js)
        ok, why = escapes_for_string_literal(ctx.proj, f, fl, hole, js)
        ctx.check(ok, 'C19.R2', f, label, f'{src(hole)} is escaped for the quoted literal', f'{src(js)[:60]!r}: {why} (regex text contains backslashes; unescaped they are read as string escapes)', js)
    r4_contiguous(ctx, sp)
    r5_same_description(ctx)
    # R3: keys of the emitted block
    mp = proj.func('merchant_engine.MerchantEngine.parse')
    keys = {n.comparators[0].value for n in ast.walk(mp.node) if isinstance(n, ast.Compare) and src(n.left) == 'key' and isinstance(n.comparators[0], ast.Constant)}
    # keys dispatched through a constant table (`if key in TABLE: …`) count as well
    from ._tables import const_dict
    for n in ast.walk(mp.node):
        if isinstance(n, ast.Compare) and src(n.left) == 'key' and len(n.ops) == 1 and isinstance(n.ops[0], (ast.In, ast.NotIn)):
            c0 = n.comparators[0]
            if isinstance(c0, (ast.Tuple, ast.List, ast.Set)):
                keys |= {e.value for e in c0.elts if isinstance(e, ast.Constant)}
            elif isinstance(c0, ast.Name):
                d_ = const_dict(mp.module, c0.id)
                if d_ is not None:
                    keys |= set(d_)
    sr = proj.func('commands.discover.suggest_merchants_rule')
    text = ''
    for js in [x for x in all_nodes(sr.node) if isinstance(x, ast.JoinedStr)]:
        text += ''.join(v if k == 'const' else '{}' for k, v in fparts(js)) + '\n'
    # lines of the block written as plain literals (a list of lines joined with newlines, += of constants …)
    in_fstring = {id(c) for js in all_nodes(sr.node) if isinstance(js, ast.JoinedStr) for c in ast.walk(js)}
    doc = sr.node.body[0].value if sr.node.body and isinstance(sr.node.body[0], ast.Expr) and isinstance(sr.node.body[0].value, ast.Constant) else None
    for c in all_nodes(sr.node):
        if isinstance(c, ast.Constant) and isinstance(c.value, str) and id(c) not in in_fstring and c is not doc:
            text += c.value + '\n'
    lines = [l.strip() for l in text.splitlines() if l.strip()]
    header = any(l.startswith('[{}]') for l in lines)
    ctx.check(header, 'C19.R3', sr, 'block:header', 'the block starts with a [name] header', 'the suggested block has no [name] header')
    used = {l.split(':', 1)[0] for l in lines if ':' in l and not l.startswith('[')}
    for k in sorted(used):
        ctx.check(k in keys, 'C19.R3', sr, f'block:key:{k}', f'{k}: is a property the loader knows', f'the suggested block uses the property {k!r}, which the loader rejects (known: {sorted(keys)})')
    ctx.check({'match', 'category'} <= used, 'C19.R3', sr, 'block:required', 'the block carries match: and category:', f'the suggested block lacks match:/category: (has {sorted(used)})')
    # … and the loader reads each line of the block back as written (a merchant name or a pattern may contain '#', quotes, brackets)
    from .c17 import _line_loop, line_as_written
    mp_ = proj.func('merchant_engine.MerchantEngine.parse')
    line_as_written(ctx, 'C19.R3', mp_, _line_loop(ctx, mp_))
    # `key: value` is cut at the FIRST colon: the value (a pattern taken from a description such as `ACH DEBIT:ACME`) may contain colons of its own
    loop_ = _line_loop(ctx, mp_)
    cuts = [c for c in ast.walk(loop_) if isinstance(c, ast.Call) and isinstance(c.func, ast.Attribute) and c.func.attr in ('split', 'rsplit', 'partition', 'rpartition')
            and c.args and isinstance(c.args[0], ast.Constant) and c.args[0].value == ':']
    if not cuts:
        ctx.unknown('C19.R3', mp_, 'the key / value split of a property line (…split(\':\', 1)) was not found in MerchantEngine.parse')
    for c in cuts:
        first = (c.func.attr == 'split' and len(c.args) == 2 and isinstance(c.args[1], ast.Constant) and c.args[1].value == 1) or c.func.attr == 'partition'
        ctx.check(first, 'C19.R3', mp_, 'key-value-cut', 'a property line is cut at its first colon', f'{src(c)!r} does not cut at the first colon: a suggested `match: regex("ACH\\s*DEBIT:ACME")` is '
                  f'read as an unknown property and the whole rules file is rejected', c)
    # the suggestion is computed from the very description it is listed for
    cd = proj.func('commands.discover.cmd_discover')
    cfl = get_flow(proj, cd)
    # … and that is the statement text (raw_description), not the cleaned-up display name a rule could never match
    keys_ = []
    for n_ in ast.walk(cd.node):
        if isinstance(n_, ast.Subscript) and isinstance(n_.value, ast.Name) and n_.value.id == 'desc_stats' and isinstance(n_.slice, ast.Name):
            keys_.append(n_.slice)
        elif isinstance(n_, ast.Call) and isinstance(n_.func, ast.Attribute) and n_.func.attr == 'setdefault' and isinstance(n_.func.value, ast.Name) \
                and n_.func.value.id == 'desc_stats' and n_.args and isinstance(n_.args[0], ast.Name):
            keys_.append(n_.args[0])
    if not keys_:
        ctx.unknown('C19.R3', cd, 'the grouping of unknown transactions (desc_stats[<description>]) was not found in cmd_discover')
    kname = keys_[0].id
    kdefs = [s_ for s_ in cfl.cfg.stmts() if isinstance(s_, ast.Assign) and any(isinstance(t_, ast.Name) and t_.id == kname for t_ in s_.targets)]
    ok_ = bool(kdefs) and all(isinstance(s_.value, ast.Call) and isinstance(s_.value.func, ast.Attribute) and s_.value.func.attr == 'get' and s_.value.args
                              and isinstance(s_.value.args[0], ast.Constant) and s_.value.args[0].value == 'raw_description' for s_ in kdefs)
    ctx.check(ok_, 'C19.R3', cd, 'grouped-by-statement-text', 'unknown transactions are grouped (and patterns suggested) by their raw statement text',
              f'the grouping key is {[src(s_.value)[:50] for s_ in kdefs]}: suggestions are derived from the cleaned-up description, which a rule is never matched against', kdefs[0] if kdefs else cd.node)
    for c in cfl.calls('suggest_pattern'):
        lp = [a for a in ancestors(c) if isinstance(a, ast.For)]
        ok = bool(lp) and src(c.args[0]) == 'raw_desc' and 'raw_desc' in src(lp[0].target)
        ctx.check(ok, 'C19.R3', cd, f'source:{c.lineno - cd.lineno > 130 and "text" or "structured"}', 'the pattern is derived from the listed raw description', f'{src(c)!r} is not derived from the listed description', c)


def r4_contiguous(ctx: Ctx, sp: FuncInfo) -> None:
    import re._parser as sre_parse          # regex ASTs of the *literals in the source* (nothing of tally is executed)
    import re._constants as sre_c
    fl = get_flow(ctx.proj, sp)
    n = 0
    # the kept words are turned into regex text by backslash-escaping the metacharacters: the escaped class has to hold every character that means
    # something in a pattern, or `DISNEY+` is suggested as `DISNEY+` (one or more Y) and no longer matches its own description
    from ._tables import fold_str, module_value
    META = set('.*+?^$()[]{}|\\')
    escs = []
    for c in fl.calls('sub'):
        pat_ = repl_ = None
        if dotted(c.func) == 're.sub' and len(c.args) >= 3:
            pat_, repl_ = c.args[0], c.args[1]
        elif isinstance(c.func, ast.Attribute) and isinstance(c.func.value, ast.Name) and len(c.args) >= 2 and (cv_ := module_value(sp.module, c.func.value.id)) is not None \
                and isinstance(cv_, ast.Call) and dotted(cv_.func) == 're.compile' and cv_.args:
            pat_, repl_ = cv_.args[0], c.args[0]
        if pat_ is None or not (isinstance(repl_, ast.Constant) and isinstance(repl_.value, str) and repl_.value.startswith('\\\\') and '\\1' in repl_.value):
            continue
        text = fold_str(pat_, sp.module)
        if text is None:
            continue
        try:
            tree_ = sre_parse.parse(text)
        except Exception:
            continue
        lits = set()
        for op_, av_ in tree_:
            if op_ == sre_c.SUBPATTERN:
                for op2, av2 in av_[3]:
                    if op2 == sre_c.IN:
                        lits |= {chr(v_) for o_, v_ in av2 if o_ == sre_c.LITERAL}
            elif op_ == sre_c.IN:
                lits |= {chr(v_) for o_, v_ in av_ if o_ == sre_c.LITERAL}
        escs.append((c, lits))
    for c, lits in escs:
        missing = sorted(META - lits)
        ctx.check(not missing, 'C19.R4', sp, 'escape-class', 'every regex metacharacter of the kept words is escaped',
                  f'the escaping class lacks {missing}: a description containing one of them yields a pattern in which it is an operator, and the suggested rule does not match '
                  f'the description it was made for', c)
    from ._tables import fold_str, module_value
    mi = sp.module
    subs = []          # (call, pattern expression, replacement, subject)
    for c in fl.calls('sub'):
        # a loop over a module-level tuple of precompiled patterns: `for rx in PATTERNS: text = rx.sub('', text)` - one deletion per element
        if isinstance(c.func, ast.Attribute) and isinstance(c.func.value, ast.Name) and len(c.args) >= 2:
            lp_ = [a for a in ancestors(c) if isinstance(a, ast.For) and isinstance(a.target, ast.Name) and a.target.id == c.func.value.id and isinstance(a.iter, ast.Name)]
            tv = module_value(mi, lp_[0].iter.id) if lp_ else None
            if isinstance(tv, (ast.Tuple, ast.List)) and tv.elts and all(isinstance(e_, ast.Call) and dotted(e_.func) == 're.compile' and e_.args for e_ in tv.elts):
                subs += [(c, e_.args[0], c.args[0], c.args[1]) for e_ in tv.elts]
                continue
            # … the same written as  tuple(re.compile(p) for p in (<literals>))
            if isinstance(tv, ast.Call) and isinstance(tv.func, ast.Name) and tv.func.id in ('tuple', 'list') and len(tv.args) == 1 and isinstance(tv.args[0], (ast.GeneratorExp, ast.ListComp)):
                ge = tv.args[0]
                if isinstance(ge.elt, ast.Call) and dotted(ge.elt.func) == 're.compile' and len(ge.elt.args) == 1 and isinstance(ge.elt.args[0], ast.Name) and len(ge.generators) == 1 \
                        and isinstance(ge.generators[0].target, ast.Name) and ge.generators[0].target.id == ge.elt.args[0].id and not ge.generators[0].ifs \
                        and isinstance(ge.generators[0].iter, (ast.Tuple, ast.List)) and all(isinstance(x_, ast.Constant) and isinstance(x_.value, str) for x_ in ge.generators[0].iter.elts):
                    subs += [(c, x_, c.args[0], c.args[1]) for x_ in ge.generators[0].iter.elts]
                    continue
        subs.append((c, None, None, None))
    for c, pat_, repl_, subj_ in subs:
        if pat_ is not None:
            pat, repl, subj = pat_, repl_, subj_
        elif dotted(c.func) == 're.sub' and len(c.args) >= 3:
            pat, repl, subj = c.args[0], c.args[1], c.args[2]
        elif isinstance(c.func, ast.Attribute) and isinstance(c.func.value, ast.Name) and len(c.args) >= 2 and (cv := module_value(mi, c.func.value.id)) is not None \
                and isinstance(cv, ast.Call) and dotted(cv.func) == 're.compile' and cv.args:
            # a precompiled module-level pattern: PATTERN.sub(repl, text)
            pat, repl, subj = cv.args[0], c.args[0], c.args[1]
        else:
            continue
        if not (isinstance(repl, ast.Constant) and repl.value == ''):
            continue          # not a deletion (e.g. the metacharacter escaping)
        n += 1
        if not isinstance(pat, ast.Constant):
            # a pattern put together from constants (a table of prefixes joined with |) is as good as a literal
            folded = fold_str(pat, mi)
            if folded is None:
                ctx.fail('C19.R4', sp, f'delete:{src(pat)[:30]}', f'deletion with a computed pattern {src(pat)[:40]!r}', c)
                continue
            pat = ast.copy_location(ast.Constant(value=folded), pat)
        try:
            tree = sre_parse.parse(pat.value)
        except Exception as e:
            ctx.fail('C19.R4', sp, f'delete:{pat.value}', f'deletion pattern {pat.value!r} does not parse: {e}', c)
            continue
        items = list(tree)
        end = bool(items) and items[-1][0] == sre_c.AT and items[-1][1] in (sre_c.AT_END, sre_c.AT_END_STRING)
        start = bool(items) and items[0][0] == sre_c.AT and items[0][1] in (sre_c.AT_BEGINNING, sre_c.AT_BEGINNING_STRING)
        ctx.check(end or start, 'C19.R4', sp, f'delete:{pat.value}', f're.sub({pat.value!r}, "") cuts only at the {"end" if end else "start"}',
                  f're.sub({pat.value!r}, "") deletes text from the MIDDLE of the description: the remaining words are no longer adjacent in the original, so the suggested '
                  f'regex (words joined by \\s*) cannot match it — e.g. "WHOLE FOODS #123 MARKET" gives WHOLE\\s*FOODS\\s*MARKET', c)
    # prefixes: only removed when the text starts with them
    for lp in [x for x in ast.walk(sp.node) if isinstance(x, ast.For)]:
        for st in ast.walk(lp):
            if isinstance(st, ast.Assign) and isinstance(st.value, ast.Subscript) and isinstance(st.value.slice, ast.Slice) and st.value.slice.lower is not None:
                n += 1
                g = [a for a in ancestors(st) if isinstance(a, ast.If)]
                ok = bool(g) and 'startswith' in src(g[0].test) and st.value.slice.upper is None and src(st.value.slice.lower).startswith('len(')
                ctx.check(ok, 'C19.R4', sp, 'prefix-removal', 'a prefix is removed only when the text starts with it', f'{src(st)[:50]!r} is not a guarded prefix removal', st)
    # the pattern is built from the first words, in order
    j = [c for c in fl.calls('join') if isinstance(c.func, ast.Attribute) and isinstance(c.func.value, ast.Constant)]
    ok = bool(j) and all(isinstance(c.args[0], ast.Name) for c in j)
    w = [s_ for s_ in ast.walk(sp.node) if isinstance(s_, ast.Assign) and src(s_.targets[0]) == (src(j[0].args[0]) if j else '')]
    ok = ok and bool(w) and src(w[0].value).replace(' ', '').endswith('.split()[:3]')
    ctx.check(ok, 'C19.R4', sp, 'first-words', 'the pattern consists of the first words of what is left, in order', 'the pattern is not built from the leading words in order')
    # nothing but the kept words and the separator goes into the pattern: a regex assertion (\\b, ^, $, look-around) added around them demands
    # something of the neighbouring characters that the description need not satisfy (\\b fails next to punctuation: `7-ELEVEN (STORE 33)`)
    rets = [r for r in fl.cfg.stmts() if isinstance(r, ast.Return) and r.value is not None]
    asserts = []
    ret_names = {r.value.id for r in rets if isinstance(r.value, ast.Name)}
    glue = []          # string literals glued onto the result: operands of +, parts of f-strings, receivers of .join, % / .format templates
    for st in list(fl.cfg.stmts()):
        v = st.value if isinstance(st, (ast.Assign, ast.AugAssign, ast.Return)) else None
        if v is None:
            continue
        tgt_ok = isinstance(st, ast.Return) or any(isinstance(t, ast.Name) and t.id in ret_names for t in (st.targets if isinstance(st, ast.Assign) else [st.target]))
        if not tgt_ok:
            continue
        for n_ in ast.walk(v):
            if isinstance(n_, ast.BinOp) and isinstance(n_.op, (ast.Add, ast.Mod)):
                glue += [x.value for x in (n_.left, n_.right) if isinstance(x, ast.Constant) and isinstance(x.value, str)]
            elif isinstance(n_, ast.JoinedStr):
                glue += [x.value for x in n_.values if isinstance(x, ast.Constant) and isinstance(x.value, str)]
            elif isinstance(n_, ast.Call) and isinstance(n_.func, ast.Attribute) and n_.func.attr in ('join', 'format') and isinstance(n_.func.value, ast.Constant) and isinstance(n_.func.value.value, str):
                glue.append(n_.func.value.value)
        if isinstance(st, ast.AugAssign) and isinstance(v, ast.Constant) and isinstance(v.value, str):
            glue.append(v.value)
    for lit in glue:
        try:
            tree = sre_parse.parse(lit)
        except Exception:
            continue
        if any(op == sre_c.AT or op in (sre_c.ASSERT, sre_c.ASSERT_NOT) for op, _av in tree):
            asserts.append(lit)
    ctx.check(not asserts, 'C19.R4', sp, 'no-assertions', 'the pattern is the kept words joined by the separator, with no regex assertion added',
              f'the suggested pattern is wrapped in / joined with {sorted(set(asserts))}: a zero-width assertion constrains the characters next to the words, so the rule does not match '
              f'its own description when the kept text starts or ends with punctuation (`*PENDING* HULU`, `J.CREW FACTORY INC.`)')
    ctx.need(n >= 4, f'C19.R4: only {n} deletions found in suggest_pattern')


def r5_same_description(ctx: Ctx) -> None:
    proj = ctx.proj
    cd = proj.func('commands.discover.cmd_discover')
    fl = get_flow(proj, cd)
    n = 0
    for lp in [x for x in ast.walk(cd.node) if isinstance(x, ast.For) and 'sorted_descs' in src(x.iter)]:
        names = [e.id for e in ast.walk(lp.target) if isinstance(e, ast.Name)]
        # the description variable of this loop: the loop name whose value is the listed text (printed / stored as raw_description)
        raw = next((nm for nm in names if 'desc' in nm.lower()), names[-2] if len(names) >= 2 else (names[0] if names else None))
        if raw is None:
            continue
        for st in lp.body:
            for node in ast.walk(st):
                uses = []
                if isinstance(node, ast.Call) and call_name(node) == 'suggest_merchants_rule' and len(node.args) > 1:
                    uses.append(node.args[1])
                if isinstance(node, ast.JoinedStr):
                    for hole, inside in holes_in_quotes(node):
                        if _matcher_of(node, hole) is not None:
                            uses.append(hole)
                for u in uses:
                    if not fl.cfg.has(u):
                        continue
                    n += 1
                    paths = fl.leaf_paths(u, u)
                    bad = []
                    for leaf, ops in paths:
                        if leaf.startswith(('global:', 'const:')) and not any(o.startswith(('[', 'name:')) for o in ops[:-1] if o != ops[-1]) :
                            continue      # the callee name of a helper / a literal, not data
                        if leaf.startswith('global:'):
                            continue
                        if 'call:suggest_pattern' not in ops:
                            bad.append(f'{leaf} reaches the pattern without passing suggest_pattern')
                            continue
                        i = ops.index('call:suggest_pattern')
                        inner, outer = ops[:i], ops[i + 1:]
                        if any(o.startswith('[') or o in ('call:get', 'call:setdefault', 'call:pop', 'op:stored') for o in outer):
                            bad.append('the suggest_pattern result passes through a lookup table')
                        if leaf.startswith('loopvar:') and leaf != f'loopvar:{raw}' and f'name:{raw}' not in inner:
                            bad.append(f'computed from {leaf}, not from {raw}')
                    ctx.check(not bad, 'C19.R5', cd, f'pattern-source:{src(u)[:24]}@{"json" if "suggest_merchants_rule" in src(st) else "text"}', f'pattern for {raw} = suggest_pattern({raw})',
                              f'the pattern used for {raw} ({src(u)[:40]}): {bad[0] if bad else ""}: two descriptions that share a suggested merchant name get the same regex, which cannot match both', u)
    ctx.need(n >= 2, f'C19.R5: only {n} pattern uses found in cmd_discover')
