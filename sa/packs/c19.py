"""C19 — every rule that discover suggests matches the transaction it was suggested for."""
from __future__ import annotations

import ast
import re
from typing import List, Optional, Tuple

from ..callgraph import all_nodes
from ..core import Ctx
from ..flow import call_name, get_flow
from ..project import AnalysisError, FuncInfo, ancestors, dotted, parent, src
from .c14 import escapes_for_string_literal, fparts, holes_in_quotes

LEVEL = 'other'
LITERAL_MATCHERS = {'contains', 'startswith', 'anyof', 'normalized'}
REGEX_MATCHERS = {'regex'}


def _producer_language(f: FuncInfo) -> Tuple[str, List[str]]:
    """'regex' if the function escapes regex metacharacters / joins with regex syntax, else 'literal'."""
    ev = []
    for n in ast.walk(f.node):
        if isinstance(n, ast.Call) and dotted(n.func) == 're.escape':
            ev.append('re.escape')
        if isinstance(n, ast.Call) and dotted(n.func) == 're.sub' and len(n.args) >= 2 and isinstance(n.args[1], ast.Constant) and isinstance(n.args[1].value, str) \
                and n.args[1].value.startswith('\\\\') and '\\1' in n.args[1].value:
            ev.append(f're.sub(…, {n.args[1].value!r}) backslash-escapes metacharacters')
        if isinstance(n, ast.Call) and isinstance(n.func, ast.Attribute) and n.func.attr == 'join' and isinstance(n.func.value, ast.Constant) \
                and isinstance(n.func.value.value, str) and '\\' in n.func.value.value:
            ev.append(f'joins words with the regex fragment {n.func.value.value!r}')
    return ('regex' if ev else 'literal'), ev


def _matcher_of(js: ast.JoinedStr, hole) -> Optional[str]:
    """name of the function call whose quoted argument contains the hole: …name("{hole}")…"""
    text = ''
    for k, v in fparts(js):
        if k == 'hole' and v is hole:
            break
        text += v if k == 'const' else '\x00'
    m = re.search(r'([A-Za-z_]+)\(\s*"[^"]*$', text)
    return m.group(1) if m else None


def check(ctx: Ctx) -> None:
    proj = ctx.proj
    ctx.rule('C19.R1', 'language agreement: the pattern text produced by suggest_pattern is wrapped in a matcher of the same language (regex text -> regex(), literal text -> contains())', floor=2)
    ctx.rule('C19.R2', 'literal-context escaping: the pattern is escaped for the quoted string literal it is written into, at every consumer', floor=2)
    ctx.rule('C19.R3', 'the suggested block is accepted by the rules loader: [header], match:, category: are keys of the loader\'s property table', floor=3)
    sp = proj.func('commands.discover.suggest_pattern')
    lang, evidence = _producer_language(sp)
    consumers = []
    for qn in ('commands.discover.suggest_merchants_rule', 'commands.discover.cmd_discover'):
        f = proj.func(qn)
        fl = get_flow(proj, f)
        for js in [x for x in all_nodes(f.node) if isinstance(x, ast.JoinedStr)]:
            for hole, inside in holes_in_quotes(js):
                a = fl.atoms(hole, js)
                is_pattern = 'call:suggest_pattern' in a or 'param:pattern' in a or src(hole) in ('pattern', 'escaped_pattern')
                if not inside or not is_pattern:
                    continue
                m = _matcher_of(js, hole)
                if m is None:
                    continue
                consumers.append((f, fl, js, hole, m))
    ctx.need(len(consumers) >= 2, f'C19.R1: only {len(consumers)} consumers of the suggested pattern found')
    for f, fl, js, hole, m in consumers:
        kind = 'regex' if m in REGEX_MATCHERS else 'literal' if m in LITERAL_MATCHERS else 'unknown'
        label = f'consumer:{m}:{"json" if f.name == "suggest_merchants_rule" else "text"}'
        if kind == 'unknown':
            ctx.unknown('C19.R1', f, f'pattern wrapped in unknown matcher {m}', js)
        if kind == lang:
            ctx.ok('C19.R1', f, f'{lang} text wrapped in {m}("…")', js, label)
        else:
            ctx.fail('C19.R1', f, label,
                     f'suggest_pattern produces {lang} text ({"; ".join(evidence)}) but it is wrapped in {m}("…"), a {kind} matcher: for "WHOLE FOODS MARKET #123 SEATTLE WA" the suggestion '
                     f'is contains("WHOLE\\s*FOODS\\s*MARKET"), which looks for the characters backslash-s-star and matches no description with two words or one metacharacter — '
                     f'the suggested rule does not match the transaction it was suggested for', js)
        ok, why = escapes_for_string_literal(ctx.proj, f, fl, hole, js)
        ctx.check(ok, 'C19.R2', f, label, f'{src(hole)} is escaped for the quoted literal', f'{src(js)[:60]!r}: {why} (regex text contains backslashes; unescaped they are read as string escapes)', js)
    # R3: keys of the emitted block
    mp = proj.func('merchant_engine.MerchantEngine.parse')
    keys = {n.comparators[0].value for n in ast.walk(mp.node) if isinstance(n, ast.Compare) and src(n.left) == 'key' and isinstance(n.comparators[0], ast.Constant)}
    sr = proj.func('commands.discover.suggest_merchants_rule')
    text = ''
    for js in [x for x in all_nodes(sr.node) if isinstance(x, ast.JoinedStr)]:
        text += ''.join(v if k == 'const' else '{}' for k, v in fparts(js)) + '\n'
    lines = [l.strip() for l in text.splitlines() if l.strip()]
    header = any(l.startswith('[{}]') for l in lines)
    ctx.check(header, 'C19.R3', sr, 'block:header', 'the block starts with a [name] header', 'the suggested block has no [name] header')
    used = {l.split(':', 1)[0] for l in lines if ':' in l and not l.startswith('[')}
    for k in sorted(used):
        ctx.check(k in keys, 'C19.R3', sr, f'block:key:{k}', f'{k}: is a property the loader knows', f'the suggested block uses the property {k!r}, which the loader rejects (known: {sorted(keys)})')
    ctx.check({'match', 'category'} <= used, 'C19.R3', sr, 'block:required', 'the block carries match: and category:', f'the suggested block lacks match:/category: (has {sorted(used)})')
    # the suggestion is computed from the very description it is listed for
    cd = proj.func('commands.discover.cmd_discover')
    cfl = get_flow(proj, cd)
    for c in cfl.calls('suggest_pattern'):
        lp = [a for a in ancestors(c) if isinstance(a, ast.For)]
        ok = bool(lp) and src(c.args[0]) == 'raw_desc' and 'raw_desc' in src(lp[0].target)
        ctx.check(ok, 'C19.R3', cd, f'source:{c.lineno - cd.lineno > 130 and "text" or "structured"}', 'the pattern is derived from the listed raw description', f'{src(c)!r} is not derived from the listed description', c)
