"""C05 — every well-formed statement row becomes exactly one transaction, faithfully."""
from __future__ import annotations

import ast
from typing import List, Optional, Set

from ..callgraph import all_nodes
from ..core import Ctx
from ..flow import arg_of, call_name, get_flow
from ..project import AnalysisError, FuncInfo, ancestors, dotted, parent, src
from .c08 import get_escapes, handler_tail_ok

LEVEL = 'other'


def check(ctx: Ctx) -> None:
    proj = ctx.proj
    ctx.rule('C05.R1', 'finite non-zero guard: between the amount conversion and transactions.append every path passes a zero test and a finiteness test', floor=2)
    ctx.rule('C05.R2', 'per-row containment: the row body is one try inside the row loop whose handlers all continue and cover the escape set of the body', floor=3)
    ctx.rule('C05.R3', 'column provenance: date, amount, description, field, location, source of the emitted transaction derive from the configured columns of this row and nothing else', floor=8)
    ctx.rule('C05.R4', 'sign discipline: abs under abs_amount, negation under negate_amount (abs first), applied once', floor=3)
    ctx.rule('C05.R5', 'delimiter dispatch is total and every arm skips the header when configured', floor=4)
    ctx.rule('C05.R7', 'amount cells are normalised unconditionally within their decimal convention: thousands separators are always removed, parentheses mean negative, currency symbols dropped', floor=4)
    ctx.rule('C05.R8', 'rows are independent: no value computed for one row is read while processing a later row (no loop-carried state besides the result list)', floor=1)
    ctx.rule('C05.R6', 'transactions are appended inside the row loop, returned in file order; empty-cell skip precedes parsing', floor=4)
    f = proj.func('parsers.parse_generic_csv')
    fl = get_flow(proj, f)
    cfg = fl.cfg
    loops = [s for s in f.node.body if isinstance(s, ast.For)]
    if len(loops) != 1:
        ctx.unknown('C05.R2', f, f'{len(loops)} top-level loops in parse_generic_csv (one row loop expected)')
    loop = loops[0]
    row = loop.target.id if isinstance(loop.target, ast.Name) else None
    if row is None:
        ctx.unknown('C05.R2', f, 'row loop target is not a simple name')
    appends = [n for n in ast.walk(loop) if isinstance(n, ast.Call) and isinstance(n.func, ast.Attribute) and n.func.attr == 'append'
               and isinstance(n.func.value, ast.Name) and n.func.value.id == 'transactions']
    if len(appends) != 1:
        ctx.unknown('C05.R6', f, f'{len(appends)} transactions.append calls in the row loop')
    app = appends[0]
    app_stmt = fl.stmt_of(app)

    # ---------------- R7 / R8
    r7_amount(ctx)
    r8_row_independence(ctx, f, fl, loop, row)

    # ---------------- R1
    conv = [c for c in fl.calls('parse_amount') if any(a is loop for a in ancestors(c))]
    if len(conv) != 1:
        ctx.unknown('C05.R1', f, f'{len(conv)} parse_amount calls in the row loop')
    guards = cfg.guard_literals_within(app_stmt, loop)
    texts = {(t.replace(' ', ''), v) for t, v in guards}
    zero = any((t in ('amount==0', '0==amount', 'notamount') and v is False) or (t in ('amount!=0', 'amount') and v is True) for t, v in texts)
    finite = any((('isfinite(amount)' in t) and v is True) or (('notmath.isfinite(amount)' in t or 'math.isnan(amount)' in t or 'math.isinf(amount)' in t or 'amount!=amount' in t) and v is False)
                 for t, v in texts)
    # both isnan and isinf needed when used separately
    if any('isnan(amount)' in t and v is False for t, v in texts) and not any('isinf(amount)' in t and v is False for t, v in texts) and not any('isfinite' in t for t, v in texts):
        finite = False
    ctx.check(zero, 'C05.R1', f, 'guard:zero', 'a zero amount never reaches transactions.append', 'no zero-amount skip dominates transactions.append', app)
    ctx.check(finite, 'C05.R1', f, 'guard:finite', 'a non-finite amount never reaches transactions.append',
              'no finiteness test (math.isfinite / isnan+isinf) lies between parse_amount and transactions.append: float() accepts the cells '
              '"nan", "inf", "infinity" (any case, with sign), so such a row becomes a transaction with amount nan/inf and poisons every total', app)

    # ---------------- R2
    body = [s for s in loop.body if not (isinstance(s, ast.Expr) and isinstance(s.value, ast.Constant))]
    tries = [s for s in body if isinstance(s, ast.Try)]
    ok_shape = len(body) == 1 and len(tries) == 1
    ctx.check(ok_shape, 'C05.R2', f, 'row-try', 'the whole row body is one try statement',
              f'row loop body has {len(body)} statements outside/around the try: a failure there aborts the whole file', loop)
    if tries:
        t = tries[0]
        E = get_escapes(proj)
        esc = E.of_block(f, t.body)
        remaining = dict(esc)
        for h in t.handlers:
            types = E.handler_classes(h)
            for k in [k for k in remaining if E.caught_by(k, types)]:
                del remaining[k]
            tail = h.body[-1] if h.body else None
            ctx.check(isinstance(tail, ast.Continue) and handler_tail_ok(h), 'C05.R2', f, f'handler:{",".join(types)}', f'except {types}: continue',
                      f'handler for {types} does not simply continue with the next row', h)
        # IndexError/ValueError from row access and cell conversion are what the handler is for
        caused = {k: v for k, v in remaining.items()}
        if caused:
            k0 = sorted(caused)[0]
            ctx.fail('C05.R2', f, 'row-escapes', f'{sorted(caused)} can leave the row body uncaught (e.g. {k0} <- {caused[k0]}): one row aborts the file and cmd_run drops the whole source', t)
        else:
            ctx.ok('C05.R2', f, f'escape set of the row body {sorted(esc)} is covered by the row handlers', t, 'row-escapes')
        # classification failures must not be swallowed as "malformed row": normalize_merchant lets no expression-caused class out
        nm = proj.func('merchant_utils.normalize_merchant')
        caused = {k: v for k, v in E.of(nm).items() if ' expr_parser.' in v}
        ctx.check(not caused, 'C05.R2', f, 'no-silent-row-loss', 'normalize_merchant lets no expression-caused exception out (a ValueError would be swallowed as a malformed row)',
                  f'normalize_merchant can raise {sorted(caused)} from rule expressions; ValueError/IndexError among them are swallowed by the row handler and the row is silently dropped', t)

    # ---------------- R3 provenance
    dicts = [n for n in ast.walk(loop) if isinstance(n, ast.Dict) and any(isinstance(k, ast.Constant) and k.value == 'raw_description' for k in n.keys)]
    if len(dicts) != 1:
        ctx.unknown('C05.R3', f, f'{len(dicts)} transaction dict literals in the row loop')
    d = dicts[0]
    vals = {k.value: v for k, v in zip(d.keys, d.values) if isinstance(k, ast.Constant)}
    at = fl.stmt_of(d)

    def atoms_of(key):
        return fl.atoms(vals[key], at, stores=True) if key in vals else set()

    def has_row_col(a, col):
        return f'attr:format_spec.{col}' in a and (f'name:{row}' in a or f'loopvar:{row}' in a)

    a = atoms_of('date')
    ok = has_row_col(a, 'date_column') and 'call:strptime' in a and 'attr:format_spec.date_format' in a and not has_row_col(a, 'amount_column')
    ctx.check(ok, 'C05.R3', f, 'field:date', 'date = strptime(row[date_column], date_format)', f'date has provenance {_brief(a)}', vals.get('date'))
    a = atoms_of('amount')
    ok = has_row_col(a, 'amount_column') and 'call:parse_amount' in a and not has_row_col(a, 'date_column')
    ctx.check(ok, 'C05.R3', f, 'field:amount', 'amount = parse_amount(row[amount_column])', f'amount has provenance {_brief(a)}', vals.get('amount'))
    # decimal separator reaches parse_amount
    c = conv[0]
    callee = proj.func('parsers.parse_amount')
    sep = arg_of(c, callee, 'decimal_separator')
    ok = sep is not None and 'param:decimal_separator' in fl.atoms(sep, c)
    ctx.check(ok, 'C05.R3', f, 'arg:decimal_separator', 'parse_amount receives the source\'s decimal separator',
              f'parse_amount is called as {src(c)[:50]!r}: the configured decimal separator is not passed', c)
    a = atoms_of('raw_description')
    mode1 = has_row_col(a, 'description_column')
    mode2 = 'attr:format_spec.description_template' in a and 'attr:format_spec.custom_captures' in a
    ctx.check(mode1 and mode2 and 'call:strip' in a, 'C05.R3', f, 'field:raw_description', 'description = row[description_column].strip() | template.format(**captures)',
              f'raw_description has provenance {_brief(a)}', vals.get('raw_description'))
    a = atoms_of('source')
    ok = 'attr:format_spec.source_name' in a and 'param:source_name' in a
    ctx.check(ok, 'C05.R3', f, 'field:source', 'source = format_spec.source_name or source_name', f'source has provenance {_brief(a)}', vals.get('source'))
    a = atoms_of('location')
    ok = has_row_col(a, 'location_column')
    ctx.check(ok, 'C05.R3', f, 'field:location', 'location = row[location_column] (or extracted from the description)', f'location has provenance {_brief(a)}', vals.get('location'))
    a = atoms_of('field')
    ok = 'name:captures' in a
    ctx.check(ok, 'C05.R3', f, 'field:field', 'field = the captured columns', f'field has provenance {_brief(a)}', vals.get('field'))
    # captures[name] <- row[idx] for (name, idx) of the spec's maps, stripped
    # two spellings: a loop storing captures[name] = …, or captures = {name: … for name, idx in …}
    producers = []          # (statement, key expr, value expr, loop target, iterable)
    for s in ast.walk(loop):
        if isinstance(s, ast.Assign) and any(isinstance(t, ast.Subscript) and isinstance(t.value, ast.Name) and t.value.id == 'captures' for t in s.targets):
            lp = [x for x in ancestors(s) if isinstance(x, ast.For) and x is not loop]
            producers.append((s, s.targets[0].slice, s.value, lp[0].target if lp else None, lp[0].iter if lp else None))
        elif isinstance(s, ast.Assign) and len(s.targets) == 1 and isinstance(s.targets[0], ast.Name) and s.targets[0].id == 'captures' and isinstance(s.value, ast.DictComp) \
                and len(s.value.generators) == 1 and not s.value.generators[0].ifs:
            g = s.value.generators[0]
            producers.append((s, s.value.key, s.value.value, g.target, g.iter))
    if len(producers) < 2:
        ctx.unknown('C05.R3', f, 'capture stores not found')
    for s, key, value, tgt, it_ in producers:
        ok = False
        if tgt is not None and isinstance(tgt, ast.Tuple) and len(tgt.elts) == 2 and all(isinstance(e, ast.Name) for e in tgt.elts):
            nm, idx = [e.id for e in tgt.elts]
            it = src(it_)
            reads = [n for n in ast.walk(value) if isinstance(n, ast.Subscript) and isinstance(n.value, ast.Name) and n.value.id == row]
            ok = isinstance(key, ast.Name) and key.id == nm and reads and all(isinstance(r.slice, ast.Name) and r.slice.id == idx for r in reads) \
                and it in ('format_spec.extra_fields.items()', 'format_spec.custom_captures.items()') and '.strip()' in src(value)
        ctx.check(ok, 'C05.R3', f, f'capture:{src(it_)[:40] if it_ is not None else "?"}', 'captures[name] = row[idx].strip() for (name, idx) of the spec',
                  f'{src(s)[:70]!r}: capture does not read the configured column of this row', s)
    # no arithmetic on column indices
    for n in ast.walk(loop):
        if isinstance(n, ast.Subscript) and isinstance(n.value, ast.Name) and n.value.id == row and isinstance(n.ctx, ast.Load):
            ok = isinstance(n.slice, (ast.Attribute, ast.Name)) and not isinstance(n.slice, ast.BinOp)
            ctx.check(ok, 'C05.R3', f, f'index:{src(n.slice)[:30]}', f'{src(n)} reads the configured column', f'{src(n)!r}: column index is computed, not the configured one', n)
    # the classifier sees the same values
    ncalls = [c2 for c2 in fl.calls('normalize_merchant') if any(x is loop for x in ancestors(c2))]
    nmf = proj.func('merchant_utils.normalize_merchant')
    for c2 in ncalls:
        for pname, want in [('description', 'name:description'), ('amount', 'call:parse_amount'), ('txn_date', 'call:strptime'), ('field', 'name:captures'),
                            ('data_source', 'attr:format_spec.source_name'), ('transforms', 'param:transforms'), ('location', 'name:location'),
                            ('data_sources', 'param:data_sources'), ('rules', 'param:rules')]:
            a_ = arg_of(c2, nmf, pname)
            ok = a_ is not None and want in fl.atoms(a_, c2)
            ctx.check(ok, 'C05.R3', f, f'classify-arg:{pname}', f'normalize_merchant({pname}=…) receives this row\'s {pname}',
                      f'normalize_merchant is not given this row\'s {pname} ({src(a_) if a_ is not None else "omitted"!r})', c2)
        # rules compare `date` with ISO date strings: the classifier must be given a date, not the datetime strptime returns
        a_ = arg_of(c2, nmf, 'txn_date')
        ok = a_ is not None and any(o in ('call:date', 'callq:date.date') or o.endswith('.date') and o.startswith('callq:') for _l, ops in fl.leaf_paths(a_, c2) for o in ops)
        ctx.check(ok, 'C05.R3', f, 'classify-arg:txn_date-is-a-date', 'normalize_merchant(txn_date=…) receives a date (…strptime(…).date())',
                  f'normalize_merchant is given {src(a_) if a_ is not None else None!r}, a datetime: `date >= "2025-01-01"` in a rule then compares a datetime with a date and the rule is skipped', c2)

    # ---------------- R4 sign
    defs = cfg.defs_reaching(at, 'amount')
    kinds = {}
    for dn in defs:
        if dn == 'param':
            continue
        s = cfg.stmt[dn]
        v = getattr(s, 'value', None)
        g = {(t.replace(' ', ''), tr) for t, tr in cfg.guard_literals_within(s, loop)}
        if isinstance(v, ast.Call) and call_name(v) == 'parse_amount':
            kinds['raw'] = (s, g)
        elif isinstance(v, ast.Call) and call_name(v) == 'abs' and src(v.args[0]) == 'amount':
            kinds['abs'] = (s, g)
        elif isinstance(v, ast.UnaryOp) and isinstance(v.op, ast.USub) and src(v.operand) == 'amount':
            kinds['neg'] = (s, g)
        else:
            kinds[f'other:{src(s)[:30]}'] = (s, g)
    others = [k for k in kinds if k.startswith('other')]
    ctx.check('raw' in kinds and not others, 'C05.R4', f, 'amount-defs', 'amount is only the parsed cell, its abs or its negation',
              f'amount is also redefined by {others}', kinds[others[0]][0] if others else None)
    if 'abs' in kinds:
        s, g = kinds['abs']
        ok = ('format_spec.abs_amount', True) in g and not any(t == 'format_spec.negate_amount' for t, _ in g)
        ctx.check(ok, 'C05.R4', f, 'abs', 'abs(amount) exactly under abs_amount (takes precedence)', f'abs(amount) applied under {sorted(g)}', s)
        once = cfg.defs_reaching(s, 'amount') == {cfg.nid(kinds['raw'][0])}
        ctx.check(once, 'C05.R4', f, 'abs-once', 'abs applied to the parsed value, once', 'abs applied to an already modified amount', s)
    else:
        ctx.fail('C05.R4', f, 'abs', '{+amount} (abs_amount) is never applied', at)
    if 'neg' in kinds:
        s, g = kinds['neg']
        ok = ('format_spec.negate_amount', True) in g and ('format_spec.abs_amount', False) in g
        ctx.check(ok, 'C05.R4', f, 'neg', '-amount under negate_amount and not abs_amount', f'negation applied under {sorted(g)}', s)
        once = cfg.defs_reaching(s, 'amount') == {cfg.nid(kinds['raw'][0])}
        ctx.check(once, 'C05.R4', f, 'neg-once', 'negation applied to the parsed value, once', 'negation applied to an already modified amount (double flip / abs then negate)', s)
    else:
        ctx.fail('C05.R4', f, 'neg', '{-amount} (negate_amount) is never applied', at)

    # ---------------- R5 delimiter dispatch
    it = proj.func('parsers._iter_rows_with_delimiter')
    ifl = get_flow(proj, it)
    # Decided on what the generator can yield and from where, not on how its branches are laid out:
    #   char    rows of csv.reader(f, delimiter=<the configured character>)      default   rows of csv.reader(f)
    #   regex   match.groups() of the configured pattern applied to each line
    # and for each of them the first line is skipped exactly when has_header is set.
    readers = [c for c in ifl.calls('reader') if dotted(c.func) == 'csv.reader']
    kinds = {'char': [c for c in readers if any(k.arg == 'delimiter' for k in c.keywords)],
             'default': [c for c in readers if not any(k.arg == 'delimiter' for k in c.keywords) and len(c.args) == 1]}
    yields = [y for y in ast.walk(it.node) if isinstance(y, (ast.Yield, ast.YieldFrom))]
    kinds['regex'] = [y for y in yields if y.value is not None and '.groups()' in src(y.value)]
    tab = any(isinstance(n, (ast.If, ast.IfExp)) and "=='tab'" in src(n.test).replace(' ', '') and "'\\t'" in src(n) for n in ast.walk(it.node))
    ctx.check(tab, 'C05.R5', it, 'arm:tab', "'tab' is mapped to the tab character", "no mapping of delimiter 'tab' to '\\t'")
    # header skips
    # a reader's first line is skipped under has_header: some next(<reader>) guarded by has_header is reached by *that* reader's definition
    skipped_defs = set()
    for c in ifl.calls('next'):
        if c.args and isinstance(c.args[0], ast.Name) and ('has_header', True) in ifl.cfg.guard_literals(ifl.stmt_of(c)):
            skipped_defs |= {d for d in ifl.cfg.defs_reaching(ifl.stmt_of(c), c.args[0].id) if d != 'param'}
    regex_skip = any(isinstance(s_, ast.Continue) and any(t == 'has_header' and tr for t, tr in ifl.cfg.guard_literals(s_)) for s_ in ifl.cfg.stmts()) or \
        (bool(kinds['regex']) and all(any('has_header' in t for t, _tr in ifl.cfg.guard_literals(ifl.stmt_of(y))) for y in kinds['regex']))
    for nm in ('regex', 'char', 'default'):
        if not kinds[nm]:
            ctx.fail('C05.R5', it, f'arm:{nm}', f'no {nm} arm in the delimiter dispatch', it.node)
            continue
        if nm == 'regex':
            hdr = regex_skip
        else:
            hdr = all(ifl.cfg.nid(ifl.stmt_of(c)) in skipped_defs for c in kinds[nm])
        ctx.check(hdr and bool(yields), 'C05.R5', it, f'arm:{nm}', f'{nm} arm skips the header when configured and yields rows',
                  f'{nm} arm ' + ('never skips the header line' if not hdr else 'yields nothing'), kinds[nm][0])
    # the delimiter and header flag come from the spec
    rc = [c3 for c3 in fl.calls('_iter_rows_with_delimiter')]
    ok = len(rc) == 1 and 'attr:format_spec.has_header' in fl.atoms(rc[0].args[2], rc[0]) and ('delimiter' in src(rc[0].args[1]))
    ctx.check(ok, 'C05.R5', f, 'iter-args', 'rows are read with the spec\'s delimiter and has_header', f'{src(rc[0])[:60] if rc else "?"!r}', rc[0] if rc else None)
    dl = [s for s in cfg.stmts() if isinstance(s, ast.Assign) and any(isinstance(t, ast.Name) and t.id == 'delimiter' for t in s.targets)]
    ok = dl and all('format_spec' in src(s.value) and 'delimiter' in src(s.value) for s in dl)
    ctx.check(bool(ok), 'C05.R5', f, 'delimiter-source', 'delimiter comes from format_spec.delimiter', 'delimiter does not come from the format spec')

    # ---------------- R6
    ctx.check(any(a is loop for a in ancestors(app)), 'C05.R6', f, 'append-in-loop', 'one append per accepted row, inside the row loop', 'append is outside the row loop', app)
    arg = app.args[0]
    ok = isinstance(arg, ast.Name) and cfg.defs_reaching(app_stmt, arg.id) == {cfg.nid(fl.stmt_of(d))}
    ctx.check(ok, 'C05.R6', f, 'append-arg', 'the appended object is the dict built for this row', f'appends {src(arg)!r}', app)
    rets = [s for s in cfg.stmts() if isinstance(s, ast.Return)]
    ok = len(rets) == 1 and isinstance(rets[0].value, ast.Name) and rets[0].value.id == 'transactions'
    ctx.check(ok, 'C05.R6', f, 'return', 'returns the list as built (file order)', f'returns {src(rets[0].value) if rets else "?"!r}', rets[0] if rets else None)
    for s in cfg.stmts():
        for n in ast.walk(s) if not isinstance(s, (ast.For, ast.Try, ast.If)) else []:
            if isinstance(n, ast.Call) and isinstance(n.func, ast.Attribute) and n.func.attr in ('sort', 'reverse', 'insert') and src(n.func.value) == 'transactions':
                ctx.fail('C05.R6', f, f'reorder:{n.func.attr}', f'{src(n)[:40]!r} reorders the transactions', n)
    # emptiness skip precedes parsing
    skip = [s for s in cfg.stmts() if isinstance(s, ast.If) and 'not date_str' in src(s.test) and 'not description' in src(s.test) and 'not amount_str' in src(s.test)]
    parse_calls = [c4 for c4 in fl.calls('strptime')] + conv
    ok = bool(skip) and isinstance(skip[0].body[-1], ast.Continue) and all(cfg.dominates(skip[0], fl.stmt_of(c4)) for c4 in parse_calls)
    ctx.check(ok, 'C05.R6', f, 'empty-skip', 'rows with an empty date / description / amount are skipped before parsing',
              'the empty-cell skip is missing or does not precede date/amount parsing')
    # column-count guard
    cc = [s for s in cfg.stmts() if isinstance(s, ast.If) and f'len({row})' in src(s.test)]
    ok = False
    if cc and isinstance(cc[0].test, ast.Compare) and len(cc[0].test.ops) == 1:
        t = cc[0].test
        l_, r_ = t.left, t.comparators[0]
        if isinstance(t.ops[0], (ast.GtE, ast.Gt)):
            l_, r_ = r_, l_
            strict = isinstance(t.ops[0], ast.Gt)
        else:
            strict = isinstance(t.ops[0], ast.Lt)
        # len(row) <= <highest required column index>: the bound derives from the format's column attributes (whatever the local is called)
        bound_ok = src(l_) == f'len({row})' and not strict and any(a.startswith('attr:format_spec.') and a.endswith('_column') for a in fl.atoms(r_, cc[0]))
        # the rows that fail the guard are skipped: the append is not reachable in the same iteration
        ok = bound_ok and isinstance(cc[0].body[-1], ast.Continue)
    ctx.check(ok, 'C05.R6', f, 'column-guard', 'rows with too few columns are skipped', f'column-count guard is {src(cc[0].test) if cc else "missing"!r}')
    # the date part split applies only when the format has no blank
    dsplit = [s for s in cfg.stmts() if isinstance(s, ast.Assign) and 'date_str.split()' in src(s.value)]
    for s in dsplit:
        g = cfg.guard_literals_within(s, loop)
        ok = any("' ' in format_spec.date_format" in t and not tr for t, tr in g)
        ctx.check(ok, 'C05.R6', f, 'date-suffix', 'trailing text after the date is dropped only for date formats without blanks', f'date split under {sorted(g)}', s)


def _brief(a: Set[str]) -> List[str]:
    return sorted(x for x in a if x.startswith(('attr:', 'call:', 'param:', 'key:')))[:10]


def r7_amount(ctx: Ctx) -> None:
    proj = ctx.proj
    pa = proj.func('parsers.parse_amount')
    fl = get_flow(proj, pa)
    cfg = fl.cfg
    sep = pa.params[1] if len(pa.params) > 1 else 'decimal_separator'
    reps = []
    for st in cfg.stmts():
        for n in (ast.walk(st) if not isinstance(st, (ast.If, ast.For, ast.While, ast.Try)) else []):
            if isinstance(n, ast.Call) and isinstance(n.func, ast.Attribute) and n.func.attr == 'replace' and len(n.args) == 2 \
                    and isinstance(n.args[0], ast.Constant) and isinstance(n.args[1], ast.Constant):
                reps.append((st, n))
    if len(reps) < 4:
        ctx.unknown('C05.R7', pa, f'{len(reps)} separator replacements found in parse_amount')
    euro = {('.', ''), (' ', ''), (',', '.')}
    us = {(',', '')}
    seen_e, seen_u = set(), set()
    for st, n in reps:
        g = cfg.guard_literals(st)
        arm_e = any(t.replace(' ', '') in (f"{sep}==','",) and tr for t, tr in g)
        arm_u = any(t.replace(' ', '') in (f"{sep}==','",) and not tr for t, tr in g)
        extra = [(t, tr) for t, tr in g if t.replace(' ', '') not in (f"{sep}==','", f"{sep}=='.'", f"{sep}!=','")]
        pair = (n.args[0].value, n.args[1].value)
        if arm_e:
            seen_e.add(pair)
        elif arm_u:
            seen_u.add(pair)
        ctx.check(not extra and (arm_e or arm_u), 'C05.R7', pa, f'replace:{pair[0]!r}->{pair[1]!r}:{"comma" if arm_e else "dot"}',
                  f'replace({pair[0]!r}, {pair[1]!r}) applies to every cell of its convention',
                  f'replace({pair[0]!r}, {pair[1]!r}) is applied only under {extra}: cells of the same convention are read differently depending on their content '
                  f'(e.g. "1.500" with a decimal comma configured becomes 1.5 instead of 1500)', n)
    ctx.check(euro <= seen_e, 'C05.R7', pa, 'convention:comma', "decimal comma: '.' and ' ' removed, ',' becomes '.'", f'decimal-comma arm performs {sorted(seen_e)}')
    ctx.check(us <= seen_u, 'C05.R7', pa, 'convention:dot', "decimal point: ',' removed", f'decimal-point arm performs {sorted(seen_u)}')
    # parentheses -> negative, applied to the result once
    def paren_test(e) -> bool:
        t = src(e)
        return 'startswith' in t and 'endswith' in t and "'('" in t and "')'" in t
    # the "cell is parenthesised" decision: an if on it, or a flag computed from it
    neg = [s_ for s_ in cfg.stmts() if (isinstance(s_, ast.If) and paren_test(s_.test)) or
           (isinstance(s_, ast.Assign) and any(isinstance(t_, ast.Name) and t_.id == 'negative' for t_ in s_.targets) and paren_test(s_.value))]
    rets = [r for r in cfg.stmts() if isinstance(r, ast.Return) and r.value is not None]
    # every returned value is -x when the cell was parenthesised and x otherwise, whether spelled `-r if negative else r` or `if negative: return -r` / `return r`
    arms = []            # (is negated, truth of `negative` under which it is returned; None = unconditional)
    for r in rets:
        if isinstance(r.value, ast.IfExp) and src(r.value.test) in ('negative', 'not negative'):
            flip = src(r.value.test) != 'negative'
            arms.append((isinstance(r.value.body, ast.UnaryOp) and isinstance(r.value.body.op, ast.USub), not flip))
            arms.append((isinstance(r.value.orelse, ast.UnaryOp) and isinstance(r.value.orelse.op, ast.USub), flip))
        else:
            g = dict(cfg.guard_literals(r))
            arms.append((isinstance(r.value, ast.UnaryOp) and isinstance(r.value.op, ast.USub), g.get('negative')))
    ok = bool(neg) and any(n_ and t is True for n_, t in arms) and any((not n_) and t is False for n_, t in arms) and all((n_ and t is True) or ((not n_) and t is False) for n_, t in arms)
    ctx.check(ok, 'C05.R7', pa, 'parentheses', '(x) is read as -x', 'parenthesised amounts are not negated exactly once')
    fl_calls = [c for c in fl.calls('float')]
    ctx.check(len(fl_calls) == 1 and not cfg.guard_literals(fl.stmt_of(fl_calls[0])), 'C05.R7', pa, 'float', 'the normalised text is converted with float() on every path',
              'conversion to float is conditional or repeated')
    # currency symbols are dropped wherever they stand (`-$25.00`, `12,50 €`): the deleting pattern is a bare character class, no anchor, no context
    import re._parser as _sre
    import re._constants as _sc
    from ._tables import fold_str, module_value
    dels = []           # (call, pattern text)
    for c in fl.calls('sub'):
        pat_ = repl_ = None
        if dotted(c.func) == 're.sub' and len(c.args) >= 3:
            pat_, repl_ = c.args[0], c.args[1]
        elif isinstance(c.func, ast.Attribute) and isinstance(c.func.value, ast.Name) and len(c.args) >= 2 and (cv_ := module_value(pa.module, c.func.value.id)) is not None \
                and isinstance(cv_, ast.Call) and dotted(cv_.func) == 're.compile' and cv_.args:
            pat_, repl_ = cv_.args[0], c.args[0]            # precompiled at module level
        text_ = fold_str(pat_, pa.module) if pat_ is not None else None
        if text_ is not None and isinstance(repl_, ast.Constant) and repl_.value == '' and any(ch in text_ for ch in '$€£¥'):
            dels.append((c, text_))
    if not dels:
        ctx.unknown('C05.R7', pa, 'no deletion of currency symbols (re.sub(<class>, \'\', …)) found in parse_amount')
    for c, text_ in dels:
        try:
            items = list(_sre.parse(text_))
        except Exception:
            items = None
        ok = items is not None and len(items) == 1 and items[0][0] in (_sc.IN, _sc.LITERAL) and not cfg.guard_literals(fl.stmt_of(c))
        ctx.check(ok, 'C05.R7', pa, 'currency-symbols', 'currency symbols are removed wherever they stand', f're.sub({text_!r}, \'\', …) removes a currency symbol only in one position '
                  f'(or only sometimes): `-$25.00` / `12,50 €` keep their symbol, float() fails and the row is dropped', c)


def r8_row_independence(ctx: Ctx, f, fl, loop, row) -> None:
    """Loop-carried dependence: a name assigned in the row loop whose definition from a *previous* iteration can reach a read."""
    from ._rows import carried_containers, carried_names
    appended = {n.func.value.id for n in ast.walk(loop) if isinstance(n, ast.Call) and isinstance(n.func, ast.Attribute) and n.func.attr in ('append', 'extend')
                and isinstance(n.func.value, ast.Name)}
    carried = {k: v for k, v in carried_names(fl, loop).items() if k not in appended and k != row}
    for name, (m, rd_) in carried_containers(fl, loop, appended).items():
        if name != row:
            carried.setdefault(name, (fl.stmt_of(rd_) if fl.cfg.has(fl.stmt_of(rd_)) else loop, [getattr(m, 'lineno', 0)]))
    if carried:
        for name, (st, lines) in sorted(carried.items()):
            ctx.fail('C05.R8', f, f'carried:{name}', f'`{name}` is assigned while processing one row (line(s) {lines}) and read at line {st.lineno} while processing a later row: '
                                                     f'a malformed or unusual row changes how the rows after it are read', st)
    else:
        ctx.ok('C05.R8', f, 'no name assigned in the row loop is read in a later iteration', loop, 'carried:none')
