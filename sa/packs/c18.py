"""C18 — a format string maps columns by position, and inspect's suggestion round-trips."""
from __future__ import annotations

import ast
import re
from typing import Dict, List, Optional, Set

from ..callgraph import all_nodes
from ..cfg import conj_atoms
from ..core import Ctx
from ..flow import call_name, get_flow
from ..project import AnalysisError, FuncInfo, ancestors, dotted, parent, src

LEVEL = 'other'


def check(ctx: Ctx) -> None:
    ctx.rule('C18.R1', 'positions: every store into the column tables uses the index bound by enumerate(parts) (start 0) of the comma split, unmodified', floor=4)
    ctx.rule('C18.R2', 'rejections are in place: duplicate tests dominate the stores; missing-required, description-or-captures, captures-need-template and template-reference tests dominate construction', floor=8)
    ctx.rule('C18.R3', 'writer within reader: every token inspect emits is accepted by the format parser\'s field pattern; the join separator contains the split character', floor=6)
    ctx.rule('C18.R4', 'name agreement: the suggestion loop emits the token named X exactly for column spec.X_column', floor=5)
    proj = ctx.proj
    pf = proj.func('format_parser.parse_format_string')
    r1_r2(ctx, pf)
    r3_r4(ctx, pf)


def r1_r2(ctx: Ctx, pf: FuncInfo) -> None:
    proj = ctx.proj
    fl = get_flow(proj, pf)
    cfg = fl.cfg
    loops = [s for s in cfg.stmts() if isinstance(s, ast.For) and isinstance(s.iter, ast.Call) and call_name(s.iter) == 'enumerate']
    if len(loops) != 1:
        ctx.unknown('C18.R1', pf, f'{len(loops)} enumerate loops in parse_format_string')
    lp = loops[0]
    en = lp.iter
    start_ok = len(en.args) == 1 and not en.keywords
    idx, part = [e.id for e in lp.target.elts]
    ctx.check(start_ok and src(en.args[0]) == 'parts', 'C18.R1', pf, 'enumerate', 'columns are numbered by enumerate(parts) from 0', f'column loop iterates {src(en)!r} (positions shifted)', lp)
    pdef = [s for s in cfg.stmts() if isinstance(s, ast.Assign) and src(s.targets[0]) == 'parts']
    ok = len(pdef) == 1 and "format_str.split(',')" in src(pdef[0].value) and ' if ' not in src(pdef[0].value)
    ctx.check(ok, 'C18.R1', pf, 'split', 'parts = the comma split of the format string, every part kept', f'parts = {src(pdef[0].value) if pdef else None!r} (dropping or merging parts shifts positions)', pdef[0] if pdef else None)
    stores = [s for s in ast.walk(lp) if isinstance(s, ast.Assign) and isinstance(s.targets[0], ast.Subscript) and src(s.targets[0].value) in ('field_positions', 'custom_captures')]
    if len(stores) != 2:
        ctx.unknown('C18.R1', pf, f'{len(stores)} position stores found')
    for s in stores:
        tbl = src(s.targets[0].value)
        ok = isinstance(s.value, ast.Name) and s.value.id == idx and src(s.targets[0].slice) == 'field_name'
        ctx.check(ok, 'C18.R1', pf, f'store:{tbl}', f'{tbl}[field_name] = {idx}', f'{src(s)!r}: the stored position is not the enumerate index', s)
        # the index variable is not reassigned in the loop
    reass = [s for s in ast.walk(lp) if isinstance(s, (ast.Assign, ast.AugAssign)) and any(isinstance(n, ast.Name) and n.id == idx and isinstance(n.ctx, ast.Store) for n in ast.walk(s))]
    ctx.check(not reass, 'C18.R1', pf, 'index-stable', 'the column index is never modified', f'{src(reass[0])[:40] if reass else ""!r} modifies the column index', reass[0] if reass else None)
    # skip tokens do not consume a table slot but still consume a position (continue inside the enumerate loop)
    # decided on the guards of the two position stores, so `if skip: continue` and `if not skip: <store>` are the same to the rule
    need = {("field_name == '_'", False), ("field_name == '*'", False)}
    ok = all(need <= cfg.guard_literals_within(s, lp) or any(("field_name in ('_', '*')", False) == x or ("field_name in ('*', '_')", False) == x for x in cfg.guard_literals_within(s, lp)) for s in stores)
    ctx.check(ok, 'C18.R1', pf, 'skip-tokens', '{_} and {*} skip a column (and keep its position)', 'skip tokens are not handled: {_} / {*} would be stored as a column name')

    # ---- R2
    g_by = {src(s.targets[0].value): cfg.guard_literals_within(s, lp) for s in stores}
    dup = [s for s in ast.walk(lp) if isinstance(s, ast.If) and isinstance(s.body[-1], ast.Raise) and 'Duplicate' in src(s.body[-1])]
    for tbl in ('field_positions', 'custom_captures'):
        st = [s for s in stores if src(s.targets[0].value) == tbl][0]
        ok = any(src(d.test) == f'field_name in {tbl}' and cfg.dominates(d, st) for d in dup)
        ctx.check(ok, 'C18.R2', pf, f'duplicate:{tbl}', f'a duplicate in {tbl} raises before the store', f'no duplicate test dominates the store into {tbl}: a repeated field silently overwrites the earlier column', st)
    nomatch = [s for s in lp.body if isinstance(s, ast.If) and src(s.test) == 'not match' and isinstance(s.body[-1], ast.Raise)]
    ctx.check(bool(nomatch), 'C18.R2', pf, 'invalid-part', 'a part that is not {field} raises', 'an unparsable part is skipped instead of rejected')
    build = [c for c in fl.calls('FormatSpec')]
    if len(build) != 1:
        ctx.unknown('C18.R2', pf, f'{len(build)} FormatSpec constructions')
    bst = fl.stmt_of(build[0])
    # the four rejections, decided on the guards of the raise statements (whatever the spelling of the test: `not a and not b`, `not (a or b)`, nested ifs)
    # Facts, not spellings: D = a {description} column was given, K = there are custom captures (after captures given next to {description} have been
    # moved to extra_fields), T = a description template was given, M = a required field is missing, R = the template reference is a capture.
    def fact(text: str, truth: bool, at):
        t = text.replace(' ', '')
        if t in ('has_description', "'description'infield_positions", "field_positions.get('description')isnotNone"):
            return ('D', truth)
        if t in ('has_custom', 'custom_captures', 'len(custom_captures)>0', 'bool(custom_captures)', 'len(custom_captures)'):
            return ('K', truth)
        if t in ('description_template', 'bool(description_template)'):
            return ('T', truth)
        if t in ('missing', 'len(missing)>0'):
            return ('M', truth)
        if t.endswith('incustom_captures') and t[:-len('incustom_captures')].isidentifier():
            return ('R', truth)
        if t.endswith('isNone') and t[:-6].isidentifier():
            # `bad = next((r for r in refs if r not in custom_captures), None)` … `if bad is not None: raise`
            for d_ in cfg.defs_reaching(at, t[:-6]) if cfg.has(at) else ():
                v_ = getattr(cfg.stmt.get(d_), 'value', None) if d_ != 'param' else None
                if isinstance(v_, ast.Call) and call_name(v_) == 'next' and len(v_.args) == 2 and isinstance(v_.args[0], ast.GeneratorExp) \
                        and any(src(c_).replace(' ', '').endswith('notincustom_captures') for g_ in v_.args[0].generators for c_ in g_.ifs):
                    return ('R', truth)
        return (text, truth)
    wants = {
        'missing-required': {('M', True)},
        'description-or-captures': {('D', False), ('K', False)},
        'captures-need-template': {('K', True), ('T', False)},
        'template-reference': {('R', False), ('T', True)},
    }
    # conditions that add nothing: captures only survive to this point when there is no {description} column, so `no description` next to `captures` is implied
    implied = {'captures-need-template': {('D', False)}}
    raises = [r_ for r_ in cfg.stmts() if isinstance(r_, ast.Raise) and not any(a_ is lp for a_ in ancestors(r_)) and 'ValueError' in src(r_)]

    def own_guards(r_):
        # the conditions of the statements enclosing the raise (earlier rejections that ended in a raise of their own are not conditions of this one)
        # … at the top level of the function, that is: inside one compound statement an earlier `if …: raise` is part of the same decision
        top_ = [a_ for a_ in [r_] + list(ancestors(r_)) if parent(a_) is pf.node]
        inside = {id(n_) for n_ in ast.walk(top_[0])} if top_ else {id(a_) for a_ in ancestors(r_)}
        lits = set()
        for b_, lab in cfg.guards(r_):
            st_ = cfg.stmt.get(b_)
            if isinstance(st_, ast.If) and id(st_) in inside and lab in (True, False):
                lits |= {fact(src(at), tr, st_) for at, tr in conj_atoms(st_.test, lab)}
        return lits
    g_of = {id(r_): own_guards(r_) for r_ in raises}

    def is_hit(what, g_):
        return g_ == wants[what] or (g_ - implied.get(what, set())) == wants[what]
    syms = {'D', 'K', 'T', 'M', 'R'}
    stray = [r_ for r_ in raises if g_of[id(r_)] and not any(is_hit(w_, g_of[id(r_)]) for w_ in wants) and any(t_ in syms for t_, _ in g_of[id(r_)])]
    for what, want_g in wants.items():
        hit = [r_ for r_ in raises if is_hit(what, g_of[id(r_)])]
        # the same rejection under a further condition rejects less than it should
        core = {('R', False)} if what == 'template-reference' else want_g
        weakened = [r_ for r_ in stray if core <= g_of[id(r_)] and g_of[id(r_)] - want_g - implied.get(what, set())]
        if not hit and stray and not weakened:
            ctx.unknown('C18.R2', pf, f'{what}: no ValueError under exactly {sorted(want_g)}, but one under {sorted(g_of[id(stray[0])])} that the rule cannot place')
        dom = False
        if hit:
            top = [a_ for a_ in [hit[0]] + list(ancestors(hit[0])) if parent(a_) is pf.node]
            dom = bool(top) and cfg.dominates(top[0], bst)
        ctx.check(bool(hit) and dom, 'C18.R2', pf, f'reject:{what}', f'{what}: raises ValueError before the FormatSpec is built',
                  f'{what} is not rejected before construction (no ValueError raised under exactly {sorted(want_g)}; D = description column given, K = custom captures, '
                  f'T = description template, M = required field missing, R = reference is a capture'
                  + (f'; the one at line {weakened[0].lineno} needs more than that)' if weakened else ')'), hit[0] if hit else None)
    req = [s for s in cfg.stmts() if isinstance(s, ast.Assign) and src(s.targets[0]) == 'required']
    ctx.check(bool(req) and src(req[0].value) in ("{'date', 'amount'}", "{'amount', 'date'}"), 'C18.R2', pf, 'required-set', 'date and amount are required', f'required fields are {src(req[0].value) if req else None}')
    ms = [s for s in cfg.stmts() if isinstance(s, ast.Assign) and src(s.targets[0]) == 'missing']
    ctx.check(bool(ms) and src(ms[0].value).replace(' ', '') == 'required-set(field_positions.keys())', 'C18.R2', pf, 'missing-def', 'missing = required - found', f'missing = {src(ms[0].value) if ms else None}')
    # template references are read from the template text
    refs = [s for s in cfg.stmts() if isinstance(s, ast.For) and 're.findall' in src(s.iter) and 'description_template' in src(s.iter)] or \
        [c_ for c_ in fl.calls('findall') if any('description_template' in src(a_) for a_ in c_.args)]
    ctx.check(bool(refs), 'C18.R2', pf, 'template-refs', 'every {name} of the description template is checked', 'template references are not enumerated')
    # construction maps each table entry to the like-named attribute
    kw = {k.arg: src(k.value) for k in build[0].keywords}
    want = {'date_column': "field_positions['date']", 'amount_column': "field_positions['amount']", 'description_column': "field_positions.get('description')",
            'location_column': "field_positions.get('location')", 'date_format': 'date_format', 'negate_amount': 'negate_amount', 'abs_amount': 'abs_amount',
            'description_template': 'description_template'}
    bad = {k: kw.get(k) for k, v in want.items() if kw.get(k) != v}
    ctx.check(not bad, 'C18.R2', pf, 'construction', 'FormatSpec fields come from the like-named table entries', f'FormatSpec built with {bad}', build[0])
    # the description template is text the user wrote (`PayPal *{merchant} via VISA`): it reaches the FormatSpec unchanged
    tk = [k.value for k in build[0].keywords if k.arg == 'description_template']
    if tk:
        folds = sorted(o for o in fl.atoms(tk[0], build[0]) if o in ('call:lower', 'call:upper', 'call:casefold', 'call:title', 'call:strip', 'call:replace', 'call:sub'))
        ctx.check(not folds, 'C18.R2', pf, 'template-as-written', 'the description template is stored as written', f'the description template goes through {folds} before it is stored: its literal '
                  f'text is rewritten and every description built from it differs from what the user configured', build[0])
    # sign mode and date format.  Whatever the spelling: (1) inside the column loop the sign flags - or whatever they are later computed from - are only
    # written for the amount field; (2) '-' is what turns on negate_amount and '+' what turns on abs_amount.
    text = src(lp)
    flags = {'negate_amount', 'abs_amount'}
    feeds = set(flags)
    for s_ in cfg.stmts():
        if isinstance(s_, ast.Assign) and any(isinstance(t, ast.Name) and t.id in flags for t in s_.targets):
            feeds |= {n.id for n in ast.walk(s_.value) if isinstance(n, ast.Name)}
    feeds -= {'True', 'False'}
    # what is read straight off the pattern match (the sign text itself) is not a mode flag
    for s_ in ast.walk(lp):
        if isinstance(s_, ast.Assign) and any(isinstance(n, ast.Attribute) and n.attr in ('group', 'groups') for n in ast.walk(s_.value)):
            feeds -= {n.id for t in s_.targets for n in ast.walk(t) if isinstance(n, ast.Name)}
    def stores_flag(s_, names):
        return isinstance(s_, ast.Assign) and any(isinstance(n, ast.Name) and n.id in names and isinstance(n.ctx, ast.Store) for t in s_.targets for n in ast.walk(t))
    in_loop = [s_ for s_ in cfg.stmts() if any(a is lp for a in ancestors(s_)) and stores_flag(s_, feeds)]
    only_amount = bool(in_loop) and all(("field_name == 'amount'", True) in cfg.guard_literals_within(s_, lp) for s_ in in_loop)
    # the two flags read together out of a constant table keyed by the sign text: `negate_amount, abs_amount = TABLE[sign]`
    from ._tables import module_value
    table_rows = None
    for s_ in in_loop:
        t_ = s_.targets[0] if len(s_.targets) == 1 else None
        if isinstance(t_, ast.Tuple) and [getattr(e_, 'id', None) for e_ in t_.elts] == ['negate_amount', 'abs_amount'] and isinstance(s_.value, ast.Subscript) \
                and isinstance(s_.value.value, ast.Name) and (tv_ := module_value(pf.module, s_.value.value.id)) is not None:
            try:
                table_rows = ast.literal_eval(tv_)
            except (ValueError, SyntaxError):
                table_rows = None

    def tied(flag, sign):
        for s_ in cfg.stmts():
            if isinstance(s_, ast.Assign) and any(isinstance(t, ast.Name) and t.id == flag for t in s_.targets):
                txt = src(s_.value) + ' ' + ' '.join(t for t, tr in cfg.guard_literals(s_) if tr)
                if f"'{sign}'" in txt and not (isinstance(s_.value, ast.Constant) and s_.value.value is False):
                    return True
        return False
    if isinstance(table_rows, dict):
        ok = only_amount and table_rows.get('-') == (True, False) and table_rows.get('+') == (False, True) and all(v_ == (False, False) for k_, v_ in table_rows.items() if k_ not in ('-', '+'))
    else:
        ok = only_amount and tied('negate_amount', '-') and tied('abs_amount', '+')
    ctx.check(ok, 'C18.R2', pf, 'sign-mode', '{-amount} -> negate, {+amount} -> abs, only on the amount field', 'sign prefixes are not mapped to negate/abs on the amount field')
    # which group of the {field} pattern a local of the column loop is read from (1 sign, 2 name, 3 format): `x = match.group(k)[.lower()]` or `a, b, c = match.groups()`
    def group_of(name, depth=0):
        out = set()
        for s_ in ast.walk(lp):
            if not isinstance(s_, ast.Assign) or len(s_.targets) != 1:
                continue
            t = s_.targets[0]
            if isinstance(t, ast.Name) and t.id == name:
                v = s_.value
                lowered = False
                while isinstance(v, ast.Call) and isinstance(v.func, ast.Attribute) and v.func.attr in ('lower', 'strip') and not v.args:
                    lowered = lowered or v.func.attr == 'lower'
                    v = v.func.value
                if isinstance(v, ast.Call) and isinstance(v.func, ast.Attribute) and v.func.attr == 'group' and len(v.args) == 1 and isinstance(v.args[0], ast.Constant):
                    out.add((v.args[0].value, lowered))
                elif isinstance(v, ast.Name) and depth < 3:
                    out |= {(k, lo or lowered) for k, lo in group_of(v.id, depth + 1)}
                else:
                    out.add((None, lowered))
            elif isinstance(t, ast.Tuple) and isinstance(s_.value, ast.Call) and isinstance(s_.value.func, ast.Attribute) and s_.value.func.attr == 'groups':
                for i_, e_ in enumerate(t.elts):
                    if isinstance(e_, ast.Name) and e_.id == name:
                        out.add((i_ + 1, False))
        return out
    # {date:FORMAT}: inside the column loop the date format is written only for the date field and only from the format group
    dsts = [s_ for s_ in ast.walk(lp) if isinstance(s_, ast.Assign) and any(isinstance(t, ast.Name) and t.id == 'date_format' for t in s_.targets)]
    ok = bool(dsts)
    for s_ in dsts:
        v = s_.value
        from_fmt = isinstance(v, ast.Name) and {k for k, _ in group_of(v.id)} == {3} or (
            isinstance(v, ast.Call) and isinstance(v.func, ast.Attribute) and v.func.attr == 'group' and len(v.args) == 1 and isinstance(v.args[0], ast.Constant) and v.args[0].value == 3)
        ok = ok and from_fmt and ("field_name == 'date'", True) in cfg.guard_literals_within(s_, lp)
    ctx.check(ok, 'C18.R2', pf, 'date-format', '{date:FORMAT} sets the date format', 'the date format specifier is not taken from the format group of the date field', dsts[0] if dsts else None)
    keys = {src(s_.targets[0].slice) for s_ in stores}
    ok = bool(keys) and all(k.isidentifier() and group_of(k) == {(2, True)} for k in keys)
    ctx.check(ok, 'C18.R2', pf, 'name-lowered', 'field names are the lower-cased name group', f'the column key {sorted(keys)} is not the lower-cased name group of the pattern')

def _detector_table_form(ctx: Ctx, ad: FuncInfo, afl, hl, hidx: str, cstores, kw) -> bool:
    """The detector written with a table: `for field, patterns in TABLE: if columns[field] is None and <header matches patterns>: columns[field] = idx`
    and `FormatSpec(date_column=columns['date'], …)`.  Returns False when the code is not of that form (the caller then says so)."""
    from ._tables import module_value
    if len(cstores) != 1:
        return False
    st = cstores[0]
    t = st.targets[0] if len(st.targets) == 1 else None
    if not (isinstance(t, ast.Subscript) and isinstance(t.value, ast.Name) and isinstance(t.slice, ast.Name)):
        return False
    cols, fvar = t.value.id, t.slice.id
    inner = [a for a in ancestors(st) if isinstance(a, ast.For) and a is not hl and isinstance(a.target, ast.Tuple) and len(a.target.elts) == 2
             and isinstance(a.target.elts[0], ast.Name) and a.target.elts[0].id == fvar]
    if not inner:
        return False
    it = inner[0].iter
    if isinstance(it, ast.Call) and isinstance(it.func, ast.Attribute) and it.func.attr == 'items' and not it.args:
        it = it.func.value
    tv = it
    if isinstance(it, ast.Name):
        tv = module_value(ad.module, it.id)
        if tv is None:
            loc = [s_ for s_ in ast.walk(ad.node) if isinstance(s_, ast.Assign) and len(s_.targets) == 1 and isinstance(s_.targets[0], ast.Name) and s_.targets[0].id == it.id]
            tv = loc[0].value if len(loc) == 1 else None
    rows = {}
    if isinstance(tv, ast.Dict):
        pairs = list(zip(tv.keys, tv.values))
    elif isinstance(tv, (ast.Tuple, ast.List)) and all(isinstance(r_, (ast.Tuple, ast.List)) and len(r_.elts) == 2 for r_ in tv.elts):
        pairs = [(r_.elts[0], r_.elts[1]) for r_ in tv.elts]
    else:
        return False
    for k_, v_ in pairs:
        if not (isinstance(k_, ast.Constant) and isinstance(k_.value, str) and isinstance(v_, (ast.Tuple, ast.List, ast.Set))
                and all(isinstance(e_, ast.Constant) and isinstance(e_.value, str) for e_ in v_.elts)):
            return False
        rows[k_.value] = [e_.value for e_ in v_.elts]
    g = afl.cfg.guard_literals_within(st, hl)
    first_only = (f'{cols}[{fvar}] is None', True) in g or (f'{fvar} in {cols}', False) in g
    ctx.check(first_only, 'C18.R4', ad, 'detector:first-header-wins', 'a column keeps the first header that matches it', f'{src(st)!r} is not guarded by `{cols}[{fvar}] is None` / `{fvar} not in {cols}`: a later header replaces the column', st)
    want = {'date_column': 'date', 'description_column': 'description', 'amount_column': 'amount', 'location_column': 'location'}
    bad = {k_: kw.get(k_) for k_, f_ in want.items() if kw.get(k_) not in (f"{cols}['{f_}']", f"{cols}.get('{f_}')") or (f_ not in rows)}
    ctx.check(not bad, 'C18.R4', ad, 'detector-mapping', 'detected indices go to the like-named FormatSpec columns', f'detector builds FormatSpec with {bad}')
    for f_ in ('date', 'description', 'amount'):
        ok = f_ in rows and f_ in rows[f_] and not any(f_ in rows[o_] for o_ in rows if o_ != f_ and o_ in ('date', 'description', 'amount'))
        ctx.check(ok, 'C18.R4', ad, f'detector:{f_}', f"the '{f_}' column is found by the {f_} header words", f"the header words listed for '{f_}' are {rows.get(f_)}: not the {f_} words", st)
    return True


def r3_r4(ctx: Ctx, pf: FuncInfo) -> None:
    proj = ctx.proj
    ci = proj.func('commands.inspect.cmd_inspect')
    # reader pattern literal
    pat = None
    for s in ast.walk(pf.node):
        if isinstance(s, ast.Assign) and src(s.targets[0]) == 'field_pattern' and isinstance(s.value, ast.Call) and s.value.args and isinstance(s.value.args[0], ast.Constant):
            pat = s.value.args[0].value
    if pat is None:
        # precompiled at module level: the pattern whose .match() is applied to each part of the format string
        from ._tables import fold_str, module_value
        for c_ in ast.walk(pf.node):
            if isinstance(c_, ast.Call) and isinstance(c_.func, ast.Attribute) and c_.func.attr in ('match', 'fullmatch') and isinstance(c_.func.value, ast.Name):
                mv = module_value(pf.module, c_.func.value.id)
                if isinstance(mv, ast.Call) and dotted(mv.func) == 're.compile' and mv.args:
                    pat = fold_str(mv.args[0], pf.module)
    if pat is None:
        ctx.unknown('C18.R3', pf, 'field_pattern literal not found')
    try:
        rx = re.compile(pat)
    except re.error as e:
        ctx.fail('C18.R3', pf, 'reader-pattern', f'field pattern literal does not compile: {e}')
        return
    reserved = set()
    mi = proj.module('format_parser')
    for node in mi.globals_assigned.get('RESERVED_NAMES', []):
        if isinstance(node.value, ast.Set):
            reserved = {e.value for e in node.value.elts if isinstance(e, ast.Constant)}
    # detector date format literal
    ad = proj.func('parsers.auto_detect_csv_format')
    dfmt = None
    for c in ast.walk(ad.node):
        if isinstance(c, ast.Call) and call_name(c) == 'FormatSpec':
            for k in c.keywords:
                if k.arg == 'date_format' and isinstance(k.value, ast.Constant):
                    dfmt = k.value.value
    # every date format the detector can hand out: the literal itself, or - when the format is chosen at run time - every strptime-style
    # literal inside the detector (nested helpers included)
    cands = [dfmt] if dfmt is not None else sorted({n.value for n in ast.walk(ad.node) if isinstance(n, ast.Constant) and isinstance(n.value, str) and '%' in n.value
                                                    and re.search(r'%[a-zA-Z]', n.value) and len(n.value) < 24})
    cands = [c for c in cands if re.fullmatch(r'[%A-Za-z0-9 ,./:\-]+', c)]
    if not cands:
        ctx.unknown('C18.R3', ad, 'detector date format literal not found')
    for c_ in cands:
        ctx.check(',' not in c_ and '}' not in c_, 'C18.R3', ad, 'detector-date-format' if dfmt is not None else f'detector-date-format:{c_}',
                  f'detector date format {c_!r} contains neither a comma nor a brace',
                  f'detector date format {c_!r} would be split / cut by the reader: the suggested `{{date:{c_}}}` is not accepted by parse_format_string (it splits the format string on commas)')
    if dfmt is None:
        dfmt = cands[0]
    # the format the suggestion prints is the detector's: if cmd_inspect (or a helper of its module) overrides <spec>.date_format, every
    # strptime-style literal of that module that sits in a table or is returned is a possible value and must survive the comma split too
    cim = ci.module
    overrides = [(g, a_) for g in proj.all_funcs() if g.module is cim for a_ in all_nodes(g.node)
                 if isinstance(a_, (ast.Assign, ast.AugAssign, ast.AnnAssign)) and any(
                     isinstance(t, ast.Attribute) and t.attr == 'date_format' for t in (a_.targets if isinstance(a_, ast.Assign) else [a_.target]))]
    overrides += [(g, c_) for g in proj.all_funcs() if g.module is cim for c_ in all_nodes(g.node)
                  if isinstance(c_, ast.Call) and call_name(c_) in ('setattr', 'replace', '_replace') and any(
                      isinstance(x, ast.Constant) and x.value == 'date_format' for x in c_.args) or isinstance(c_, ast.Call) and any(k.arg == 'date_format' for k in c_.keywords)]
    if not overrides:
        ctx.ok('C18.R3', ci, "the suggestion's date format is the detector's: no store into <spec>.date_format in the inspect module", construct='date-format-provenance')
    for g, a_ in overrides:
        val = getattr(a_, 'value', None)
        if isinstance(val, ast.Constant) and isinstance(val.value, str):
            lits = [(val.value, val)]
        else:
            lits = []
            for h in [x for x in proj.all_funcs() if x.module is cim]:
                for n in all_nodes(h.node):
                    if isinstance(n, ast.Constant) and isinstance(n.value, str) and re.search(r'%[a-zA-Z]', n.value) and len(n.value) < 24 \
                            and re.fullmatch(r'[%A-Za-z0-9 ,./:\-]+', n.value):
                        par = next(iter(ancestors(n)), None)
                        if isinstance(par, (ast.Tuple, ast.List, ast.Dict, ast.Set, ast.Return, ast.Assign)):
                            lits.append((n.value, n))
        if not lits:
            ctx.unknown('C18.R3', g, f'`{src(a_)[:60]}` overrides the date format with a value whose literals were not found')
            continue
        bad = [(v, n) for v, n in lits if ',' in v or '}' in v]
        ctx.check(not bad, 'C18.R3', g, 'date-format-provenance',
                  f'`{src(a_)[:60]}` (line {a_.lineno}) overrides the date format; all {len(lits)} candidate literals are comma- and brace-free',
                  f'`{src(a_)[:60]}` (line {a_.lineno}) replaces the detector\'s date format by one observed in the data, and the candidate '
                  f'{bad[0][0]!r} (line {bad[0][1].lineno}) contains a comma / brace: the suggested `{{date:{bad[0][0]}}}` is split by parse_format_string and rejected, '
                  f'so the suggestion does not round-trip for such files' if bad else '', a_)
    # suggestion loop
    # for i in range(<last column> + 1): the bound is a local computed with max(…) over the detected columns (whatever it is called)
    loops = []
    for s in ast.walk(ci.node):
        if isinstance(s, ast.For) and isinstance(s.target, ast.Name) and isinstance(s.iter, ast.Call) and call_name(s.iter) == 'range' and len(s.iter.args) == 1 \
                and isinstance(s.iter.args[0], ast.BinOp) and isinstance(s.iter.args[0].op, ast.Add) and isinstance(s.iter.args[0].left, ast.Name) \
                and isinstance(s.iter.args[0].right, ast.Constant) and s.iter.args[0].right.value == 1:
            bname = s.iter.args[0].left.id
            bdefs = [a_ for a_ in ast.walk(ci.node) if isinstance(a_, ast.Assign) and len(a_.targets) == 1 and isinstance(a_.targets[0], ast.Name) and a_.targets[0].id == bname]
            if bdefs and any(isinstance(c_, ast.Call) and call_name(c_) == 'max' for a_ in bdefs for c_ in ast.walk(a_.value)):
                loops.append((s, bname))
    table_arms = None
    if len(loops) != 1:
        # the same thing with a table: T[spec.X_column] = '{x}' …  and  cols = [T.get(i, '{_}') for i in range(<bound> + 1)]
        for s in ast.walk(ci.node):
            comp = s.value if isinstance(s, ast.Assign) and isinstance(s.value, ast.ListComp) and len(s.value.generators) == 1 else None
            if comp is None or not (isinstance(comp.elt, ast.Call) and isinstance(comp.elt.func, ast.Attribute) and comp.elt.func.attr == 'get' and isinstance(comp.elt.func.value, ast.Name)
                                    and len(comp.elt.args) == 2 and isinstance(comp.generators[0].target, ast.Name) and src(comp.elt.args[0]) == comp.generators[0].target.id):
                continue
            it = comp.generators[0].iter
            if not (isinstance(it, ast.Call) and call_name(it) == 'range' and len(it.args) == 1 and isinstance(it.args[0], ast.BinOp) and isinstance(it.args[0].left, ast.Name)
                    and isinstance(it.args[0].right, ast.Constant) and it.args[0].right.value == 1):
                continue
            tname, ivar_ = comp.elt.func.value.id, comp.generators[0].target.id
            stores_ = [a_ for a_ in ast.walk(ci.node) if isinstance(a_, ast.Assign) and len(a_.targets) == 1 and isinstance(a_.targets[0], ast.Subscript)
                       and isinstance(a_.targets[0].value, ast.Name) and a_.targets[0].value.id == tname]
            if len(stores_) < 3:
                continue
            table_arms = []
            for a_ in stores_:
                test_ = ast.Compare(left=ast.Name(id=ivar_, ctx=ast.Load()), ops=[ast.Eq()], comparators=[a_.targets[0].slice])
                call_ = ast.Expr(value=ast.Call(func=ast.Attribute(value=ast.Name(id='cols', ctx=ast.Load()), attr='append', ctx=ast.Load()), args=[a_.value], keywords=[]))
                table_arms.append((ast.fix_missing_locations(ast.copy_location(test_, a_)), [ast.fix_missing_locations(ast.copy_location(call_, a_))]))
            dflt = ast.Expr(value=ast.Call(func=ast.Attribute(value=ast.Name(id='cols', ctx=ast.Load()), attr='append', ctx=ast.Load()), args=[comp.elt.args[1]], keywords=[]))
            table_arms.append((None, [ast.fix_missing_locations(ast.copy_location(dflt, s))]))
            fake = ast.For(target=ast.Name(id=ivar_, ctx=ast.Store()), iter=it, body=[ast.Pass()], orelse=[])
            loops = [(ast.fix_missing_locations(ast.copy_location(fake, s)), it.args[0].left.id)]
            break
    if len(loops) != 1:
        ctx.unknown('C18.R4', ci, 'suggestion loop not found in cmd_inspect')
    lp, bound_name = loops[0]
    ivar = lp.target.id
    arms = []
    cur = lp.body[0] if lp.body and isinstance(lp.body[0], ast.If) else None
    while isinstance(cur, ast.If):
        arms.append((cur.test, cur.body))
        if len(cur.orelse) == 1 and isinstance(cur.orelse[0], ast.If):
            cur = cur.orelse[0]
        else:
            arms.append((None, cur.orelse))
            cur = None
    if table_arms is not None:
        arms = table_arms
    if len(arms) < 4:
        ctx.unknown('C18.R4', ci, f'{len(arms)} arms in the suggestion loop')
    seen = set()
    for test, body in arms:
        app = [c for s in body for c in ast.walk(s) if isinstance(c, ast.Call) and src(c.func) == 'cols.append']
        if len(app) == 1:
            tok = app[0].args[0]
        else:
            # the arm only chooses the token (T = '{…}') and one cols.append(T) after the chain emits it
            asg = [s for s in body if isinstance(s, ast.Assign) and len(s.targets) == 1 and isinstance(s.targets[0], ast.Name)]
            tail = [c for s in lp.body[1:] for c in ast.walk(s) if isinstance(c, ast.Call) and src(c.func) == 'cols.append' and c.args and isinstance(c.args[0], ast.Name)]
            if len(asg) != 1 or len(body) != 1 or len(tail) != 1 or tail[0].args[0].id != asg[0].targets[0].id:
                ctx.unknown('C18.R4', ci, 'suggestion arm without a single cols.append')
            tok = asg[0].value
            app = [tail[0]]
        # token text with the date format hole filled by the detector literal
        if isinstance(tok, ast.JoinedStr):
            text = ''
            for v in tok.values:
                if isinstance(v, ast.Constant):
                    text += v.value
                elif isinstance(v, ast.FormattedValue):
                    hole = src(v.value)
                    text += dfmt if hole == 'spec.date_format' else '<?>'
        elif isinstance(tok, ast.Constant):
            text = tok.value
        elif isinstance(tok, ast.Call) and isinstance(tok.func, ast.Attribute) and tok.func.attr == 'format' and isinstance(tok.func.value, ast.Constant) \
                and isinstance(tok.func.value.value, str) and not tok.keywords:
            # '{{date:{}}}'.format(spec.date_format): the same text with the hole filled by the detector literal
            fills = [dfmt if src(a_) == 'spec.date_format' else '<?>' for a_ in tok.args]
            try:
                text = tok.func.value.value.format(*fills)
            except (IndexError, KeyError, ValueError):
                ctx.unknown('C18.R3', ci, f'token expression {src(tok)!r}')
        else:
            ctx.unknown('C18.R3', ci, f'token expression {src(tok)!r}')
        m = rx.fullmatch(text)
        name = m.group(2).lower() if m else None
        ok = m is not None and (name in reserved)
        ctx.check(ok, 'C18.R3', ci, f'token:{text}', f'{text!r} is accepted by the format parser as field {name!r}',
                  f'inspect emits {text!r}, which the format parser ' + ('does not match' if m is None else f'reads as the custom capture {name!r}'), app[0])
        if test is None:
            ctx.check(name in ('_', '*'), 'C18.R4', ci, 'arm:else', 'other columns are emitted as skip tokens', f'other columns are emitted as {text!r}', app[0])
            continue
        t = src(test)
        col = None
        mm = re.search(rf'{ivar} == spec\.(\w+)_column', t)
        if mm:
            col = mm.group(1)
        seen.add(col)
        ok = col is not None and name == col
        if col == 'date':
            ok = ok and m.group(3) == dfmt
        ctx.check(ok, 'C18.R4', ci, f'arm:{col}', f'column spec.{col}_column -> token {{{name}}}', f'`{t}` emits {text!r}: the suggested string selects a different column than inspect reported', app[0])
    ctx.check({'date', 'description', 'amount'} <= seen, 'C18.R4', ci, 'arms-total', 'date, description and amount columns each get their token', f'suggestion loop covers only {sorted(x for x in seen if x)}')
    # join separator
    joins = [s for s in ast.walk(ci.node) if isinstance(s, ast.Assign) and isinstance(s.value, ast.Call) and call_name(s.value) == 'join' and s.value.args and src(s.value.args[0]) == 'cols']
    ok = bool(joins) and isinstance(joins[0].value.func.value, ast.Constant) and ',' in joins[0].value.func.value.value and joins[0].value.func.value.value.strip() == ',' \
        and src(joins[0].value.args[0]) == 'cols'
    ctx.check(ok, 'C18.R3', ci, 'separator', 'tokens are joined with a comma (the reader splits on commas and strips blanks)', f'tokens are joined by {src(joins[0].value.func.value) if joins else None!r}')
    # max_col covers every detected column
    mc = [s for s in ast.walk(ci.node) if isinstance(s, ast.Assign) and src(s.targets[0]) == bound_name]
    cifl = get_flow(proj, ci)
    # by provenance: the bound derives from the three required columns (directly in the max(), or through a list of the mapped columns)
    b_atoms = set()
    for m_ in mc:
        b_atoms |= cifl.atoms(m_.value, m_)
    ok = bool(mc) and all(f'attr:spec.{k}_column' in b_atoms or any(k2 in src(m_.value) for m_ in mc for k2 in (f'spec.{k}_column',)) for k in ('date', 'description', 'amount'))
    ctx.check(ok, 'C18.R4', ci, 'range', 'the suggestion covers columns 0..max(detected columns)', 'the suggestion range does not cover all detected columns')
    # … and stays that wide: a later adjustment (the optional location column) can only widen it
    for later in mc[1:]:
        v_ = later.value
        widen = isinstance(v_, ast.Call) and call_name(v_) == 'max' and any(isinstance(a_, ast.Name) and a_.id == bound_name for a_ in v_.args)
        ctx.check(widen, 'C18.R4', ci, 'range:only-widened', f'{src(later)[:50]} keeps the columns already covered', f'{src(later)[:60]!r} replaces the range instead of widening it: with the location '
                  f'column in front of the description or amount column the suggested string stops short of a required field', later)
    # printed column lines read the same attributes
    prints = ' '.join(src(c) for c in ast.walk(ci.node) if isinstance(c, ast.Call) and call_name(c) == 'print')
    ok = all(f'{lbl} column: {{spec.{a}_column}}' in prints for lbl, a in (('Date', 'date'), ('Description', 'description'), ('Amount', 'amount')))
    ctx.check(ok, 'C18.R4', ci, 'reported-columns', 'the reported Date/Description/Amount columns are spec.date/description/amount_column', 'the printed column lines read other attributes')
    # detector: header index -> column attribute of the same name
    kw = {}
    for c in ast.walk(ad.node):
        if isinstance(c, ast.Call) and call_name(c) == 'FormatSpec':
            kw = {k.arg: src(k.value) for k in c.keywords}
    # one header names one column: within one turn of the header loop at most one column variable / table entry receives the index.  (Two columns
    # with the same index make inspect report overlapping columns and suggest a string that lacks one of the required fields.)
    afl = get_flow(proj, ad)
    hloops = [s_ for s_ in afl.cfg.stmts() if isinstance(s_, ast.For) and isinstance(s_.iter, ast.Call) and call_name(s_.iter) == 'enumerate'
              and isinstance(s_.target, ast.Tuple) and len(s_.target.elts) == 2 and isinstance(s_.target.elts[0], ast.Name)]
    if len(hloops) != 1:
        ctx.unknown('C18.R4', ad, f'{len(hloops)} enumerate loops over the header row in the detector')
    hl = hloops[0]
    hidx = hl.target.elts[0].id
    cstores = [s_ for s_ in afl.cfg.stmts() if isinstance(s_, ast.Assign) and isinstance(s_.value, ast.Name) and s_.value.id == hidx and any(a is hl for a in ancestors(s_))]
    if len(cstores) < 1:
        ctx.unknown('C18.R4', ad, 'no store of the header index found in the detector loop')
    def later_same_turn(a, b) -> bool:
        g_ = afl.cfg
        return any(g_.reachable_without(m_, g_.nid(b), {g_.nid(hl)}, skip_exc=True) for m_ in g_.g.successors(g_.nid(a)) if m_ != g_.nid(hl))
    clash = [(a, b) for a in cstores for b in cstores if later_same_turn(a, b)]
    ctx.check(not clash, 'C18.R4', ad, 'detector:one-column-per-header', 'a header gives its index to at most one column',
              (f'after {src(clash[0][0])!r} the same header can still reach {src(clash[0][1])!r}: one header is claimed by two columns (`Payment Date` is both the date and the amount), '
               f'inspect reports overlapping columns and the suggested string lacks a required field') if clash else '', clash[0][0] if clash else None)
    adbound = {n.id for n in ast.walk(ad.node) if isinstance(n, ast.Name) and isinstance(n.ctx, ast.Store)}
    if not {'date_col', 'desc_col', 'amount_col'} <= adbound and _detector_table_form(ctx, ad, afl, hl, hidx, cstores, kw):
        return
    if not {'date_col', 'desc_col', 'amount_col'} <= adbound:
        # the detector does not keep one variable per column any more (a table of header patterns filling a dict, say)
        ctx.unknown('C18.R4', ad, 'the detector no longer keeps date_col / desc_col / amount_col variables')
    want = {'date_column': 'date_col', 'description_column': 'desc_col', 'amount_column': 'amount_col', 'location_column': 'location_col'}
    bad = {k: kw.get(k) for k, v in want.items() if kw.get(k) != v}
    ctx.check(not bad, 'C18.R4', ad, 'detector-mapping', 'detected indices go to the like-named FormatSpec columns', f'detector builds FormatSpec with {bad}')
    for var, pats in (('date_col', 'DATE_PATTERNS'), ('desc_col', 'DESC_PATTERNS'), ('amount_col', 'AMOUNT_PATTERNS')):
        ok = any(isinstance(s, ast.Assign) and src(s.targets[0]) == var and src(s.value) == 'idx' and any(pats in src(a.test) for a in ancestors(s) if isinstance(a, ast.If))
                 for s in ast.walk(ad.node))
        ctx.check(ok, 'C18.R4', ad, f'detector:{var}', f'{var} = index of the header matching {pats}', f'{var} is not the index of the {pats} header')
