"""C02 — tags are the union over all matching rules; tag-only rules never categorize."""
from __future__ import annotations

import ast
from typing import List, Optional, Set

from ..callgraph import all_nodes
from ..cfg import target_names
from ..core import Ctx
from ..flow import call_name, get_flow
from ..project import AnalysisError, FuncInfo, ancestors, dotted, parent, root_name, src
from ._deciders import Decider, find_engine_decider, find_legacy_decider, _shape

LEVEL = 'other'
GROW = {'add', 'update', 'extend', 'append'}
SHRINK = {'clear', 'pop', 'remove', 'discard', 'difference_update', 'intersection_update'}
RESOLVERS = {'_resolve_tags', '_resolve_dynamic_tags'}


def check(ctx: Ctx) -> None:
    proj = ctx.proj
    ctx.rule('C02.R1', 'every rule is evaluated and contributes: no break/return in the decider loop, continue only on failure / no-match; tag collection depends on the match flag only', floor=5)
    ctx.rule('C02.R2', 'monotone accumulation: the tag accumulator only grows, is never reassigned or cleared, and is published in both modes', floor=2)
    ctx.rule('C02.R3', 'tag normal form: every tag added is lower-cased and non-empty after stripping', floor=5)
    ctx.rule('C02.R4', 'tag-only neutrality: every merchant / category / subcategory winner is chosen among rules that have a category', floor=4)
    ctx.rule('C02.R5', 'tags survive every exit of normalize_merchant and reach the transaction dict in all parsers', floor=6)
    eng = find_engine_decider(proj)
    leg = find_legacy_decider(proj)
    acc = {}
    for d in (eng, leg):
        acc[d.kind] = r1_r2(ctx, d)
    r3_normal_form(ctx)
    from .c07 import engine_memo_rule
    engine_memo_rule(ctx, 'C02.R2')
    r4_neutrality(ctx, eng)
    r5_survive(ctx, eng, leg, acc)


def _tag_accumulators(d: Decider) -> Set[str]:
    """Pre-loop containers grown in the loop with values derived from a tag resolver."""
    pre = d.pre_loop_names()
    out = set()
    for n in ast.walk(d.loop):
        if isinstance(n, ast.Call) and isinstance(n.func, ast.Attribute) and n.func.attr in GROW and isinstance(n.func.value, ast.Name) \
                and n.func.value.id in pre and n.args:
            a = d.fl.atoms(n.args[0], n)
            if a & {f'call:{r}' for r in RESOLVERS}:
                out.add(n.func.value.id)
    return out


def r1_r2(ctx: Ctx, d: Decider) -> Set[str]:
    cfg = d.cfg
    accs = _tag_accumulators(d)
    if not accs:
        ctx.unknown('C02.R1', d.fi, 'no tag accumulator (pre-loop container grown from a tag resolver) found in the rule loop', d.loop)
    # break / return / continue discipline
    n_exits = 0
    for s in cfg.stmts():
        if not d.in_loop(s):
            continue
        inner = [a for a in ancestors(s) if isinstance(a, (ast.For, ast.While))]
        if isinstance(s, (ast.Break, ast.Return)) and inner and inner[0] is d.loop:
            n_exits += 1
            ctx.fail('C02.R1', d.fi, f'early-exit:{type(s).__name__}', f'{type(s).__name__.lower()} in the rule loop: tags of later matching rules are lost', s)
        if isinstance(s, ast.Continue) and inner and inner[0] is d.loop:
            in_handler = any(isinstance(a, ast.ExceptHandler) for a in ancestors(s))
            g = d.guard_texts(s)
            no_match = any((t in d.flags and not truth) for t, truth in g)
            ctx.check(in_handler or no_match, 'C02.R1', d.fi, f'continue:{"handler" if in_handler else "no-match" if no_match else "other"}',
                      'continue only after an evaluation failure or a non-match',
                      f'`continue` under {sorted(g)}: a matching rule is skipped before its tags are collected', s)
    if n_exits == 0:
        ctx.ok('C02.R1', d.fi, 'no break/return in the rule loop', d.loop, 'early-exit:none')
    # after the loop the collected tags leave with every result: a `return (…, None)` (no match info, hence no tags) is only reached when nothing was collected
    if d.kind == 'legacy':
        carriers = [n for n in ast.walk(d.fi.node) if isinstance(n, ast.Dict) and any(isinstance(k, ast.Constant) and k.value == 'tags' for k in n.keys)]
        tvars = {v.id for n in carriers for k, v in zip(n.keys, n.values) if isinstance(k, ast.Constant) and k.value == 'tags' and isinstance(v, ast.Name)}
        bare = [r for r in cfg.stmts() if isinstance(r, ast.Return) and not d.in_loop(r) and isinstance(r.value, ast.Tuple) and r.value.elts
                and isinstance(r.value.elts[-1], ast.Constant) and r.value.elts[-1].value is None and r.lineno > d.loop.lineno]
        if tvars and bare:
            for r in bare:
                g = d.guard_texts(r)
                ok = any((t, False) in g for t in tvars)
                ctx.check(ok, 'C02.R1', d.fi, 'tags-leave-with-result', 'a result without match info is returned only when no tag was collected',
                          f'{src(r)[:60]!r} is reached under {sorted(g)}: a transaction matched by tag-only rules alone loses the tags collected for it', r)
    # tag collection statements
    grows = []
    for n in ast.walk(d.loop):
        if isinstance(n, ast.Call) and isinstance(n.func, ast.Attribute) and isinstance(n.func.value, ast.Name) and n.func.value.id in accs:
            if n.func.attr in GROW:
                grows.append(n)
            elif n.func.attr in SHRINK:
                ctx.fail('C02.R2', d.fi, f'shrink:{n.func.value.id}.{n.func.attr}', f'{src(n)[:50]!r} removes tags already collected', n)
    if not grows:
        ctx.unknown('C02.R1', d.fi, 'tag accumulator is never grown')
    for n in grows:
        st = d.fl.stmt_of(n)
        g = d.cfg.guard_literals_within(st, d.loop)
        matched = d.matched_guard(st)
        extra = []
        for text, truth in g:
            if text in d.flags:
                continue
            if truth and text in ('tags', 'resolved_tags', f'{d.rule_var}.tags'):
                continue          # the rule's own tag list is non-empty
            if any(text == f'{x} not in {a}' and truth for a in accs for x in target_names_in(n)):
                continue          # idempotence guard
            if text.startswith('tag not in ') and truth:
                continue
            if text.startswith('tag in ') and not truth:
                continue
            if any(text == f'{x} in {a}' and not truth for a in accs for x in target_names_in(n)) or (text.startswith('tag in ') and not truth):
                continue          # the same idempotence guard spelled `if tag in acc: continue`
            extra.append((text, truth))
        ok = matched and not extra
        why = 'not control-dependent on the match flag' if not matched else \
            f'additionally depends on {extra}: tags of some matching rules are dropped (winner / mode / rule kind must not matter)'
        ctx.check(ok, 'C02.R1', d.fi, f'collect:{_shape(n.func.value)}.{n.func.attr}', 'tags are collected for every matching rule, whatever the winner or mode', f'{src(n)[:50]!r}: {why}', n)
        # the value collected is this rule's resolved tags
        a = d.fl.atoms(n.args[0], n) if n.args else set()
        from_rule = bool(a & {f'call:{r}' for r in RESOLVERS})
        ctx.check(from_rule, 'C02.R1', d.fi, f'collect-value:{_shape(n.func.value)}', 'collected value is the rule\'s resolved tag set',
                  f'{src(n)[:50]!r} does not add the resolved tags of the current rule', n)
    # the resolver is called for the current rule with the transaction
    for n in ast.walk(d.loop):
        if isinstance(n, ast.Call) and call_name(n) in RESOLVERS:
            # not inside a conditional expression / short-circuit (that is a hidden extra condition)
            cond = [a for a in ancestors(n) if isinstance(a, (ast.IfExp, ast.BoolOp)) and any(x is d.loop for x in ancestors(a))]
            gs = d.cfg.guard_literals_within(d.fl.stmt_of(n), d.loop)
            extra = [(t, tr) for t, tr in gs if t not in d.flags and not (tr and t in ('tags', f'{d.rule_var}.tags'))]
            ctx.check(not cond and not extra and d.matched_guard(d.fl.stmt_of(n)), 'C02.R1', d.fi, f'resolve-unconditional:{call_name(n)}',
                      'tags are resolved for every matching rule',
                      f'{src(d.fl.stmt_of(n))[:70]!r}: tag resolution depends on more than the match flag ({[src(c)[:40] for c in cond] or extra})', n)
            args = [src(x) for x in n.args]
            if d.kind == 'engine':
                ok = args[:2] == [d.rule_var, d.fi.params[1]]
            else:
                ok = args[:2] == ['tags', 'transaction']
            ctx.check(ok, 'C02.R1', d.fi, f'resolve-args:{call_name(n)}', f'{call_name(n)}({", ".join(args[:2])}, …)',
                      f'{src(n)[:60]!r}: tags resolved for the wrong rule / transaction', n)
    # R2: never reassigned after initialisation; publication not under a mode branch
    for s in cfg.stmts():
        if isinstance(s, (ast.Assign, ast.AugAssign, ast.AnnAssign)):
            targets = s.targets if isinstance(s, ast.Assign) else [s.target]
            for t in targets:
                if isinstance(t, ast.Name) and t.id in accs:
                    if d.in_loop(s) or not cfg.dominates(s, d.loop):
                        ctx.fail('C02.R2', d.fi, f'reassign:{t.id}', f'{src(s)[:50]!r} replaces the tag accumulator (tags collected so far are lost)', s)
                    else:
                        fresh = isinstance(getattr(s, 'value', None), (ast.List, ast.Set, ast.Call, ast.Dict))
                        ctx.check(fresh, 'C02.R2', d.fi, f'init:{t.id}', f'{t.id} starts empty before the loop', f'{src(s)[:50]!r}', s)
    return accs


def target_names_in(call: ast.Call) -> List[str]:
    return [n.id for a in call.args for n in ast.walk(a) if isinstance(n, ast.Name)]


def _is_stripped_value(val) -> bool:
    if isinstance(val, ast.Call) and isinstance(val.func, ast.Attribute) and val.func.attr == 'strip':
        return True
    if isinstance(val, ast.Constant) and val.value == '':
        return True
    if isinstance(val, ast.IfExp):
        return _is_stripped_value(val.body) and _is_stripped_value(val.orelse)
    return False


# --------------------------------------------------------------------------- R3
def r3_normal_form(ctx: Ctx) -> None:
    proj = ctx.proj
    # the text of a tags: item reaches the resolver as written (stripped only): a `{expression}` item is case-sensitive source text
    # (string literals, regex classes such as \S / \D), so the loader must not fold its case; plain tags are lower-cased by the resolver
    pf = proj.func('merchant_engine.MerchantEngine.parse')
    pfl = get_flow(proj, pf)
    tag_sets = {src(s.value) for s in ast.walk(pf.node) if isinstance(s, ast.Assign) and src(s.targets[0]) == "current_rule['tags']" and isinstance(s.value, ast.Name)}
    n_items = 0
    for n in all_nodes(pf.node):
        if isinstance(n, ast.Call) and isinstance(n.func, ast.Attribute) and n.func.attr in ('add', 'append') and isinstance(n.func.value, ast.Name) and n.func.value.id in tag_sets and n.args:
            n_items += 1
            ops = {o for _l, os_ in pfl.leaf_paths(n.args[0], n) for o in os_}
            folds = sorted(o for o in ops if o in ('call:lower', 'call:upper', 'call:casefold', 'call:title', 'call:capitalize', 'call:swapcase'))
            if folds and any("'{'" in t for t, _tr in pfl.cfg.guard_literals(pfl.stmt_of(n))):
                folds = []          # folding restricted to items that are not {expressions}
            ctx.check(not folds, 'C02.R3', pf, 'tags-item-as-written', 'a tags: item is stored as written (stripped only)',
                      f'a tags: item passes through {folds} when the file is loaded: the source of a {{expression}} tag is rewritten (e.g. the regex class \\S becomes \\s), '
                      f'so the expression no longer yields its value and the tag is silently missing', n)
    ctx.need(n_items >= 1, 'C02.R3: no tags: item store found in MerchantEngine.parse')
    # … and the list itself is the text after `tags:`: nothing is cut out of it before it is split into items (a `#` or a quote may well belong to a
    # {expression} tag or to a plain tag such as `Project #7`)
    rew = [s_ for s_ in pfl.cfg.stmts() if isinstance(s_, ast.Assign) and any(isinstance(t_, ast.Name) and t_.id == 'value' for t_ in s_.targets)
           and any(t == "key == 'tags'" and tr for t, tr in pfl.cfg.guard_literals(s_))]
    for s_ in rew:
        ctx.fail('C02.R3', pf, 'tags-list-as-written', f'{src(s_)[:70]!r}: the text of the tags: line is rewritten before it is split into items: an item that contains what is cut '
                 f'(`{{extract(description, "ORDER #(\\d+)")}}`, `Project #7`) is truncated and the items after it are lost', s_)
    if not rew:
        ctx.ok('C02.R3', pf, 'the tags: value is split into items as written', construct='tags-list-as-written')
    for qn in ('merchant_engine.MerchantEngine._resolve_tags', 'merchant_utils._resolve_dynamic_tags'):
        f = proj.func(qn)
        fl = get_flow(proj, f)
        adds = [n for n in all_nodes(f.node) if isinstance(n, ast.Call) and isinstance(n.func, ast.Attribute) and n.func.attr in ('add', 'append')
                and isinstance(n.func.value, ast.Name) and n.func.value.id == 'resolved']
        if len(adds) < 2:
            ctx.unknown('C02.R3', f, f'{len(adds)} tag additions found (static and dynamic arms expected)')
        # a value that is handed over by a generator of the package (`for text in _tag_values(value): resolved.add(text)`) is judged where it is
        # produced: every `yield X` of that generator is held to the same standard as an add
        work = []
        for n in adds:
            v = n.args[0]
            gen = None
            low_here = isinstance(v, ast.Call) and isinstance(v.func, ast.Attribute) and v.func.attr == 'lower' and not v.args
            core = v.func.value if low_here else v
            if isinstance(core, ast.Name):
                for a_ in ancestors(n):
                    if isinstance(a_, ast.For) and isinstance(a_.target, ast.Name) and a_.target.id == core.id and isinstance(a_.iter, ast.Call):
                        fn_ = a_.iter.func
                        cand = None
                        if isinstance(fn_, ast.Name):
                            r_ = proj.resolve_name(f.module, fn_.id)
                            cand = r_[1] if r_ and r_[0] == 'func' else None
                        elif isinstance(fn_, ast.Attribute) and isinstance(fn_.value, ast.Name) and f.cls is not None and fn_.value.id in ('self', 'cls', f.cls.name):
                            cand = f.cls.methods.get(fn_.attr)
                        if cand is not None and any(isinstance(y, ast.Yield) for y in ast.walk(cand.node)):
                            gen = cand
            if gen is None:
                work.append((f, fl, n, v, False))
            else:
                gfl_ = get_flow(proj, gen)
                for y in [y for y in ast.walk(gen.node) if isinstance(y, ast.Yield) and y.value is not None]:
                    work.append((gen, gfl_, y, y.value, low_here))
        for f, fl, n, v, lowered_by_consumer in work:
            label = f'add:{src(v)}'
            lowered = isinstance(v, ast.Call) and isinstance(v.func, ast.Attribute) and v.func.attr == 'lower' and not v.args
            if not lowered and not lowered_by_consumer:
                ctx.fail('C02.R3', f, label, f'{src(n)!r}: tag is not lower-cased', n)
                continue
            inner = v.func.value if lowered else v
            g = fl.cfg.guard_literals(fl.stmt_of(n))
            if isinstance(inner, ast.Name):
                # inner must be a stripped value and tested for truthiness
                stripped = False
                for dnode in fl.cfg.defs_reaching(fl.stmt_of(n), inner.id):
                    if dnode == 'param':
                        continue
                    ds = fl.cfg.stmt[dnode]
                    val = getattr(ds, 'value', None)
                    if _is_stripped_value(val):
                        stripped = True
                    elif isinstance(ds, ast.For):
                        # a loop over a collection every element of which is a stripped value (`for s in [str(v).strip()]`, `for s in (x.strip() … for x in xs)`)
                        def elems(e, depth=0):
                            if isinstance(e, (ast.List, ast.Tuple, ast.Set)):
                                return list(e.elts)
                            if isinstance(e, (ast.GeneratorExp, ast.ListComp, ast.SetComp)):
                                return [e.elt]
                            if isinstance(e, ast.Name) and depth < 2:
                                out_ = []
                                for d2 in fl.cfg.defs_reaching(ds, e.id):
                                    v2 = getattr(fl.cfg.stmt.get(d2), 'value', None) if d2 != 'param' else None
                                    sub = elems(v2, depth + 1) if v2 is not None else None
                                    if sub is None:
                                        return None
                                    out_ += sub
                                return out_ or None
                            return None
                        es = elems(ds.iter)
                        if es and all(_is_stripped_value(x) for x in es):
                            stripped = True
                    else:
                        # `for tag in …: tag = tag.strip()` – the loop variable definition is overwritten by the strip
                        pass
                nonempty = (inner.id, True) in g
                ctx.check(stripped and nonempty, 'C02.R3', f, label, f'{src(v)}: stripped, tested non-empty, lower-cased',
                          f'{src(n)!r}: ' + ('value is not stripped before the test' if not stripped else f'no non-emptiness test of {inner.id} on this path'), n)
            else:
                # e.g. str(item).strip().lower(): the emptiness test (if any) is on the unstripped value
                has_strip = any(isinstance(x, ast.Call) and isinstance(x.func, ast.Attribute) and x.func.attr == 'strip' for x in ast.walk(inner))
                ctx.fail('C02.R3', f, label,
                         f'{src(n)!r}: the value is ' + ('stripped inside the expression, so the enclosing test sees the unstripped value' if has_strip else 'not stripped') +
                         ': a whitespace-only item yields the empty tag \'\'', n)


def candidate_conds(d, s, cand):
    """What every candidate of the selection statement s is known to satisfy: the conjuncts of the comprehension's conditions (`a and b` gives
    a, b; `a or b` gives nothing about a or b), also of the list the candidates are drawn from when that was itself filtered (computed once,
    then narrowed per field).  None when the candidate list is not a comprehension."""
    from ..cfg import conj_atoms
    filt = None
    if isinstance(cand, ast.Name):
        for dn in d.cfg.defs_reaching(s, cand.id):
            if dn == 'param':
                continue
            ds = d.cfg.stmt[dn]
            if isinstance(ds, ast.Assign) and isinstance(ds.value, (ast.ListComp, ast.GeneratorExp)):
                filt = ds.value
    elif isinstance(cand, (ast.ListComp, ast.GeneratorExp)):
        filt = cand
    if filt is None:
        return None
    cond_nodes = [c for g in filt.generators for c in g.ifs]
    for g_ in filt.generators:
        if isinstance(g_.iter, ast.Name):
            for dn in d.cfg.defs_reaching(s, g_.iter.id):
                if dn != 'param':
                    uv = getattr(d.cfg.stmt[dn], 'value', None)
                    if isinstance(uv, (ast.ListComp, ast.GeneratorExp)):
                        cond_nodes += [c for g2 in uv.generators for c in g2.ifs]
    return [src(a_) for c in cond_nodes for a_, tr_ in conj_atoms(c, True) if tr_ and not isinstance(a_, ast.BoolOp)]


CANDIDATE_CONDS = {}          # id(selection statement) -> (fields it feeds, conjuncts every candidate satisfies); read by C09.R1


# --------------------------------------------------------------------------- R4
def r4_neutrality(ctx: Ctx, eng: Decider) -> None:
    d = eng
    fl = d.fl
    r = None
    # each max()/sorted()[0] selection after the loop in the most_specific branch
    sels = []
    for s in d.cfg.stmts():
        if d.in_loop(s) or not isinstance(s, ast.Assign) or not isinstance(s.value, ast.Call):
            continue
        if call_name(s.value) in ('max', 'min', 'sorted', 'next') and s.value.args:
            sels.append(s)
    if len(sels) < 3:
        ctx.unknown('C02.R4', d.fi, f'{len(sels)} winner selections found in the most_specific branch (merchant, category, subcategory expected)')
    for s in sels:
        cand = s.value.args[0]
        # what field does this winner feed?  look at the next stores to result.<field> that read the target
        tgt = s.targets[0]
        if isinstance(tgt, ast.Name):
            tnames = [tgt.id]
        elif isinstance(tgt, (ast.Tuple, ast.List)):
            tnames = [e.id for e in tgt.elts if isinstance(e, ast.Name) and e.id != '_']      # winner unpacked: (rule, score, variables)
        else:
            tnames = []
        fed = set()
        for tname in tnames:
            fed |= _fields_fed(d, s, tname)
        if not fed:
            continue
        conds = candidate_conds(d, s, cand)
        if conds is None:
            ctx.unknown('C02.R4', d.fi, f'candidate list of {src(s)[:50]!r} is not a comprehension over the matching rules', s)
        has_cat = any('is_categorization_rule' in c or _reads_attr(c, 'category') for c in conds)
        for fld in sorted(fed):
            ctx.check(has_cat, 'C02.R4', d.fi, f'candidates:{fld}', f'{fld} winner chosen among rules with a category ({conds})',
                      f'{fld} winner is chosen among {conds or "all matching rules"}: a tag-only rule can set the {fld} of a transaction', s)
        CANDIDATE_CONDS[id(s)] = (sorted(fed), conds)
    # first_match winner: C01.R2 (has-category guard) – re-stated here as an obligation
    g_ok = False
    for s in d.cfg.stmts():
        if d.in_loop(s) and isinstance(s, ast.Assign) and any(isinstance(t, ast.Name) and t.id.startswith('first') for t in s.targets):
            g = d.guard_texts(s)
            g_ok = any(truth and ('is_categorization_rule' in t or t.endswith('.category')) for t, truth in g)
            ctx.check(g_ok, 'C02.R4', d.fi, 'candidates:first_match', 'first-match winner requires a category',
                      'first-match winner is not restricted to rules with a category', s)
    # MatchResult.matched is only set where a categorizing winner exists
    for s in d.cfg.stmts():
        if isinstance(s, ast.Assign) and any(isinstance(t, ast.Attribute) and t.attr == 'matched' for t in s.targets):
            g = d.guard_texts(s)
            ok = any(truth and (t.startswith('first') or 'category_rules' in t) for t, truth in g)
            if not ok:
                # the guard may be a list filtered on has-category, or a winner taken from such a list
                cat_lists = set()
                for _pass in range(3):
                    for s2 in d.cfg.stmts():
                        if isinstance(s2, ast.Assign) and len(s2.targets) == 1 and isinstance(s2.targets[0], ast.Name) and isinstance(s2.value, (ast.ListComp, ast.GeneratorExp)):
                            cs = [src(c) for g2 in s2.value.generators for c in g2.ifs]
                            its = [g2.iter.id for g2 in s2.value.generators if isinstance(g2.iter, ast.Name)]
                            if any('is_categorization_rule' in c or _reads_attr(c, 'category') for c in cs) or any(i in cat_lists for i in its):
                                cat_lists.add(s2.targets[0].id)
                for t, truth in g:
                    if not truth and t.endswith(' is None') and t[:-8].isidentifier():
                        t, truth = t[:-8], True          # `winner is not None`
                    if not truth:
                        continue
                    if t in cat_lists:
                        ok = True
                    elif t.isidentifier():
                        dvals = [getattr(d.cfg.stmt[dn], 'value', None) for dn in d.cfg.defs_reaching(s, t) if dn != 'param']
                        dvals = [v for v in dvals if v is not None and not (isinstance(v, ast.Constant) and v.value is None)]
                        if dvals and all(isinstance(v, ast.Call) and call_name(v) in ('max', 'min', 'next', 'sorted') and v.args and isinstance(v.args[0], ast.Name) and v.args[0].id in cat_lists
                                         for v in dvals):
                            ok = True
            ctx.check(ok, 'C02.R4', d.fi, f'matched-flag', 'result.matched is set only with a categorizing winner',
                      f'result.matched = True under {sorted(g)}: a tag-only match would count as categorized', s)


def _reads_attr(cond: str, attr: str) -> bool:
    import re
    return re.search(r'\.' + attr + r'\b', cond) is not None


def _fields_fed(d: Decider, sel: ast.Assign, tname: Optional[str]) -> Set[str]:
    out = set()
    if tname is None:
        return out
    for s in d.cfg.stmts():
        if isinstance(s, ast.Assign):
            for t in s.targets:
                if isinstance(t, ast.Attribute) and t.attr in ('merchant', 'category', 'subcategory') and isinstance(t.value, ast.Name):
                    if sel_reaches(d, sel, s, tname):
                        out.add(t.attr)
    return out


def sel_reaches(d: Decider, sel, use, tname) -> bool:
    if not any(isinstance(n, ast.Name) and n.id == tname for n in ast.walk(use.value)):
        return False
    return d.cfg.nid(sel) in d.cfg.defs_reaching(use, tname)


# --------------------------------------------------------------------------- R5
def r5_survive(ctx: Ctx, eng: Decider, leg: Decider, acc) -> None:
    proj = ctx.proj
    # engine publishes result.tags = accumulator outside any mode branch
    pubs = [s for s in eng.cfg.stmts() if isinstance(s, ast.Assign) and any(isinstance(t, ast.Attribute) and t.attr == 'tags' for t in s.targets)]
    if not pubs:
        ctx.fail('C02.R5', eng.fi, 'publish:result.tags', 'MatchResult.tags is never assigned')
    for s in pubs:
        g = eng.guard_texts(s)
        ok = isinstance(s.value, ast.Name) and s.value.id in acc['engine'] and not g
        ctx.check(ok, 'C02.R5', eng.fi, 'publish:result.tags', 'result.tags = accumulator, unconditionally (both modes)',
                  f'{src(s)!r} under {sorted(g)}: tags are not published on every path / not the accumulator', s)
    # normalize_merchant returns
    d = leg
    fl = d.fl
    rets = [s for s in fl.cfg.stmts() if isinstance(s, ast.Return)]
    for r in rets:
        v = r.value
        if not (isinstance(v, ast.Tuple) and len(v.elts) == 4):
            continue
        info = v.elts[3]
        label = f'return:L{"engine" if any(("_cached_engine is None", False) == x for x in fl.cfg.guard_literals(r)) else "legacy"}:{src(v.elts[1])[:14]}:{src(info)[:10]}'
        if isinstance(info, ast.Constant) and info.value is None:
            g = fl.cfg.guard_literals(r)
            ok = any((not truth) and ('tags' in t) for t, truth in g)
            ctx.check(ok, 'C02.R5', d.fi, label, 'match_info None only when no tags were collected',
                      f'returns no match_info under {sorted(g)}: collected tags can be dropped', r)
            continue
        # the dict bound to match_info carries 'tags' from the accumulator
        vals = fl._dict_literal_value(info.id, 'tags', r) if isinstance(info, ast.Name) else None
        if not vals:
            ctx.fail('C02.R5', d.fi, label, f'match_info returned by {src(v)[:50]!r} has no literal tags entry', r)
            continue
        ok = True
        why = ''
        for val, st in vals:
            a = fl.atoms(val, st)
            from_acc = ('.tags' in a and 'name:result' in a) or any(f'name:{x}' in a for x in acc['legacy'])
            lossless = not (a & {'call:sorted'}) or True
            sliced = any(isinstance(n, ast.Subscript) and isinstance(n.slice, ast.Slice) for n in ast.walk(val))
            if not from_acc or sliced:
                ok = False
                why = f'tags entry {src(val)!r} does not carry the whole accumulator'
        ctx.check(ok, 'C02.R5', d.fi, label, 'match_info["tags"] carries the accumulated tags', why, r)
    # de-duplication without loss (legacy list)
    for s in fl.cfg.stmts():
        if isinstance(s, ast.Assign) and any(isinstance(t, ast.Name) and t.id == 'unique_tags' for t in s.targets):
            t = src(s.value).replace(' ', '')
            ok = t in ('list(dict.fromkeys(all_tags))', 'list(set(all_tags))', 'sorted(set(all_tags))', 'list(OrderedDict.fromkeys(all_tags))')
            ctx.check(ok, 'C02.R5', d.fi, 'dedupe', 'de-duplicated without loss', f'{src(s)!r} may lose tags', s)
    # parsers copy match_info tags into the transaction
    for qn in ('parsers.parse_generic_csv', 'parsers.parse_amex', 'parsers.parse_boa'):
        f = proj.func(qn)
        pfl = get_flow(proj, f)
        dicts = [n for n in all_nodes(f.node) if isinstance(n, ast.Dict) and any(isinstance(k, ast.Constant) and k.value == 'tags' for k in n.keys)]
        if not dicts:
            ctx.fail('C02.R5', f, 'txn:tags', 'transaction dict has no tags entry', f.node)
            continue
        for dn in dicts:
            val = [v for k, v in zip(dn.keys, dn.values) if isinstance(k, ast.Constant) and k.value == 'tags'][0]
            a = pfl.atoms(val, dn)
            ok = 'key:match_info:tags' in a and 'call:normalize_merchant' in a
            ctx.check(ok, 'C02.R5', f, 'txn:tags', "transaction['tags'] = match_info['tags'] from normalize_merchant",
                      f"transaction['tags'] is {src(val)!r}: not the tags returned by normalize_merchant", val)
