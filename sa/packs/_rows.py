"""Row / item independence of a loop: what one iteration can pass to a later one."""
from __future__ import annotations

import ast
from typing import Dict, List, Set, Tuple

from ..project import ancestors, src

MUTATORS = {'add', 'append', 'extend', 'update', 'setdefault', 'pop', 'remove', 'discard', 'insert', 'clear', 'popitem', 'appendleft'}


def carried_names(fl, loop, ignore: Set[str] = frozenset()) -> Dict[str, Tuple[ast.AST, List[int]]]:
    """names assigned in the loop body whose definition from a *previous* iteration can reach a read"""
    from ..cfg import walk_header
    cfg = fl.cfg
    rd = cfg.reaching()
    carried: Dict[str, Tuple[ast.AST, List[int]]] = {}
    inside = {cfg.nid(s) for s in cfg.stmts() if any(a is loop for a in ancestors(s))}
    loop_id = cfg.nid(loop)
    for nid in sorted(inside):
        st = cfg.stmt[nid]
        uses = {n.id for n in walk_header(st) if isinstance(n, ast.Name) and isinstance(n.ctx, ast.Load)}
        for name in uses:
            if name in ignore:
                continue
            defs = rd.get(nid, {}).get(name, set())
            in_defs = {d for d in defs if d in inside}
            if not in_defs:
                continue
            if cfg.reachable_without(loop_id, nid, set(in_defs)):
                carried.setdefault(name, (st, sorted(cfg.stmt[d].lineno for d in in_defs)))
    return carried


def carried_containers(fl, loop, outputs: Set[str] = frozenset()) -> Dict[str, Tuple[ast.AST, ast.AST]]:
    """{container name: (mutating statement, reading node)} for containers that the loop body both mutates and consults
    (membership test, lookup, len …): what a row leaves there is seen by the rows after it.  `outputs` are the loop's result
    containers (only ever appended to); reading those is reported as well unless the read is the mutation itself."""
    muts: Dict[str, ast.AST] = {}
    for n in ast.walk(loop):
        if isinstance(n, ast.Call) and isinstance(n.func, ast.Attribute) and n.func.attr in MUTATORS and isinstance(n.func.value, ast.Name):
            muts.setdefault(n.func.value.id, n)
        elif isinstance(n, (ast.Assign, ast.AugAssign)):
            for t in (n.targets if isinstance(n, ast.Assign) else [n.target]):
                if isinstance(t, ast.Subscript) and isinstance(t.value, ast.Name):
                    muts.setdefault(t.value.id, n)
    out: Dict[str, Tuple[ast.AST, ast.AST]] = {}
    for name, m in muts.items():
        # names (re)bound afresh in every iteration are per-row scratch, not carried state
        fresh = any(isinstance(s, ast.Assign) and any(isinstance(t, ast.Name) and t.id == name for t in s.targets) for s in ast.walk(loop))
        if fresh:
            continue
        for n in ast.walk(loop):
            if isinstance(n, ast.Name) and n.id == name and isinstance(n.ctx, ast.Load):
                par = getattr(n, '_parent', None)
                # receiver of a mutator call / target of a subscript store is the mutation itself
                if isinstance(par, ast.Attribute) and par.attr in MUTATORS and par.value is n:
                    if par.attr in ('setdefault', 'pop'):
                        gp = getattr(par, '_parent', None)
                        ggp = getattr(gp, '_parent', None)
                        if not isinstance(ggp, ast.Expr):
                            out.setdefault(name, (m, n))      # value of setdefault()/pop() used: a read
                    continue
                if isinstance(par, ast.Subscript) and par.value is n and isinstance(par.ctx, ast.Store):
                    continue
                if name in outputs and isinstance(par, ast.Attribute) and par.attr in ('append', 'extend'):
                    continue
                out.setdefault(name, (m, n))
    return out


def crossed_arguments(proj, modules):
    """Calls of project functions in which a plain variable is passed *by position* into a parameter of another name although the callee
    has a parameter of exactly the variable's name (`f(a, b, period_data)` landing in `existing_vars` while f also takes `period_data`).
    Yields (caller FuncInfo, call node, variable name, parameter it lands in)."""
    from ..callgraph import get_cg
    from ..project import FuncInfo
    cg = get_cg(proj)
    for f in proj.all_funcs():
        if f.module.short not in modules:
            continue
        for c in ast.walk(f.node):
            if not isinstance(c, ast.Call):
                continue
            ts = [t for t in cg.resolve(f, c) if isinstance(t, FuncInfo)]
            if len(ts) != 1:
                continue
            t = ts[0]
            params = [a.arg for a in t.node.args.args]
            if params and params[0] in ('self', 'cls') and t.cls is not None:
                params = params[1:]
            given_kw = {k.arg for k in c.keywords}
            for i, a in enumerate(c.args):
                if isinstance(a, ast.Name) and i < len(params) and a.id in params and params[i] != a.id and a.id not in given_kw:
                    yield f, c, a.id, params[i]


FRESH_CALLS = {'list', 'dict', 'set', 'sorted', 'tuple', 'copy', 'deepcopy', 'defaultdict', 'frozenset', 'reversed', 'str', 'int', 'float', 'join', 'format', 'replace', 'strip', 'lower', 'upper', 'split'}


def alias_mutations(fl):
    """In-place changes of an object that the function did not create: `x = data.get('tags', [])` … `x += […]` / `x.append(…)` / `x.sort()`.
    Yields (statement, local name, the definition that makes it an alias)."""
    cfg = fl.cfg

    def alias_def(name, at):
        for d in cfg.defs_reaching(at, name):
            if d == 'param':
                continue
            v = getattr(cfg.stmt[d], 'value', None)
            if v is None:
                continue
            if isinstance(v, ast.Subscript) or (isinstance(v, ast.Call) and isinstance(v.func, ast.Attribute) and v.func.attr in ('get', 'setdefault', 'pop')) or isinstance(v, ast.Attribute):
                return cfg.stmt[d]
        return None
    for s in cfg.stmts():
        if isinstance(s, ast.AugAssign) and isinstance(s.target, ast.Name) and isinstance(s.op, ast.Add) and isinstance(s.value, (ast.List, ast.ListComp, ast.Tuple)) is not False \
                and isinstance(s.value, (ast.List, ast.ListComp)):
            d = alias_def(s.target.id, s)
            if d is not None:
                yield s, s.target.id, d
        if isinstance(s, ast.Expr) and isinstance(s.value, ast.Call) and isinstance(s.value.func, ast.Attribute) and isinstance(s.value.func.value, ast.Name) \
                and s.value.func.attr in ('append', 'extend', 'insert', 'sort', 'reverse', 'remove', 'clear', 'update', 'add', 'discard'):
            d = alias_def(s.value.func.value.id, s)
            if d is not None:
                yield s, s.value.func.value.id, d
