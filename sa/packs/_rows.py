"""Row / item independence of a loop: what one iteration can pass to a later one."""
from __future__ import annotations

import ast
from typing import Dict, List, Set, Tuple

from ..project import ancestors, src

MUTATORS = {'add', 'append', 'extend', 'update', 'setdefault', 'pop', 'remove', 'discard', 'insert', 'clear', 'popitem', 'appendleft'}


def carried_names(fl, loop, ignore: Set[str] = frozenset()) -> Dict[str, Tuple[ast.AST, List[int]]]:
    """names assigned in the loop body whose definition from a *previous* iteration can reach a read"""
    from ..cfg import walk_header
    cfg = fl.cfg
    rd = cfg.reaching()
    carried: Dict[str, Tuple[ast.AST, List[int]]] = {}
    inside = {cfg.nid(s) for s in cfg.stmts() if any(a is loop for a in ancestors(s))}
    loop_id = cfg.nid(loop)
    for nid in sorted(inside):
        st = cfg.stmt[nid]
        uses = {n.id for n in walk_header(st) if isinstance(n, ast.Name) and isinstance(n.ctx, ast.Load)}
        for name in uses:
            if name in ignore:
                continue
            defs = rd.get(nid, {}).get(name, set())
            in_defs = {d for d in defs if d in inside}
            if not in_defs:
                continue
            if cfg.reachable_without(loop_id, nid, set(in_defs)):
                carried.setdefault(name, (st, sorted(cfg.stmt[d].lineno for d in in_defs)))
    return carried


def carried_containers(fl, loop, outputs: Set[str] = frozenset()) -> Dict[str, Tuple[ast.AST, ast.AST]]:
    """{container name: (mutating statement, reading node)} for containers that the loop body both mutates and consults
    (membership test, lookup, len …): what a row leaves there is seen by the rows after it.  `outputs` are the loop's result
    containers (only ever appended to); reading those is reported as well unless the read is the mutation itself."""
    muts: Dict[str, ast.AST] = {}
    for n in ast.walk(loop):
        if isinstance(n, ast.Call) and isinstance(n.func, ast.Attribute) and n.func.attr in MUTATORS and isinstance(n.func.value, ast.Name):
            muts.setdefault(n.func.value.id, n)
        elif isinstance(n, (ast.Assign, ast.AugAssign)):
            for t in (n.targets if isinstance(n, ast.Assign) else [n.target]):
                if isinstance(t, ast.Subscript) and isinstance(t.value, ast.Name):
                    muts.setdefault(t.value.id, n)
    out: Dict[str, Tuple[ast.AST, ast.AST]] = {}
    for name, m in muts.items():
        # names (re)bound afresh in every iteration are per-row scratch, not carried state
        fresh = any(isinstance(s, ast.Assign) and any(isinstance(t, ast.Name) and t.id == name for t in s.targets) for s in ast.walk(loop))
        if fresh:
            continue
        for n in ast.walk(loop):
            if isinstance(n, ast.Name) and n.id == name and isinstance(n.ctx, ast.Load):
                par = getattr(n, '_parent', None)
                # receiver of a mutator call / target of a subscript store is the mutation itself
                if isinstance(par, ast.Attribute) and par.attr in MUTATORS and par.value is n:
                    if par.attr in ('setdefault', 'pop'):
                        gp = getattr(par, '_parent', None)
                        ggp = getattr(gp, '_parent', None)
                        if not isinstance(ggp, ast.Expr):
                            out.setdefault(name, (m, n))      # value of setdefault()/pop() used: a read
                    continue
                if isinstance(par, ast.Subscript) and par.value is n and isinstance(par.ctx, ast.Store):
                    continue
                if name in outputs and isinstance(par, ast.Attribute) and par.attr in ('append', 'extend'):
                    continue
                out.setdefault(name, (m, n))
    return out
