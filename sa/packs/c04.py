"""C04 — expressions mean what the reference says (structural clauses only; values are not decided)."""
from __future__ import annotations

import ast
import copy
from typing import Dict, List, Optional, Set, Tuple

from ..callgraph import all_nodes, own_nodes
from ..cfg import CFG, target_names
from ..core import Ctx
from ..flow import call_name, get_flow
from ..project import AnalysisError, FuncInfo, ancestors, dotted, parent, src
from ..pattern import find, find1, match

LEVEL = 'other'
EP = 'expr_parser'

OP_TABLE = {'Lt': ast.Lt, 'LtE': ast.LtE, 'Gt': ast.Gt, 'GtE': ast.GtE, 'Eq': ast.Eq, 'NotEq': ast.NotEq, 'In': ast.In, 'NotIn': ast.NotIn}
BIN_TABLE = {'Add': ast.Add, 'Sub': ast.Sub, 'Mult': ast.Mult, 'Div': ast.Div, 'Mod': ast.Mod}
UN_TABLE = {'Not': ast.Not, 'USub': ast.USub}
PRIMS = ['description', 'amount', 'date', 'month', 'year', 'day', 'weekday', 'source']
TXN_ATTRS = ['description', 'amount', 'date', 'source', 'location', 'month', 'year', 'day', 'weekday']
FIELD_BUILTINS = ['description', 'amount', 'date', 'source', 'location']

# function -> (required primitive markers, known-wrong markers); markers are matched on the method body
FN_PRIMS = {
    'contains': (['cmp:In'], ['call:startswith', 'call:match', 'call:search']),
    'startswith': (['call:startswith'], ['cmp:In', 'call:endswith', 'call:search']),
    'regex': (['call:search'], ['call:match', 'call:fullmatch']),
    'extract': (['call:search', 'call:group'], ['call:match', 'call:fullmatch', 'call:findall']),
    'split': (['call:split', 'subscript'], ['call:rsplit', 'call:partition']),
    'substring': (['slice'], []),
    'trim': (['call:strip'], ['call:lstrip', 'call:rstrip']),
    'uppercase': (['call:upper'], ['call:lower', 'call:title']),
    'lowercase': (['call:lower'], ['call:upper', 'call:title']),
    'strip_prefix': (['call:startswith', 'slice'], ['call:endswith', 'call:lstrip']),
    'strip_suffix': (['call:endswith', 'slice'], ['call:rstrip']),
    'regex_replace': (['call:sub'], ['call:subn', 'call:replace']),
    'anyof': (['cmp:In', 'call:any'], ['call:all', 'call:startswith']),
    'normalized': (['cmp:In', 'call:sub'], []),
}


def check(ctx: Ctx) -> None:
    ctx.rule('C04.R1', 'identifier normalisation: every definition site of a name that a lower-casing lookup can reach lower-cases it too', floor=6)
    ctx.rule('C04.R2', 'case-fold symmetry: both operands of each string comparison pass through the same fold; regex functions pass IGNORECASE', floor=10)
    ctx.rule('C04.R3', 'zero-divisor guard: every / and % on evaluated operands is dominated by a test of the divisor against 0 whose arm returns 0', floor=4)
    ctx.rule('C04.R4', 'short-circuit: and/or evaluate operands left to right and stop at the first falsy/truthy one', floor=4)
    ctx.rule('C04.R5', 'comparison chain: false at the first false link, next link compares the previous right operand', floor=4)
    ctx.rule('C04.R6', 'primitive-name agreement: month/year/day/weekday/description/amount/date/source/location return the like-named context slot, initialised from the like-named date component', floor=20)
    ctx.rule('C04.R7', 'sibling evaluators agree on Expression, Constant, BoolOp, BinOp, UnaryOp, IfExp and on the six ordering/equality arms of Compare', floor=8)
    ctx.rule('C04.R8', 'reference tables are a subset of the implementation: documented calls exist, documented examples parse under the whitelist and have evaluators', floor=30)
    ctx.rule('C04.R9', 'operator tables agree: each isinstance(op, ast.X) arm applies the Python operator X', floor=20)
    ctx.rule('C04.R11', 'comprehension variables shadow and restore like Python: the binding that was in scope before the loop is saved and put back', floor=2)
    ctx.rule('C04.R10', 'documented text functions reach the library primitive their reference row names', floor=10)
    ctx.rule('C04.R12', 'an expression is parsed as written: the text handed to ast.parse is the caller\'s text, not a rewritten copy (string literals are part of it)', floor=1)
    r12_text_as_written(ctx)
    r1_identifiers(ctx)
    r2_casefold(ctx)
    r3_zero(ctx)
    r4_shortcircuit(ctx)
    r5_chain(ctx)
    r6_primitives(ctx)
    r7_siblings(ctx)
    r8_reference(ctx)
    r9_operators(ctx)
    r10_functions(ctx)
    r11_scoping(ctx)


def _evals(ctx):
    proj = ctx.proj
    return proj.cls(f'{EP}.TransactionEvaluator'), proj.cls(f'{EP}.ExpressionEvaluator')


# --------------------------------------------------------------------------- R1
def r1_identifiers(ctx: Ctx) -> None:
    proj = ctx.proj
    # lookups lower-case: verify (otherwise the writers' obligations change)
    te, ee = _evals(ctx)
    for ci in (te, ee):
        en = ci.methods['_eval_Name']
        ok = any(isinstance(s, ast.Assign) and src(s.value) == 'node.id.lower()' for s in ast.walk(en.node))
        ctx.check(ok, 'C04.R1', en, 'lookup:name', 'names are looked up lower-cased', 'name lookup is not lower-cased: upper/lower spelling of a variable changes the result')
    ea = te.methods['_eval_Attribute']
    n_lower = sum(1 for s in ast.walk(ea.node) if isinstance(s, ast.Assign) and src(s.value) == 'node.attr.lower()')
    ctx.check(n_lower >= 3, 'C04.R1', ea, 'lookup:attr', 'txn./field./row attributes are looked up lower-cased', f'only {n_lower} of the attribute lookups lower-case the name')
    for ci in (te, ee):
        ec = ci.methods['_eval_Call']
        ok = any(isinstance(s, ast.Assign) and src(s.value) == 'node.func.id.lower()' for s in ast.walk(ec.node))
        ctx.check(ok, 'C04.R1', ec, 'lookup:function', 'function names are looked up lower-cased', 'function name lookup is not lower-cased')
    # comprehension / walrus targets are stored lower-cased (same table as the lookup)
    for mname in ('_eval_comprehension_loop', '_generator_helper', '_eval_NamedExpr'):
        m = te.methods.get(mname)
        if m is None:
            continue
        ok = any(isinstance(s, ast.Assign) and (src(s.value).endswith('.id.lower()') or any(
            isinstance(t, ast.Subscript) and src(t.slice).endswith('.id.lower()') for t in s.targets)) for s in ast.walk(m.node))
        ctx.check(ok, 'C04.R1', m, f'define:{mname}', 'loop / walrus variable stored lower-cased', 'loop or walrus variable is stored as written but looked up lower-cased', m.node)

    # every identifier read off an expression tree (`<node>.id`) anywhere in the package is lower-cased before it is used as a name
    # (a read inside a `raise` only feeds the message)
    n_id = 0
    for fi in proj.all_funcs():
        for n in own_nodes(fi.node):
            if isinstance(n, ast.Attribute) and n.attr == 'id' and isinstance(n.ctx, ast.Load):
                par = parent(n)
                lowered = isinstance(par, ast.Attribute) and par.attr in ('lower', 'casefold') and isinstance(parent(par), ast.Call)
                in_raise = any(isinstance(a, ast.Raise) for a in ancestors(n))
                n_id += 1
                ctx.check(lowered or in_raise, 'C04.R1', fi, f'identifier-read:{src(n)}', f'{src(n)} is lower-cased before use',
                          f'{src(n)!r} is used as written: names taken from an expression are compared with tables whose keys are lower-cased, so a name spelled with capitals is not found '
                          f'(changing the letter case of a variable name changes the result)', n)
    ctx.need(n_id >= 6, f'C04.R1: only {n_id} identifier reads (<node>.id) found in the package')

    def key_lowered(f: FuncInfo, key_expr, at, tables=()) -> bool:
        fl = get_flow(proj, f)
        for leaf, ops in fl.leaf_paths(key_expr, at):
            # a key read back from a table of this function whose own keys are checked is lower-case by induction
            if any(o == f'name:{t}' and any(x in ('call:items', 'call:keys', 'op:iter') for x in ops[i + 1:i + 3]) for i, o in enumerate(ops) for t in tables):
                continue
            if leaf.startswith('loopvar:') and any(f'name:{t}' in ops2 for l2, ops2 in fl.leaf_paths(key_expr, at) if l2 != leaf for t in tables) and 'call:lower' not in ops:
                continue
            if leaf.startswith('const:'):
                v = leaf[6:]
                if v == v.lower() and not any(o in ('call:upper', 'call:title', 'call:capitalize', 'call:swapcase') for o in ops):
                    continue            # a lower-case literal (or a number / slice bound) contributes no capitals
                if 'call:lower' not in ops:
                    return False
                continue
            if 'call:lower' not in ops:
                return False
        return True

    # writers: every store under a computed key (and every let-binding tuple) in the functions that define user-named identifiers.
    # Containers are identified by shape (self.variables, <rule>['fields'], n-th local table), never by the local variable's name.
    WRITERS = ('merchant_engine.MerchantEngine.parse', 'section_engine.parse_sections', 'merchant_utils.apply_transforms',
               'config_loader.load_supplemental_sources', 'format_parser.parse_format_string')
    sites = []
    let_sites = 0
    for q in WRITERS:
        f = proj.func(q)
        fl = get_flow(proj, f)
        local_order: List[str] = []
        stores = []
        for st in all_nodes(f.node):
            if isinstance(st, ast.Assign):
                for t in st.targets:
                    if isinstance(t, ast.Subscript):
                        stores.append((st, t))
        stores.sort(key=lambda x: (x[0].lineno, x[0].col_offset))

        def shape(e) -> str:
            if isinstance(e, ast.Name):
                if fl.is_local(e.id) and e.id not in f.params:
                    if e.id not in local_order:
                        local_order.append(e.id)
                    return f'local#{local_order.index(e.id) + 1}'
                return e.id
            if isinstance(e, ast.Attribute):
                return f'{shape(e.value)}.{e.attr}'
            if isinstance(e, ast.Subscript) and isinstance(e.slice, ast.Constant):
                return f'{shape(e.value)}[{e.slice.value!r}]'
            return '?'

        checked_local: Dict[str, List[bool]] = {}
        dyn = []
        for st, t in stores:
            sh = shape(t.value)
            if isinstance(t.slice, ast.Constant):
                if isinstance(t.value, ast.Name) and isinstance(t.slice.value, str):
                    checked_local.setdefault(t.value.id, []).append(t.slice.value == t.slice.value.lower())
                continue
            dyn.append((st, t, sh))
        from ._tables import table_of
        # a key looked up in a constant table of lower-case names is a closed, lower-case set: not a user-chosen name
        dyn = [(st, t, sh) for st, t, sh in dyn
               if not ((tb := table_of(t.slice, f.module)) is not None and all(isinstance(v, str) and v == v.lower() for v in tb[0].values()))]
        for st, t, sh in dyn:
            sites.append((f, t.slice, st, sh, {c for c, oks in checked_local.items() if all(oks)} | {t2.value.id for _s, t2, _h in dyn if isinstance(t2.value, ast.Name)}))
        # let-bindings are kept as (name, expression) pairs in a list: every pair appended to it, in whatever spelling
        # (`r['let_bindings'].append((k, e))`, `r.setdefault('let_bindings', []).append(pair)` with `pair = (k, e)`)
        for n in all_nodes(f.node):
            if not (isinstance(n, ast.Call) and isinstance(n.func, ast.Attribute) and n.func.attr == 'append' and len(n.args) == 1):
                continue
            holder = n.func.value
            named = (isinstance(holder, ast.Subscript) and isinstance(holder.slice, ast.Constant) and holder.slice.value == 'let_bindings') or \
                    (isinstance(holder, ast.Call) and isinstance(holder.func, ast.Attribute) and holder.func.attr in ('setdefault', 'get') and holder.args
                     and isinstance(holder.args[0], ast.Constant) and holder.args[0].value == 'let_bindings')
            if not named:
                continue
            pairs = [(n.args[0], n)]
            if isinstance(n.args[0], ast.Name) and fl.cfg.has(n):
                # every definition of the local that reaches the append; `None` (no binding, rejected before the append) carries no name
                pairs = []
                for d in fl.cfg.defs_reaching(fl.stmt_of(n), n.args[0].id):
                    st = fl.cfg.stmt.get(d) if d != 'param' else None
                    v = st.value if isinstance(st, ast.Assign) and len(st.targets) == 1 and isinstance(st.targets[0], ast.Name) else None
                    if isinstance(v, ast.Constant) and v.value is None:
                        continue
                    pairs.append((v, st))
            for pair, at in pairs:
                if isinstance(pair, ast.Tuple) and len(pair.elts) == 2:
                    sites.append((f, pair.elts[0], at, "rule['let_bindings']", set()))
                    let_sites += 1
                else:
                    ctx.unknown('C04.R1', f, f'let binding appended as {src(n.args[0])!r}: not a (name, expression) pair the rule can read')
    ctx.need(not (len(sites) < 8), f'C04.R1: only {len(sites)} definition sites found (10 confirmed by hand)')
    if not let_sites:
        ctx.unknown('C04.R1', proj.func(WRITERS[0]), 'no let_bindings.append(...) site found: where are let: names stored?')
    for f, key, node, sh, tables in sites:
        ok = key_lowered(f, key, node, tables)
        ctx.check(ok, 'C04.R1', f, f'define:{sh}', f'name stored in {sh} under a lower-cased key ({src(key)})',
                  f'{sh}: a user-chosen name is stored under {src(key)!r} as written, but every lookup lower-cases the name: a definition spelled with capitals can never be found '
                  f'(changing the letter case of a name changes the result)', node)


# --------------------------------------------------------------------------- R2
def _fold_of(e) -> Optional[str]:
    """'upper' / 'lower' / 'normalize' if e is X.upper() / X.lower() / normalize(X)."""
    if isinstance(e, ast.Call) and isinstance(e.func, ast.Attribute) and e.func.attr in ('upper', 'lower', 'casefold') and not e.args:
        return e.func.attr
    if isinstance(e, ast.Call) and isinstance(e.func, ast.Name) and e.func.id == 'normalize':
        return 'normalize'
    return None


def _resolve_local(fl, e, at):
    """If e is a local name with a single simple definition, return the defining expression."""
    if isinstance(e, ast.Name) and fl.cfg.has(at):
        defs = fl.cfg.defs_reaching(fl.stmt_of(at), e.id)
        if len(defs) == 1:
            d = next(iter(defs))
            if d != 'param':
                s = fl.cfg.stmt[d]
                if isinstance(s, ast.Assign) and len(s.targets) == 1 and isinstance(s.targets[0], ast.Name):
                    return s.value
    return e


def r2_casefold(ctx: Ctx) -> None:
    proj = ctx.proj
    tc = proj.cls(f'{EP}.TransactionContext')
    for name in ('contains', 'startswith', 'anyof', 'normalized', 'strip_prefix', 'strip_suffix'):
        m = tc.methods.get(f'_fn_{name}')
        if m is None:
            ctx.fail('C04.R2', f'{EP}.TransactionContext', f'fold:{name}', f'documented function {name} has no implementation')
            continue
        fl = get_flow(proj, m)
        found = False
        for n in all_nodes(m.node):
            pair = None
            if isinstance(n, ast.Compare) and len(n.ops) == 1 and isinstance(n.ops[0], (ast.In, ast.NotIn, ast.Eq)):
                pair = (n.left, n.comparators[0])
                if any(isinstance(a, (ast.GeneratorExp, ast.ListComp)) for a in ancestors(n)) is False and isinstance(n.left, ast.Name) and n.left.id in ('len',):
                    pair = None
            elif isinstance(n, ast.Call) and isinstance(n.func, ast.Attribute) and n.func.attr in ('startswith', 'endswith') and n.args:
                pair = (n.func.value, n.args[0])
            if pair is None:
                continue
            a, b = (_resolve_local(fl, x, n) for x in pair)
            fa, fb = _fold_of(a), _fold_of(b)
            if fa is None and fb is None:
                # comparison not on text (e.g. argument counts)
                if not any(isinstance(x, ast.Call) and isinstance(x.func, ast.Attribute) for x in (a, b)):
                    continue
            found = True
            ctx.check(fa is not None and fa == fb, 'C04.R2', m, f'fold:{name}:{type(n).__name__}', f'{name}: both operands folded with {fa}()',
                      f'{name}: operands of {src(n)[:60]!r} are folded with {fa}/{fb}: letter case of one side changes the result', n)
        if not found:
            ctx.fail('C04.R2', m, f'fold:{name}', f'{name}: no case-folded comparison found in the body', m.node)
        if name == 'normalized':
            nz = proj.funcs.get(m.qualname + '.normalize')
            ok = nz is not None and any(isinstance(x, ast.Call) and isinstance(x.func, ast.Attribute) and x.func.attr in ('upper', 'lower') for x in ast.walk(nz.node))
            ctx.check(ok, 'C04.R2', m, 'fold:normalized:helper', 'normalize() folds the case', 'normalize() helper does not fold the case')
    for name in ('regex', 'extract', 'regex_replace'):
        m = tc.methods.get(f'_fn_{name}')
        if m is None:
            ctx.fail('C04.R2', f'{EP}.TransactionContext', f'fold:{name}', f'documented function {name} has no implementation')
            continue
        calls = [n for n in all_nodes(m.node) if isinstance(n, ast.Call) and dotted(n.func) in ('re.compile', 're.search', 're.sub', 're.match', 're.findall')]
        ok = bool(calls) and all('re.IGNORECASE' in src(c) or 're.I' in [src(a) for a in c.args] for c in calls)
        ctx.check(ok, 'C04.R2', m, f'fold:{name}', f'{name}: regex compiled/searched with re.IGNORECASE',
                  f'{name}: {[src(c)[:40] for c in calls]} without re.IGNORECASE: matching becomes case-sensitive', calls[0] if calls else m.node)
    # == / != / in on strings in both evaluators
    te, ee = _evals(ctx)
    for ci in (te, ee):
        m = ci.methods['_eval_Compare']
        for n in all_nodes(m.node):
            if isinstance(n, ast.IfExp) or not isinstance(n, ast.If):
                continue
        for n in all_nodes(m.node):
            if isinstance(n, ast.Compare) and len(n.ops) == 1 and isinstance(n.ops[0], (ast.Eq, ast.NotEq, ast.In, ast.NotIn)):
                fa, fb = _fold_of(n.left), _fold_of(n.comparators[0])
                if fa is None and fb is None:
                    continue
                if isinstance(n.ops[0], (ast.In, ast.NotIn)) and fb is None and ci is ee:
                    # tag-set membership: the set is folded by construction (get_tags lower-cases)
                    gt = ctx.proj.cls(f'{EP}.ExpressionContext').methods['get_tags']
                    folded = any(isinstance(x, ast.Call) and isinstance(x.func, ast.Attribute) and x.func.attr == 'lower' for x in ast.walk(gt.node))
                    ctx.check(fa == 'lower' and folded, 'C04.R2', m, f'fold:tags-membership:{type(n.ops[0]).__name__}', 'tag membership: left.lower() in lower-cased tag set',
                              f'{src(n)!r}: tag set is lower-cased by get_tags but the probe is folded with {fa}', n)
                    continue
                ctx.check(fa is not None and fa == fb, 'C04.R2', m, f'fold:{ci.name}:{type(n.ops[0]).__name__}', f'{type(n.ops[0]).__name__}: both sides {fa}()',
                          f'{src(n)!r}: operands folded with {fa}/{fb}', n)


# --------------------------------------------------------------------------- R3
def r3_zero(ctx: Ctx) -> None:
    for ci in _evals(ctx):
        m = ci.methods['_eval_BinOp']
        cfg = CFG.of_function(m.node)
        found = 0
        for n in all_nodes(m.node):
            if isinstance(n, ast.BinOp) and isinstance(n.op, (ast.Div, ast.Mod, ast.FloorDiv)):
                found += 1
                st = n
                while not isinstance(st, ast.stmt):
                    st = parent(st)
                divisor = src(n.right)
                lits = cfg.guard_literals(st)
                guarded = any((t.replace(' ', '') in (f'{divisor}==0', f'not{divisor}') and not truth) or (t.replace(' ', '') in (f'{divisor}!=0',) and truth) for t, truth in lits)
                # the zero arm returns literal 0
                zero_ret = False
                for s in cfg.stmts():
                    if isinstance(s, ast.If) and src(s.test).replace(' ', '') in (f'{divisor}==0', f'not{divisor}'):
                        if s.body and isinstance(s.body[0], ast.Return) and isinstance(s.body[0].value, ast.Constant) and s.body[0].value.value == 0:
                            if cfg.dominates(s, st):
                                zero_ret = True
                ctx.check(guarded and zero_ret, 'C04.R3', m, f'div:{type(n.op).__name__}', f'{src(n)} guarded by `{divisor} == 0 -> return 0`',
                          f'{src(n)!r}: ' + ('not dominated by a zero test of the divisor' if not guarded else 'the zero arm does not return the literal 0'), n)
        if found < 2:
            ctx.unknown('C04.R3', m, f'{found} division operators found in _eval_BinOp')


# --------------------------------------------------------------------------- R4
def _is_eval_of(e, var) -> bool:
    return isinstance(e, ast.Call) and src(e.func) == 'self.evaluate' and len(e.args) == 1 and src(e.args[0]) == var


def r4_shortcircuit(ctx: Ctx) -> None:
    for ci in _evals(ctx):
        m = ci.methods['_eval_BoolOp']
        arms = {}
        for s in m.node.body:
            cur = s
            while isinstance(cur, ast.If):
                t = src(cur.test).replace(' ', '')
                if t == 'isinstance(node.op,ast.And)':
                    arms['And'] = cur.body
                elif t == 'isinstance(node.op,ast.Or)':
                    arms['Or'] = cur.body
                cur = cur.orelse[0] if len(cur.orelse) == 1 else None
        for op in ('And', 'Or'):
            body = arms.get(op)
            if body is None:
                ctx.fail('C04.R4', m, f'arm:{op}', f'no arm for ast.{op} in _eval_BoolOp', m.node)
                continue
            ok, why = _shortcircuit_shape(body, op)
            ctx.check(ok, 'C04.R4', m, f'arm:{op}', f'{op}: left-to-right, stops at the first {"falsy" if op == "And" else "truthy"} operand', why, body[0])
            # result is Boolean (the property statement: and/or/not are Boolean)
            rets = [r for st in body for r in ast.walk(st) if isinstance(r, ast.Return)]
            bool_ok = all(isinstance(r.value, ast.Constant) and isinstance(r.value.value, bool) or (isinstance(r.value, ast.Call) and call_name(r.value) in ('all', 'any', 'bool'))
                          for r in rets)
            ctx.check(bool_ok, 'C04.R4', m, f'bool:{op}', f'{op} yields True/False', f'{op} arm returns a non-Boolean value {[src(r.value) for r in rets]}', body[0])


def _shortcircuit_shape(body, op) -> Tuple[bool, str]:
    # idiom 1: for value in node.values: if [not] self.evaluate(value): return False/True ; return True/False
    if len(body) == 2 and isinstance(body[0], ast.For) and isinstance(body[1], ast.Return):
        lp, ret = body
        if src(lp.iter) not in ('node.values',):
            return False, f'iterates {src(lp.iter)!r}, not node.values in order'
        var = lp.target.id if isinstance(lp.target, ast.Name) else None
        if len(lp.body) != 1 or not isinstance(lp.body[0], ast.If) or lp.body[0].orelse:
            return False, 'loop body is not a single early-return test'
        test = lp.body[0].test
        inner = lp.body[0].body
        neg = isinstance(test, ast.UnaryOp) and isinstance(test.op, ast.Not)
        core = test.operand if neg else test
        if not _is_eval_of(core, var):
            return False, f'test {src(test)!r} does not evaluate the current operand'
        if not (len(inner) == 1 and isinstance(inner[0], ast.Return) and isinstance(inner[0].value, ast.Constant)):
            return False, 'early exit is not a constant return'
        early, final = inner[0].value.value, ret.value.value if isinstance(ret.value, ast.Constant) else None
        want = (True, False, True) if op == 'And' else (False, True, False)    # (neg, early, final)
        if (neg, early, final) != want:
            return False, f'{op}: tests {"not " if neg else ""}operand, returns {early} early and {final} at the end'
        return True, ''
    # idiom 2: return all(self.evaluate(v) for v in node.values) / any(...)
    if len(body) == 1 and isinstance(body[0], ast.Return) and isinstance(body[0].value, ast.Call):
        c = body[0].value
        fn = call_name(c)
        if fn == ('all' if op == 'And' else 'any') and c.args and isinstance(c.args[0], ast.GeneratorExp):
            g = c.args[0]
            if len(g.generators) == 1 and src(g.generators[0].iter) == 'node.values' and not g.generators[0].ifs \
                    and _is_eval_of(g.elt, g.generators[0].target.id):
                return True, ''
            return False, 'generator does not evaluate node.values in order'
        if fn in ('all', 'any') and c.args and isinstance(c.args[0], (ast.ListComp, ast.List)):
            return False, 'operands are collected eagerly in a list before all()/any(): no short-circuit (a later operand that fails is still evaluated)'
        return False, f'{op} arm returns {src(c)[:40]!r}'
    return False, 'unrecognised shape (neither early-return loop nor all()/any() over a generator)'


# --------------------------------------------------------------------------- R5
def r5_chain(ctx: Ctx) -> None:
    for ci in _evals(ctx):
        m = ci.methods['_eval_Compare']
        loops = [s for s in m.node.body if isinstance(s, ast.For)]
        if len(loops) != 1:
            ctx.unknown('C04.R5', m, f'{len(loops)} loops in _eval_Compare')
        lp = loops[0]
        env = {}
        ok_iter = match(lp.iter, 'zip(node.ops, node.comparators)') and match(lp.target, '(V_op, V_comp)', env)
        ctx.check(ok_iter, 'C04.R5', m, 'chain:iter', 'iterates zip(node.ops, node.comparators)', f'iterates {src(lp.iter)!r}', lp)
        first = find1(m.node.body, 'V_left = self.evaluate(node.left)', env)
        ctx.check(first is not None and first in m.node.body, 'C04.R5', m, 'chain:first-left', 'left starts as evaluate(node.left)', 'left operand is not node.left', lp)
        rdef = find1(lp.body, 'V_right = self.evaluate(V_comp)', env)
        ctx.check(rdef is not None and rdef in lp.body, 'C04.R5', m, 'chain:right', 'right = evaluate(comparator)', 'right operand is not the evaluated comparator', lp)
        # false link -> return False, at loop-body top level
        fl_ = [s for s in lp.body if match(s, 'if not V_result:\n    return False', env)]
        ctx.check(bool(fl_), 'C04.R5', m, 'chain:false-link', 'a false link ends the chain with False', 'no `if not <result>: return False` in the chain loop', lp)
        shift = match(lp.body[-1], 'V_left = V_right', env)
        ctx.check(shift, 'C04.R5', m, 'chain:shift', 'next link compares the previous right operand (left = right)',
                  f'loop ends with {src(lp.body[-1])[:40]!r} instead of `left = right`', lp.body[-1])
        after = m.node.body[m.node.body.index(lp) + 1:]
        ok = len(after) == 1 and match(after[0], 'return True')
        ctx.check(ok, 'C04.R5', m, 'chain:all-true', 'all links true -> True', 'the chain does not end in `return True`', lp)


# --------------------------------------------------------------------------- R6
def r6_primitives(ctx: Ctx) -> None:
    proj = ctx.proj
    te, _ = _evals(ctx)
    en = te.methods['_eval_Name']
    table = _name_return_table(en, 'name', proj=proj)
    for p in PRIMS:
        got = table.get(p)
        ctx.check(got == f'self.ctx.{p}', 'C04.R6', en, f'name:{p}', f'{p} -> self.ctx.{p}', f'bare name {p!r} returns {got!r}, not self.ctx.{p}')
    for lit, val in (('true', 'True'), ('false', 'False')):
        ctx.check(table.get(lit) == val, 'C04.R6', en, f'name:{lit}', f'{lit} -> {val}', f'{lit!r} returns {table.get(lit)!r}')
    ea = te.methods['_eval_Attribute']
    tt = _name_return_table(ea, 'attr_name', proj=proj)
    for p in TXN_ATTRS:
        got = tt.get(p)
        ok = got in (f'self.ctx.{p}', f"getattr(self.ctx, '{p}', '')")
        ctx.check(ok, 'C04.R6', ea, f'txn:{p}', f'txn.{p} -> ctx.{p}', f'txn.{p} returns {got!r}')
    ft = _name_return_table(ea, 'field_name', proj=proj)
    for p in FIELD_BUILTINS:
        got = ft.get(p)
        ok = got in (f'self.ctx.{p}', f"getattr(self.ctx, '{p}', '')")
        ctx.check(ok, 'C04.R6', ea, f'field:{p}', f'field.{p} -> ctx.{p}', f'field.{p} returns {got!r}')
    # context initialisation
    tc = proj.cls(f'{EP}.TransactionContext')
    init = tc.methods['__init__']
    assigns = {}
    for s in ast.walk(init.node):
        if isinstance(s, ast.Assign) and isinstance(s.targets[0], ast.Attribute) and src(s.targets[0].value) == 'self':
            assigns.setdefault(s.targets[0].attr, []).append(s)
    for comp, want in (('month', 'date.month'), ('year', 'date.year'), ('day', 'date.day'), ('weekday', 'date.weekday()')):
        vals = [src(s.value) for s in assigns.get(comp, [])]
        ctx.check(want in vals and all(v in (want, '0') for v in vals), 'C04.R6', init, f'init:{comp}', f'ctx.{comp} = {want} (0 without a date)',
                  f'ctx.{comp} initialised from {vals}')
    for slot in ('description', 'amount', 'date'):
        vals = [src(s.value) for s in assigns.get(slot, [])]
        ctx.check(vals == [slot], 'C04.R6', init, f'init:{slot}', f'ctx.{slot} = {slot}', f'ctx.{slot} initialised from {vals}')
    ft_ = tc.methods['from_transaction']
    for c in [n for n in ast.walk(ft_.node) if isinstance(n, ast.Call) and call_name(n) == 'cls']:
        kw = {k.arg: src(k.value) for k in c.keywords}
        for slot, key in (('amount', 'amount'), ('date', 'date'), ('field', 'field'), ('source', 'source'), ('location', 'location')):
            ok = kw.get(slot, '').replace(' ', '').startswith(f"txn.get('{key}'")
            ctx.check(ok, 'C04.R6', ft_, f'from_txn:{slot}', f'{slot} <- txn[{key!r}]', f'{slot} is taken from {kw.get(slot)!r}')
        ok = kw.get('description', '').replace(' ', '').startswith("txn.get('description'")
        ctx.check(ok, 'C04.R6', ft_, 'from_txn:description', "description <- txn['description']", f"description is taken from {kw.get('description')!r}")
        ctx.check(kw.get('variables') == 'variables' and kw.get('data_sources') == 'data_sources', 'C04.R6', ft_, 'from_txn:env', 'variables and data_sources passed through',
                  f'variables/data_sources are {kw.get("variables")!r}/{kw.get("data_sources")!r}')
    # name resolution order: scope, user variables, primitives, data sources
    order = []
    for s in en.node.body:
        if isinstance(s, ast.If):
            t = s.test
            if isinstance(t, ast.Compare) and len(t.ops) == 1 and isinstance(t.ops[0], ast.In):
                c = src(t.comparators[0])
                from ._tables import const_collection
                if const_collection(t.comparators[0], en.module, en.cls) is not None:
                    if 'prims' not in order:
                        order.append('prims')           # primitives dispatched through a constant collection
                    continue
                order.append({'self._scope': 'scope', 'self.ctx.variables': 'variables', 'self.ctx.data_sources': 'data_sources'}.get(c, c))
            elif isinstance(t, ast.Compare) and len(t.ops) == 1 and isinstance(t.ops[0], ast.Eq) and isinstance(t.comparators[0], ast.Constant):
                if 'prims' not in order:
                    order.append('prims')
    ctx.check(order == ['scope', 'variables', 'prims', 'data_sources'], 'C04.R6', en, 'resolution-order', 'names resolve: scope, variables, primitives, data sources',
              f'name resolution order is {order}')


def _name_return_table(m: FuncInfo, var: str = None, within=None, proj=None) -> Dict[str, str]:
    """{literal: return expression} for every `if <x> == 'literal': return …` under `within` (default: whole method).
    `var` is a *role*: 'name' -> the local assigned from node.id.lower(); 'attr_name' / 'field_name' -> locals assigned from
    node.attr.lower() inside the branch that tests for 'txn' / 'field'.  Local variable names themselves do not matter."""
    root = m.node
    if var in ('attr_name', 'field_name'):
        want = 'txn' if var == 'attr_name' else 'field'
        for n in ast.walk(m.node):
            if isinstance(n, ast.If) and any(isinstance(c, ast.Constant) and c.value == want for c in ast.walk(n.test)) and 'node.value' in src(n.test):
                root = ast.Module(body=n.body, type_ignores=[])
                break
    out = {}
    for n in ast.walk(root):
        if isinstance(n, ast.If) and isinstance(n.test, ast.Compare) and isinstance(n.test.left, ast.Name) \
                and len(n.test.ops) == 1 and isinstance(n.test.ops[0], ast.Eq) and isinstance(n.test.comparators[0], ast.Constant):
            if n.body and isinstance(n.body[0], ast.Return) and n.body[0].value is not None:
                out.setdefault(n.test.comparators[0].value, src(n.body[0].value))
    if proj is not None:
        _table_returns(proj, m, root, out)
    return out


def _table_returns(proj, m: FuncInfo, root, out: Dict[str, str]) -> None:
    """The same table when names are dispatched through constant collections instead of an if-chain:
         if x in NAMES: return getattr(self.ctx, x[, d])        ->  every member m: self.ctx.m   (getattr(self.ctx, 'm', d) with a default)
         if x in TABLE: return TABLE[x]                          ->  every key k: repr(TABLE[k])
         g = TABLE.get(x) / TABLE[x] … return getattr(self.ctx, g)()   ->  every key k: self.ctx.<TABLE[k]>()
       Membership is read off the branch edges that dominate the return (so `if x not in NAMES: raise` in front counts, and a nested
       `if x in OPTIONAL:` subtracts)."""
    from ._tables import const_collection, table_of
    fl = get_flow(proj, m)
    inside = {id(n) for n in ast.walk(root)}
    for r in [s for s in fl.cfg.stmts() if isinstance(s, ast.Return) and s.value is not None and id(s) in inside]:
        v = r.value
        call = v.func if isinstance(v, ast.Call) and isinstance(v.func, ast.Call) else v       # getattr(...)() or getattr(...)
        subj = None
        if isinstance(call, ast.Call) and isinstance(call.func, ast.Name) and call.func.id == 'getattr' and len(call.args) >= 2 and isinstance(call.args[1], ast.Name):
            subj = call.args[1].id
        elif isinstance(v, ast.Subscript) and isinstance(v.slice, ast.Name):
            subj = v.slice.id
        if subj is None:
            continue
        # a subject that is itself looked up in a table: g = TABLE.get(x)
        via = None
        ds = [d for d in fl.cfg.defs_reaching(r, subj) if d != 'param']
        if len(ds) == 1 and isinstance(fl.cfg.stmt[ds[0]], ast.Assign):
            tb = table_of(fl.cfg.stmt[ds[0]].value, m.module, m.cls)
            if tb is not None:
                via = tb[0]
        if via is not None:
            for k_, g_ in via.items():
                if call is not v:
                    out.setdefault(k_, f'self.ctx.{g_}()')
            continue
        members, minus = None, set()
        for atom, truth in fl.cfg.guard_atoms(r):
            if isinstance(atom, ast.Compare) and len(atom.ops) == 1 and isinstance(atom.ops[0], ast.In) and isinstance(atom.left, ast.Name) and atom.left.id == subj:
                col = const_collection(atom.comparators[0], m.module, m.cls)
                if col is None:
                    continue
                if truth:
                    members = set(col) if members is None else members & set(col)
                else:
                    minus |= set(col)
        if members is None:
            continue
        for c in sorted(members - minus):
            if isinstance(v, ast.Subscript):
                tb = table_of(v, m.module, m.cls)
                if tb is not None and c in tb[0]:
                    out.setdefault(c, repr(tb[0][c]))
            elif call is v:
                if len(call.args) == 2:
                    out.setdefault(c, f'{src(call.args[0])}.{c}')
                else:
                    out.setdefault(c, f"getattr({src(call.args[0])}, '{c}', {src(call.args[2])})")


# --------------------------------------------------------------------------- R7
def _canon_method(m: FuncInfo) -> str:
    node = copy.deepcopy(m.node)
    body = node.body
    if body and isinstance(body[0], ast.Expr) and isinstance(body[0].value, ast.Constant) and isinstance(body[0].value.value, str):
        body = body[1:]
    mod = ast.Module(body=body, type_ignores=[])
    # alpha-rename locals
    names = {}
    for n in ast.walk(mod):
        if isinstance(n, ast.Name) and isinstance(n.ctx, ast.Store) and n.id not in names:
            names[n.id] = f'v{len(names)}'
    for n in ast.walk(mod):
        if isinstance(n, ast.Name) and n.id in names:
            n.id = names[n.id]
        if isinstance(n, ast.Constant) and isinstance(n.value, str):
            n.value = 'S'       # messages may differ
    return ast.dump(mod)


def _alpha(text_nodes: List[ast.AST]) -> str:
    """source of statements with local names replaced by v0, v1, … in order of first appearance"""
    import copy
    names = {}
    out = []
    for n in text_nodes:
        c = copy.deepcopy(n)
        for x in ast.walk(c):
            if isinstance(x, ast.Name) and x.id not in ('self', 'isinstance', 'str', 'set', 'ast', 'True', 'False', 'None', 'date_type'):
                if x.id not in names:
                    names[x.id] = f'v{len(names)}'
                x.id = names[x.id]
        out.append(src(c))
    return ' ; '.join(out)


def _op_arms(m: FuncInfo):
    """{ast class name: (If node, subject name)} for every `isinstance(<x>, ast.<Cls>)` arm in the method"""
    arms = {}
    for n in ast.walk(m.node):
        if isinstance(n, ast.If) and isinstance(n.test, ast.Call) and isinstance(n.test.func, ast.Name) and n.test.func.id == 'isinstance' and len(n.test.args) == 2:
            d = dotted(n.test.args[1])
            if d and d.startswith('ast.'):
                arms[d[4:]] = (n, src(n.test.args[0]))
    return arms


def _compare_arms(m: FuncInfo) -> Dict[str, str]:
    return {k: _alpha(v[0].body) for k, v in _op_arms(m).items()}


def r7_siblings(ctx: Ctx) -> None:
    te, ee = _evals(ctx)
    for slot in ('Expression', 'Constant', 'BoolOp', 'BinOp', 'UnaryOp', 'IfExp'):
        a, b = ctx.proj.find_method(te, f'_eval_{slot}'), ctx.proj.find_method(ee, f'_eval_{slot}')
        if a is None or b is None:
            ctx.fail('C04.R7', f'{EP}.{(te if a is None else ee).name}', f'sibling:{slot}', f'_eval_{slot} is missing in one of the evaluators')
            continue
        same = a is b or _canon_method(a) == _canon_method(b)
        if not same and slot in ('BoolOp', 'BinOp', 'UnaryOp', 'IfExp'):
            # written differently: agreement is then established through the common specification each body is
            # checked against separately (R3 zero guard, R4 short-circuit shape, R9 operator table)
            ctx.ok('C04.R7', a, f'_eval_{slot} written differently in the two evaluators; both are held to the same specification by R3/R4/R9', construct=f'sibling:{slot}')
            continue
        ctx.check(same, 'C04.R7', a, f'sibling:{slot}', f'_eval_{slot} identical in both evaluators (or shared)',
                  f'_eval_{slot} differs between TransactionEvaluator (line {a.lineno}) and ExpressionEvaluator (line {b.lineno}): rule conditions and view filters give different meanings to the same syntax')
    a, b = te.methods['_eval_Compare'], ee.methods['_eval_Compare']
    aa, ba = _compare_arms(a), _compare_arms(b)
    for op in ('Eq', 'NotEq', 'Lt', 'LtE', 'Gt', 'GtE'):
        ctx.check(aa.get(op) is not None and aa.get(op) == ba.get(op), 'C04.R7', a, f'sibling:Compare:{op}', f'{op} arm identical in both evaluators',
                  f'{op} arm differs: transaction `{aa.get(op)}` vs view `{ba.get(op)}`')
    # evaluate() dispatch identical
    same = _canon_method(te.methods['evaluate']) == _canon_method(ee.methods['evaluate'])
    ctx.check(same, 'C04.R7', te.methods['evaluate'], 'sibling:evaluate', 'dispatch identical', 'evaluate() dispatch differs between the evaluators')


# --------------------------------------------------------------------------- R8
def _allowed_nodes(proj) -> Set[str]:
    mi = proj.module(EP)
    node = mi.globals_assigned['ALLOWED_NODES'][0]
    return {dotted(e)[4:] for e in node.value.elts if dotted(e) and dotted(e).startswith('ast.')}


def r8_reference(ctx: Ctx) -> None:
    proj = ctx.proj
    ref = proj.func('commands.reference.cmd_reference')
    allowed = _allowed_nodes(proj)
    te, ee = _evals(ctx)
    tc = proj.cls(f'{EP}.TransactionContext')
    ec = proj.cls(f'{EP}.ExpressionContext')
    # function names known to the transaction evaluator
    fn_names = set()
    for s in tc.node.body:
        tgt = s.target if isinstance(s, ast.AnnAssign) else (s.targets[0] if isinstance(s, ast.Assign) else None)
        if isinstance(tgt, ast.Name) and tgt.id == '_FUNCTION_NAMES' and isinstance(s.value, ast.Set):
            fn_names = {e.value for e in s.value.elts if isinstance(e, ast.Constant)}
    fenv = {}
    find1(te.methods['_eval_Call'].node, 'V_fn = node.func.id.lower()', fenv)
    special = {n.comparators[0].value for n in ast.walk(te.methods['_eval_Call'].node)
               if isinstance(n, ast.Compare) and isinstance(n.left, ast.Name) and n.left.id == fenv.get('V_fn') and isinstance(n.comparators[0], ast.Constant)}
    # names dispatched through a class-level table of handler methods (`self._BUILTIN_CALLS.get(func_name)`)
    from ._tables import method_table
    for n_ in ast.walk(te.methods['_eval_Call'].node):
        if isinstance(n_, (ast.Subscript, ast.Call)):
            mt = method_table(n_, te.methods['_eval_Call'].module, te)
            if mt is not None and isinstance(mt[1], ast.Name) and mt[1].id == fenv.get('V_fn'):
                special |= set(mt[0])
    txn_funcs = fn_names | special
    view_funcs = set()
    for s in ast.walk(ec.methods['__init__'].node):
        if isinstance(s, (ast.Assign, ast.AnnAssign)) and dotted(s.targets[0] if isinstance(s, ast.Assign) else s.target) == 'self.functions' and isinstance(s.value, ast.Dict):
            view_funcs = {k.value for k in s.value.keys if isinstance(k, ast.Constant)}
    txn_names = set(_name_return_table(te.methods['_eval_Name'], 'name', proj=proj)) | {'txn', 'field'}
    view_names = set(_name_return_table(ee.methods['_eval_Name'], 'name', proj=proj))
    tables = {}
    for sub in ('show_merchants_reference', 'show_views_reference'):
        f = proj.funcs.get(f'{ref.qualname}.{sub}')
        if f is None:
            ctx.unknown('C04.R8', ref, f'nested function {sub} not found')
        for s in f.node.body:
            if isinstance(s, ast.Assign) and isinstance(s.targets[0], ast.Name) and isinstance(s.value, ast.List) and s.value.elts \
                    and all(isinstance(e, ast.Tuple) for e in s.value.elts):
                tables[(sub, s.targets[0].id, s.lineno)] = s.value.elts
    if len(tables) < 5:
        ctx.unknown('C04.R8', ref, f'only {len(tables)} reference tables found')
    for (sub, tname, _ln), rows in sorted(tables.items(), key=lambda kv: kv[0][2]):
        views = sub == 'show_views_reference'
        evalc = ee if views else te
        funcs = view_funcs if views else txn_funcs
        names = view_names if views else txn_names
        for row in rows:
            cells = [e.value for e in row.elts if isinstance(e, ast.Constant) and isinstance(e.value, str)]
            if not cells:
                continue
            head = cells[0]
            label = f'{"views" if views else "rules"}:{head}'
            # 1. the documented signature / primitive
            sig = head.replace(', ...', '')
            if views and tname == 'primitives':
                ctx.check(head in names, 'C04.R8', ref, label, f'view primitive {head!r} is resolved by the evaluator', f'documented view primitive {head!r} is not a name the view evaluator resolves', row)
            else:
                _check_expr_text(ctx, ref, label, sig if not sig.endswith('()') else sig, allowed, evalc, funcs, names, row, signature=True)
            # 2. examples
            for ex in cells[1:]:
                for prefix in ('match: ', 'filter: '):
                    if ex.startswith(prefix):
                        _check_expr_text(ctx, ref, f'{label}:example', ex[len(prefix):], allowed, evalc, funcs, names, row)
                if (tname in ('extract_funcs', 'transform_funcs') or (views and tname == 'funcs')) and ex == cells[2 if len(cells) > 2 else 1] and '(' in ex and not ex.startswith(('match:', 'filter:')):
                    if ex is cells[-2] or (views and ex is cells[-1]):
                        _check_expr_text(ctx, ref, f'{label}:example', ex, allowed, evalc, funcs, names, row)
            # 3. documented meaning vs type for view primitives compared with numbers
            if views and tname == 'primitives':
                for ex in cells[1:]:
                    if ex.startswith('filter: '):
                        _check_primitive_type(ctx, ref, label, head, ex[len('filter: '):], ec, ee, row)


def _check_expr_text(ctx, ref, label, text, allowed, evalc, funcs, names, node, signature=False) -> None:
    import warnings
    try:
        with warnings.catch_warnings():
            warnings.simplefilter('ignore')
            tree = ast.parse(text, mode='eval')
    except SyntaxError as e:
        ctx.fail('C04.R8', ref, label, f'documented expression {text!r} is not valid syntax of the language ({e.msg}): a user copying it gets a load error', node)
        return
    bad_nodes = sorted({type(n).__name__ for n in ast.walk(tree) if type(n).__name__ not in allowed})
    if signature:
        bad_nodes = [b for b in bad_nodes if b not in ('Constant',)]
    if bad_nodes:
        ctx.fail('C04.R8', ref, label, f'documented expression {text!r} uses node types {bad_nodes} outside the whitelist', node)
        return
    no_eval = sorted({type(n).__name__ for n in ast.walk(tree) if isinstance(n, ast.expr) and ctx.proj.find_method(evalc, f'_eval_{type(n).__name__}') is None})
    if no_eval:
        ctx.fail('C04.R8', ref, label, f'documented expression {text!r} needs {no_eval}, which {evalc.name} cannot evaluate', node)
        return
    calls = [n.func.id.lower() for n in ast.walk(tree) if isinstance(n, ast.Call) and isinstance(n.func, ast.Name)]
    missing = [c for c in calls if c not in funcs]
    if missing:
        ctx.fail('C04.R8', ref, label, f'documented function(s) {missing} in {text!r} are not in the evaluator\'s function table', node)
        return
    ctx.ok('C04.R8', ref, f'{text!r}: parses, whitelisted, evaluable, functions known', node, label)


def _check_primitive_type(ctx, ref, label, prim, text, ec, ee, node) -> None:
    try:
        tree = ast.parse(text, mode='eval')
    except SyntaxError:
        return
    for n in ast.walk(tree):
        if isinstance(n, ast.Compare) and isinstance(n.left, ast.Name) and n.left.id == prim and isinstance(n.comparators[0], ast.Constant) \
                and isinstance(n.comparators[0].value, (int, float)) and isinstance(n.ops[0], (ast.Lt, ast.LtE, ast.Gt, ast.GtE)):
            tbl = _name_return_table(ee.methods['_eval_Name'], 'name', proj=ctx.proj)
            ret = tbl.get(prim, '')
            if ret.startswith('self.ctx.') and ret.endswith('()'):
                getter = ec.methods.get(ret[len('self.ctx.'):-2])
                ann = src(getter.node.returns) if getter is not None and getter.node.returns is not None else ''
                if ann.startswith(('List', 'Set', 'list', 'set', 'Dict')):
                    ctx.fail('C04.R8', ref, f'{label}:type', f'documented as a number ({text!r}) but {prim} evaluates to {ann}: the comparison raises TypeError and the view is silently empty', node)
                    return
            ctx.ok('C04.R8', ref, f'{prim} compared with a number and evaluates to a scalar', node, f'{label}:type')


# --------------------------------------------------------------------------- R9
def r9_operators(ctx: Ctx) -> None:
    for ci in _evals(ctx):
        m = ci.methods['_eval_Compare']
        env = {}
        find1(m.node, 'V_left = self.evaluate(node.left)', env)
        find1(m.node, 'for V_op, V_comp in zip(node.ops, node.comparators):\n    ANY', env) or [find1(m.node, 'V_right = self.evaluate(V_c)', env)]
        find1(m.node, 'V_right = self.evaluate(V_comp2)', env)
        L, R = env.get('V_left', 'left'), env.get('V_right', 'right')
        seen = set()
        for name, (n, subj) in _op_arms(m).items():
            want = OP_TABLE.get(name)
            if want is None:
                ctx.fail('C04.R9', m, f'cmp:{name}', f'arm for unknown comparison class ast.{name}', n)
                continue
            seen.add(name)
            cmps = [c for s in n.body for c in ast.walk(s) if isinstance(c, ast.Compare) and _mentions(c, L) and _mentions(c, R)]
            ok = bool(cmps) and all(len(c.ops) == 1 and isinstance(c.ops[0], want) for c in cmps)
            ctx.check(ok, 'C04.R9', m, f'cmp:{ci.name}:{name}', f'ast.{name} applies {want.__name__}',
                      f'ast.{name} arm applies {[type(c.ops[0]).__name__ for c in cmps]} (expected {want.__name__}): the operator means something else', n)
            order_ok = all(_mentions(c.left, L) and _mentions(c.comparators[0], R) for c in cmps)
            ctx.check(order_ok, 'C04.R9', m, f'cmp-order:{ci.name}:{name}', 'left <op> right', f'ast.{name} arm compares operands in swapped order', n)
        missing = set(OP_TABLE) - seen
        ctx.check(not missing, 'C04.R9', m, f'cmp-total:{ci.name}', 'all eight comparison operators have an arm', f'no arm for {sorted(missing)}')
        m = ci.methods['_eval_BinOp']
        env = {}
        find1(m.node, 'V_left = self.evaluate(node.left)', env)
        find1(m.node, 'V_right = self.evaluate(node.right)', env)
        L, R = env.get('V_left'), env.get('V_right')
        if L is None or R is None:
            ctx.unknown('C04.R9', m, 'operands of _eval_BinOp are not evaluate(node.left) / evaluate(node.right)')
        for name, (n, subj) in _op_arms(m).items():
            want = BIN_TABLE.get(name)
            ops = [b for s in n.body for b in ast.walk(s) if isinstance(b, ast.BinOp)]
            ok = want is not None and bool(ops) and all(isinstance(b.op, want) and src(b.left) == L and src(b.right) == R for b in ops) and subj == 'node.op'
            ctx.check(ok, 'C04.R9', m, f'bin:{ci.name}:{name}', f'ast.{name} applies left {name} right',
                      f'ast.{name} arm computes {[src(b) for b in ops]}', n)
        m = ci.methods['_eval_UnaryOp']
        env = {}
        find1(m.node, 'V_operand = self.evaluate(node.operand)', env)
        O = env.get('V_operand')
        if O is None:
            ctx.unknown('C04.R9', m, 'operand of _eval_UnaryOp is not evaluate(node.operand)')
        for name, (n, subj) in _op_arms(m).items():
            want = UN_TABLE.get(name)
            ops = [b for s in n.body for b in ast.walk(s) if isinstance(b, ast.UnaryOp)]
            ok = want is not None and bool(ops) and all(isinstance(b.op, want) and src(b.operand) == O for b in ops)
            ctx.check(ok, 'C04.R9', m, f'un:{ci.name}:{name}', f'ast.{name} applied to the operand', f'ast.{name} arm computes {[src(b) for b in ops]}', n)
        m = ci.methods['_eval_IfExp']
        ifs = [s for s in m.node.body if isinstance(s, ast.If)]
        ok = len(ifs) == 1 and (match(ifs[0], 'if self.evaluate(node.test):\n    return self.evaluate(node.body)\nelse:\n    return self.evaluate(node.orelse)') or
                                (match(ifs[0], 'if self.evaluate(node.test):\n    return self.evaluate(node.body)') and match(m.node.body[-1], 'return self.evaluate(node.orelse)')))
        ctx.check(ok, 'C04.R9', m, f'ifexp:{ci.name}', 'x if c else y: body under a truthy test, orelse otherwise', 'IfExp arms are not body/orelse under test')


def _mentions(e, name) -> bool:
    return any(isinstance(n, ast.Name) and n.id == name for n in ast.walk(e))


# --------------------------------------------------------------------------- R10
def r10_functions(ctx: Ctx) -> None:
    proj = ctx.proj
    tc = proj.cls(f'{EP}.TransactionContext')
    for name, (need, wrong) in FN_PRIMS.items():
        m = tc.methods.get(f'_fn_{name}')
        if m is None:
            ctx.fail('C04.R10', f'{EP}.TransactionContext', f'fn:{name}', f'documented function {name} has no _fn_{name}')
            continue
        marks = set()
        nodes = list(all_nodes(m.node))
        for sub in proj.funcs.values():
            if sub.outer is m:
                nodes += list(all_nodes(sub.node))
        for n in nodes:
            if isinstance(n, ast.Call):
                marks.add(f'call:{call_name(n)}')
            if isinstance(n, ast.Compare):
                for o in n.ops:
                    marks.add(f'cmp:{type(o).__name__}')
            if isinstance(n, ast.Subscript):
                marks.add('slice' if isinstance(n.slice, ast.Slice) else 'subscript')
        missing = [x for x in need if x not in marks]
        bad = [x for x in wrong if x in marks and x not in need]
        if bad:
            ctx.fail('C04.R10', m, f'fn:{name}', f'{name}() uses {bad}, a primitive known to mean something else than the reference row (expected {need})', m.node)
        elif missing:
            ctx.fail('C04.R10', m, f'fn:{name}', f'{name}() does not reach {missing} (reference row: {need})', m.node)
        else:
            ctx.ok('C04.R10', m, f'{name}() reaches {need}', construct=f'fn:{name}')
    # extract returns group(1); split index applied; strip_prefix slices by len(prefix)
    m = tc.methods.get('_fn_extract')
    if m is not None:
        g = [n for n in ast.walk(m.node) if isinstance(n, ast.Call) and call_name(n) == 'group']
        ok = bool(g) and all(len(c.args) == 1 and isinstance(c.args[0], ast.Constant) and c.args[0].value == 1 for c in g)
        ctx.check(ok, 'C04.R10', m, 'fn:extract:group', 'extract returns the first capture group', f'extract returns {[src(c) for c in g]}')
    for nm, want in (('strip_prefix', 'V_t[len(V_p):]'), ('strip_suffix', 'V_t[:-len(V_p)]')):
        m = tc.methods.get(f'_fn_{nm}')
        if m is not None:
            rets = [r.value for r in ast.walk(m.node) if isinstance(r, ast.Return) and r.value is not None]
            env = {}
            sliced = [r for r in rets if match(r, want, env)]
            plain = [r for r in rets if isinstance(r, ast.Name) and r.id == env.get('V_t')]
            ctx.check(bool(sliced) and bool(plain), 'C04.R10', m, f'fn:{nm}:slice', f'{nm} returns {want.replace("V_", "")} or the text unchanged', f'{nm} returns {[src(r) for r in rets]}')




# --------------------------------------------------------------------------- R11
def r11_scoping(ctx: Ctx) -> None:
    proj = ctx.proj
    te, _ = _evals(ctx)
    n = 0
    for m in te.methods.values():
        fl = get_flow(proj, m)
        for lp in [x for x in all_nodes(m.node) if isinstance(x, ast.For) and isinstance(x.target, ast.Name)]:
            item = lp.target.id
            stores = [s for s in lp.body if isinstance(s, ast.Assign) and isinstance(s.targets[0], ast.Subscript) and src(s.targets[0].value) == 'self._scope'
                      and isinstance(s.value, ast.Name) and s.value.id == item]
            if not stores:
                continue
            n += 1
            key = src(stores[0].targets[0].slice)
            # (a) the previous binding is saved before the loop variable is bound
            saves = [s for s in ast.walk(m.node) if isinstance(s, ast.Assign) and isinstance(s.targets[0], ast.Name) and src(s.value).replace(' ', '') in
                     (f'self._scope.get({key})', f'self._scope.get({key},None)', f'self._scope.get({key},_MISSING)', f'self._scope[{key}]')]
            saved = saves[0].targets[0].id if saves else None
            ok_save = bool(saves) and fl.cfg.dominates(saves[0], stores[0])
            # (b) it is put back
            restores = [s for s in ast.walk(m.node) if isinstance(s, ast.Assign) and isinstance(s.targets[0], ast.Subscript) and src(s.targets[0].value) == 'self._scope'
                        and src(s.targets[0].slice) == key and isinstance(s.value, ast.Name) and s.value.id == saved]
            ok_restore = bool(restores)
            # (c) the variable is removed only when nothing was shadowed
            pops = [c for c in ast.walk(m.node) if isinstance(c, ast.Call) and src(c.func) in ('self._scope.pop',) and c.args and src(c.args[0]) == key]
            dels = [d for d in ast.walk(m.node) if isinstance(d, ast.Delete) and any(src(t) == f'self._scope[{key}]' for t in d.targets)]
            ok_pop = True
            for c in pops + dels:
                st = fl.stmt_of(c)
                g = fl.cfg.guard_literals(st)
                if not any(saved and saved in t for t, tr in g):
                    ok_pop = False
            why = []
            if not ok_save:
                why.append('the binding in scope before the loop is not saved')
            if not ok_restore:
                why.append('the saved binding is never put back')
            if not ok_pop:
                why.append('the variable is removed from the scope unconditionally')
            ctx.check(ok_save and ok_restore and ok_pop, 'C04.R11', m, f'scope:{key}', f'{m.name}: previous binding of {key} saved and restored around each item',
                      f'{m.name}: ' + '; '.join(why) + ': an inner comprehension that reuses the name of an outer loop variable (or of a := binding) destroys the outer binding, '
                      f'unlike the same Python construct (renaming the inner variable changes the result)', lp)
    ctx.need(n >= 2, f'C04.R11: only {n} comprehension loops binding a scope variable found')
    # (d) a := binding made anywhere inside a comprehension lives on in the enclosing scope, as in Python: while an expression is being
    #     evaluated the scope is changed key by key only (loop variable saved / restored / popped, walrus stored); no internal method puts
    #     back a snapshot of the whole scope or empties it, which would also throw away the := bindings made since
    touched = 0
    for m in te.methods.values():
        if m.name == '__init__' or not m.name.startswith('_'):
            continue
        keyed = [x for x in all_nodes(m.node) if isinstance(x, ast.Subscript) and src(x.value) == 'self._scope' and isinstance(x.ctx, (ast.Store, ast.Del))] + \
                [x for x in all_nodes(m.node) if isinstance(x, ast.Call) and src(x.func) in ('self._scope.pop', 'self._scope.setdefault')]
        whole = []
        for x in all_nodes(m.node):
            if isinstance(x, (ast.Assign, ast.AnnAssign, ast.AugAssign)):
                tg = x.targets if isinstance(x, ast.Assign) else [x.target]
                flat = [e for t in tg for e in (t.elts if isinstance(t, (ast.Tuple, ast.List)) else [t])]
                if any(src(t) == 'self._scope' for t in flat) and not (isinstance(x, ast.AnnAssign) and x.value is None):
                    whole.append(x)
            elif isinstance(x, ast.Call) and src(x.func) in ('self._scope.clear', 'setattr') and (src(x.func) != 'setattr' or (
                    len(x.args) >= 2 and src(x.args[0]) == 'self' and isinstance(x.args[1], ast.Constant) and x.args[1].value == '_scope')):
                whole.append(x)
        if not keyed and not whole:
            continue
        touched += 1
        ctx.check(not whole, 'C04.R11', m, f'scope-whole:{m.name}', f'{m.name}: the scope is changed key by key only ({len(keyed)} keyed stores/removals)',
                  f'{m.name} replaces or empties the whole scope during evaluation (`{src(whole[0])[:60]}`, line {whole[0].lineno}): every := binding made since the snapshot '
                  f'is discarded with it, so `[... (x := f(r)) ... for r in rows]` followed by a use of x sees "Unknown variable" or a stale outer value, '
                  f'unlike the same Python construct where := inside a comprehension binds in the enclosing scope' if whole else '', whole[0] if whole else m.node)
    ctx.need(touched >= 3, f'C04.R11: only {touched} evaluator methods changing the scope found (3 confirmed by hand: comprehension loop, generator helper, walrus)')



# --------------------------------------------------------------------------- R12
REWRITES = {'call:join', 'call:split', 'call:replace', 'call:sub', 'call:subn', 'call:lower', 'call:upper', 'call:casefold', 'call:translate', 'call:expandtabs',
            'call:title', 'call:capitalize', 'call:swapcase', 'call:format', 'call:encode', 'call:decode', 'call:normalize'}


def r12_text_as_written(ctx: Ctx) -> None:
    proj = ctx.proj
    n = 0
    for f in [x for x in proj.all_funcs() if x.module.short == EP]:
        fl = None
        for c in own_nodes(f.node):
            if isinstance(c, ast.Call) and dotted(c.func) == 'ast.parse' and c.args:
                fl = fl or get_flow(proj, f)
                n += 1
                ops = {o for _l, os_ in fl.leaf_paths(c.args[0], c) for o in os_}
                bad = sorted(ops & REWRITES)
                ctx.check(not bad, 'C04.R12', f, 'parse-text', 'ast.parse receives the expression text as written',
                          f'the text given to ast.parse went through {bad}: the rewrite also reaches the inside of string literals, so `contains("SQ  *COFFEE")` silently searches for a '
                          f'different text than the one written in the rule', c)
    ctx.need(n >= 1, 'C04.R12: no ast.parse call found in expr_parser')
