"""C13 — in-browser classification equals CLI classification.

Translation validation: classification.py (ast) and the classification block of
spending_report.js (sa.jsmini) are normalised to the same decision-tree terms
and compared path by path.  R2 checks the provenance of the arguments at every
JS call site of categorizeAmount.
"""
from __future__ import annotations

from .. import jsmini, norm
import ast

from ..core import Ctx
from ..flow import get_flow
from ..project import AnalysisError, src

LEVEL = 'translation_validation'
JS = 'src/tally/spending_report.js'

PAIRS = [
    ('classification.get_tags_lower', 'getTagsLower'),
    ('classification.is_income', 'isIncome'),
    ('classification.is_transfer', 'isTransfer'),
    ('classification.is_investment', 'isInvestment'),
    ('classification.is_excluded_from_spending', 'isExcludedFromSpending'),
    ('classification.categorize_amount', 'categorizeAmount'),
    ('classification.calculate_cash_flow', 'calculateCashFlow'),
]
CONSTS = [('INCOME_TAG', 'INCOME_TAG'), ('TRANSFER_TAG', 'TRANSFER_TAG'), ('INVESTMENT_TAG', 'INVESTMENT_TAG'),
          ('EXCLUDED_FROM_SPENDING', 'EXCLUDED_FROM_SPENDING'), ('SPECIAL_TAGS', 'SPECIAL_TAGS')]
SPECIAL = {'income', 'transfer', 'investment'}

_stats = {}


def _canon_set(t):
    if isinstance(t, tuple) and t and t[0] == 'set':
        return ('set', tuple(sorted(t[1], key=repr)))
    return t


def check(ctx: Ctx) -> None:
    proj = ctx.proj
    ctx.rule('C13.R1', 'each Python classification function and its JavaScript mirror normalise to the same decision tree '
                       '(guards, order, comparison operators, leaf slot and value); constants are equal', floor=10)
    ctx.rule('C13.R2', 'every JS call site of categorizeAmount passes the transaction\'s own amount and the transaction\'s own tags '
                       '(as analyze_transactions does on the Python side)', floor=2)
    ctx.rule('C13.R3', 'no JS code outside the mirrored block classifies an amount by a special tag literal without going through '
                       'categorizeAmount/isExcludedFromSpending', floor=1)
    text = proj.read_text(JS)
    toks = jsmini.tokenize(text)
    cls_mod = proj.module('classification')
    anyf = proj.func('classification.categorize_amount')
    atoms = 0
    programs = 0
    disagreements = 0
    samples = []

    # constants
    for pyname, jsname in CONSTS:
        pn = norm.PyNorm(proj, anyf)
        pt = _canon_set(pn._global(pyname))
        d = jsmini.find_top_const(toks, jsname)
        if d is None:
            ctx.fail('C13.R1', f'js:{jsname}', f'const:{jsname}', f'JavaScript constant {jsname} not found', file=JS)
            disagreements += 1
            continue
        jt = _canon_set(norm.JsNorm(toks, ('func', '<top>', [], [], 0)).term(d[3], {}))
        atoms += 1
        if pt == jt:
            ctx.ok('C13.R1', f'classification.{pyname}', f'= js {jsname} = {norm.show(pt)}', construct=f'const:{pyname}')
        else:
            disagreements += 1
            ctx.fail('C13.R1', f'classification.{pyname}', f'const:{pyname}',
                     f'Python {norm.show(pt)} != JavaScript {norm.show(jt)} (line {d[4]})', file=JS)

    # function pairs
    for pyf, jsf in PAIRS:
        fi = proj.func(pyf)
        jf = jsmini.find_function(toks, jsf)
        pp = norm.py_paths(proj, fi)
        if jf is None:
            # the mirror may have been renamed: a top-level function of the same arity that normalises to the same decision tree is the mirror
            want = set(map(repr, [p.summary() for p in pp]))
            for cand in jsmini.top_function_names(toks):
                cf = jsmini.find_function(toks, cand)
                if cf is None or len(cf[2]) != len([a for a in fi.params if a not in ('self', 'cls')]):
                    continue
                try:
                    cp = norm.JsNorm(toks, cf).run()
                except AnalysisError:
                    continue
                if set(map(repr, [p.summary() for p in cp])) == want:
                    jf, jsf = cf, cand
                    break
        if jf is None:
            raise AnalysisError(f'anchor JavaScript function {jsf} not found (and no other top-level function computes what {pyf} computes)')
        jp = norm.JsNorm(toks, jf).run()
        programs += 2
        pa = [p.summary() for p in pp]
        ja = [p.summary() for p in jp]
        ps, js_ = set(map(repr, pa)), set(map(repr, ja))
        atoms += sum(len(c) + 1 for c, _ in pa)
        if (ps == js_ and len(pa) == len(ja)) or norm.equivalent_paths(pa, ja):
            ctx.ok('C13.R1', fi, f'{len(pa)} path(s) equal to js {jsf}' if ps == js_ else f'{len(pa)} python / {len(ja)} js path(s): same function of the same conditions (truth table)',
                   construct=f'pair:{jsf}')
            samples.append({'python': pyf, 'js': jsf, 'paths': [
                {'guards': [f'{norm.show(c)}={v}' for c, v in conds], 'result': norm.show(ret)} for conds, ret in pa][:6]})
        else:
            disagreements += 1
            only_py = [x for x in pa if repr(x) not in js_]
            only_js = [x for x in ja if repr(x) not in ps]

            def render(x):
                conds, ret = x
                return ' & '.join(f'{norm.show(c)}={v}' for c, v in conds) + ' -> ' + norm.show(ret)
            ctx.fail('C13.R1', fi, f'pair:{jsf}',
                     f'decision trees differ: python-only [{"; ".join(map(render, only_py[:3]))}] '
                     f'js-only [{"; ".join(map(render, only_js[:3]))}] (js line {jf[4]})')

    # R2: call-site arguments
    sites = jsmini.call_sites(toks, 'categorizeAmount')
    ctx.count('call_sites', len(sites))
    for idx in sites:
        _check_call_site(ctx, toks, idx)
    # … and the arithmetic helpers get their figures in the order of their parameters: a figure named like one parameter never lands in another
    for hname in ('calculateCashFlow', 'calculateTransfersNet'):
        hf = jsmini.find_function(toks, hname)
        if hf is None:
            continue
        params = [p_ for p_ in hf[2] if isinstance(p_, str)]
        low = [p_.lower() for p_ in params]
        n_sites = 0
        for idx in jsmini.call_sites(toks, hname):
            try:
                call = jsmini.Parser(toks, idx).expr()
            except AnalysisError:
                continue
            if not (isinstance(call, tuple) and call[0] == 'call' and len(call[2]) == len(params)):
                continue
            n_sites += 1
            crossed = []
            for i_, a_ in enumerate(call[2]):
                words = {pr.lower() for _r, pr in _members(a_)} | {r_.lower() for r_ in _roots(a_)}
                other = [params[j_] for j_ in range(len(params)) if j_ != i_ and low[j_] in words]
                if other and low[i_] not in words:
                    crossed.append(f'argument {i_ + 1} ({params[i_]}) is given {other[0]}')
            encl = jsmini.enclosing_function_start(toks, idx)
            where_ = f'js:{hname}@{toks[encl + 1].val if encl is not None and toks[encl + 1].kind == "id" else "site" + str(n_sites)}'
            if crossed:
                ctx.fail('C13.R2', where_, 'args', f'{hname}(…) at line {toks[idx].line}: {"; ".join(crossed)} — the browser computes the figure from swapped inputs, '
                         f'the command line does not', file=JS)
            else:
                ctx.ok('C13.R2', where_, f'{hname}(…) at line {toks[idx].line}: figures passed in parameter order', construct='args')
    # python side of R2: analyze_transactions
    _check_py_call_site(ctx)

    # R3: special-tag literals outside the block
    _check_literals(ctx, toks)
    _check_assets_current(ctx)
    _stats.update(programs=programs, disagreements=disagreements, atoms=atoms, samples=samples)


def _expand(e, env, depth=0):
    """Substitute const-declared names by their initialisers."""
    if depth > 6 or not isinstance(e, tuple):
        return e
    if e and e[0] == 'name' and e[1] in env and env[e[1]] is not None:
        return _expand(env[e[1]], env, depth + 1)
    return tuple(_expand(x, env, depth) if isinstance(x, tuple) else
                 ([_expand(y, env, depth) for y in x] if isinstance(x, list) else x) for x in e)


def _roots(e):
    """Root names of member chains in an expression (literals ignored)."""
    out = set()
    if not isinstance(e, tuple):
        return out
    if e and e[0] == 'name':
        return {e[1]}
    if e and e[0] in ('member',):
        return _roots(e[1])
    if e and e[0] in ('num', 'str', 'bool', 'null'):
        return out
    for x in e[1:]:
        if isinstance(x, tuple):
            out |= _roots(x)
        elif isinstance(x, list):
            for y in x:
                out |= _roots(y)
    return out


def _members(e):
    """(root, prop) pairs of first-level member reads rooted at a name."""
    out = set()
    for n in jsmini.walk(e):
        if n and n[0] == 'member' and isinstance(n[1], tuple) and n[1] and n[1][0] == 'name':
            out.add((n[1][1], n[2]))
    return out


def _check_call_site(ctx, toks, idx):
    line = toks[idx].line
    start = jsmini.enclosing_function_start(toks, idx)
    if start is None:
        ctx.unknown('C13.R2', f'js:line{line}', 'categorizeAmount call outside any function')
    block = jsmini.Parser(toks, start).statement()
    # find the call with its enclosing for-of chain and declarations in scope
    found = []

    def visit(stmts, env, loops):
        env = dict(env)
        for s in stmts:
            k = s[0]
            if k == 'decl':
                if isinstance(s[2], str):
                    env[s[2]] = s[3]
                scan(s[3], env, loops, s[4])
            elif k == 'forof':
                var = s[1]
                scan(s[2], env, loops, s[4])
                body = s[3][1] if s[3][0] == 'block' else [s[3]]
                names = [var] if isinstance(var, str) else list(var[1])
                e2 = dict(env)
                for nme in names:
                    e2[nme] = None
                visit(body, e2, loops + [(names, s[2])])
            elif k == 'if':
                scan(s[1], env, loops, s[4])
                for br in (s[2], s[3]):
                    if br is not None:
                        visit(br[1] if br[0] == 'block' else [br], env, loops)
            elif k == 'block':
                visit(s[1], env, loops)
            elif k in ('expr', 'return', 'throw'):
                scan(s[1], env, loops, s[-1])
            elif k in ('for', 'while', 'forin', 'try'):
                for part in s[1:]:
                    if isinstance(part, tuple) and part and isinstance(part[0], str):
                        visit([part] if part[0] not in ('block',) else part[1], env, loops)
                    elif isinstance(part, list):
                        visit(part, env, loops)

    def scan(e, env, loops, ln):
        if e is None:
            return
        for n in jsmini.walk(e):
            if n and n[0] == 'call' and n[1] == ('name', 'categorizeAmount'):
                found.append((n, dict(env), list(loops), ln))
            if n and n[0] == 'arrow':
                body = n[2]
                if isinstance(body, tuple) and body and body[0] == 'block':
                    e2 = dict(env)
                    for p in n[1]:
                        if isinstance(p, str):
                            e2[p] = None
                    visit(body[1], e2, loops + [([p for p in n[1] if isinstance(p, str)], None)])

    visit(block[1], {}, [])
    hits = [f for f in found if f[3] == line or True]
    if not hits:
        ctx.unknown('C13.R2', f'js:line{line}', 'could not locate categorizeAmount call in its enclosing function')
    for call, env, loops, ln in hits:
        args = call[2]
        site = f'js:{_func_label(toks, start)}'
        if len(args) != 2:
            ctx.fail('C13.R2', site, 'categorizeAmount:arity', f'line {ln}: {len(args)} arguments', file=JS)
            continue
        if not loops:
            ctx.unknown('C13.R2', site, f'line {ln}: call not inside a loop over transactions')
        txn_vars = loops[-1][0]
        a0 = _expand(args[0], env)
        a1 = _expand(args[1], env)
        m0 = _members(a0)
        m1 = _members(a1)
        ok0 = any(r in txn_vars and p == 'amount' for r, p in m0) and _roots(a0) <= set(txn_vars)
        ctx.check(ok0, 'C13.R2', site, 'categorizeAmount:amount',
                  f'line {ln}: amount argument is the loop transaction\'s .amount',
                  f'line {ln}: amount argument does not derive from the iterated transaction ({sorted(m0)})')
        ok1 = any(r in txn_vars and p == 'tags' for r, p in m1) and _roots(a1) <= set(txn_vars)
        if ok1:
            ctx.ok('C13.R2', site, f'line {ln}: tags argument is the loop transaction\'s .tags', construct='categorizeAmount:tags')
        else:
            ctx.fail('C13.R2', site, 'categorizeAmount:tags',
                     f'line {ln}: tags argument derives from {sorted(m1)} (roots {sorted(_roots(a1))}), not from the iterated '
                     f'transaction {txn_vars}.tags: the browser classifies each payment by the merchant-level tag union, the CLI by '
                     f'the transaction\'s own tags', file=JS)
            ctx.obligations[-1].line = ln


def _func_label(toks, brace_idx):
    """Name of `const X = computed(() => {` / function X around a body brace."""
    j = brace_idx
    while j > 0 and j > brace_idx - 12:
        t = toks[j]
        if t.kind == 'kw' and t.val in ('const', 'let', 'function') and toks[j + 1].kind == 'id':
            return toks[j + 1].val
        j -= 1
    return f'line{toks[brace_idx].line}'


def _check_py_call_site(ctx):
    import ast
    fi = ctx.proj.func('analyzer.analyze_transactions')
    calls = [n for n in ast.walk(fi.node) if isinstance(n, ast.Call) and isinstance(n.func, ast.Name)
             and n.func.id == 'categorize_amount']
    if not calls:
        ctx.unknown('C13.R2', fi, 'no categorize_amount call in analyze_transactions')
    from ..flow import Flow
    fl = Flow(ctx.proj, fi)
    for c in calls:
        if len(c.args) != 2:
            ctx.unknown('C13.R2', fi, 'categorize_amount call without two positional arguments', c)
        loopvar = fl.enclosing_loop_var(c)
        a0 = fl.atoms(c.args[0], c)
        a1 = fl.atoms(c.args[1], c)
        ok = f'key:{loopvar}:amount' in a0 and f'key:{loopvar}:tags' in a1
        ctx.check(ok, 'C13.R2', fi, 'categorize_amount:args',
                  f'Python reference call passes {loopvar}[amount], {loopvar}[tags]',
                  f'Python call arguments do not derive from the iterated transaction: {sorted(a0)} / {sorted(a1)}', c)


def _check_assets_current(ctx) -> None:
    """The mirrored JavaScript only counts if it is the one the report runs: with external assets (--no-embedded-html) the .js / .css next to the
    report are (re)written on every run, never kept because a file of that name is already there (an older tally release's classification)."""
    proj = ctx.proj
    ws = proj.func('report.write_summary_file_vue')
    fl = get_flow(proj, ws)
    writes = [c for c in fl.calls('write_text') if c.args and isinstance(c.args[0], ast.Name) and c.args[0].id in ('js_content', 'css_content')]
    if len(writes) < 2:
        ctx.unknown('C13.R3', ws, f'{len(writes)} asset writes (js_content / css_content) found in the external-assets branch')
    for c in writes:
        g = fl.cfg.guard_literals(fl.stmt_of(c))
        stale = [(t, tr) for t, tr in g if 'exists' in t or 'isfile' in t or 'getmtime' in t]
        ctx.check(not stale, 'C13.R3', ws, f'asset-current:{c.args[0].id}', f'{c.args[0].id} is written on every run',
                  f'{src(c)[:50]!r} only happens under {stale}: a report directory that still holds the script of an earlier release keeps running the old classification, '
                  f'which differs from what the command line computes', c)


def _check_literals(ctx, toks):
    # end of mirrored block = token index of calculateCashFlow's closing brace
    end = 0
    for i, t in enumerate(toks):
        if t.kind == 'kw' and t.val == 'function' and toks[i + 1].val == 'calculateCashFlow':
            p = jsmini.Parser(toks, i)
            p.statement()
            end = p.i
    if not end:
        raise AnalysisError('calculateCashFlow not found (end of mirrored block)')
    n = 0
    for i in range(end, len(toks)):
        t = toks[i]
        if t.kind == 'str' and t.val in SPECIAL:
            n += 1
            # accepted: `.includes('<tag>')` used as a condition guarding only counters (count += …)
            # classify: find the enclosing statement; flag if an amount is accumulated under it
            ok, why = _literal_use_ok(toks, i)
            ctx.check(ok, 'C13.R3', f'js:line{t.line}', f'literal:{t.val}',
                      f'special tag literal {t.val!r}: {why}',
                      f'special tag literal {t.val!r} used to classify an amount outside categorizeAmount: {why}')
    if n == 0:
        ctx.ok('C13.R3', 'js', 'no special tag literal outside the mirrored block', construct='literals:none')


def _literal_use_ok(toks, i):
    """A literal use is fine unless the guarded statement accumulates an amount/total."""
    # locate `if (` … `)` containing the literal and the statement it guards
    j = i
    depth = 0
    while j > 0:
        t = toks[j]
        if t.kind == 'p' and t.val == ')':
            depth += 1
        elif t.kind == 'p' and t.val == '(':
            if depth == 0:
                if toks[j - 1].kind == 'kw' and toks[j - 1].val == 'if':
                    break
            else:
                depth -= 1
        elif t.kind == 'p' and t.val in (';', '{', '}') and depth == 0:
            return True, 'not a condition (data/label use)'
        j -= 1
    if j <= 0:
        return True, 'not a condition'
    st = jsmini.Parser(toks, j - 1).statement()
    then = st[2]
    money = set()
    for n in jsmini.walk(then):
        if n and n[0] == 'member' and n[2] in ('amount', 'total', 'filteredTotal', 'creditAmount'):
            money.add(n[2])
    if money:
        return False, f'guarded statement reads {sorted(money)}'
    return True, 'guards a counter only (no amount read)'


def extra_coverage(ctx):
    return {'programs': _stats.get('programs', 0), 'disagreements_checked': _stats.get('atoms', 0),
            'disagreements_found': _stats.get('disagreements', 0),
            'samples': _stats.get('samples', []) or [{'note': 'no pair normalised'}]}
