"""C12 — all output formats render and carry the same data."""
from __future__ import annotations

import ast
import copy
import builtins
import symtable
from typing import Dict, List, Optional, Set

from ..callgraph import all_nodes
from ..cfg import CFG, CONT, ENTRY, BREAK, EXIT, RAISE
from ..core import Ctx
from ..flow import call_name, get_flow
from ..project import AnalysisError, FuncInfo, ancestors, dotted, parent, root_name, src

LEVEL = 'other'
HEADLINE = {'income_total', 'spending_total', 'credits_total', 'cash_flow', 'transfers_in', 'transfers_out', 'transfers_net', 'investment_total'}
HEADLINE_OUT = {  # output key -> stats key it must come from
    'income_total': 'income_total', 'credits_total': 'credits_total', 'spending_total': 'spending_total', 'cash_flow': 'cash_flow',
    'net_cash_flow': 'cash_flow', 'transfers_in': 'transfers_in', 'transfers_out': 'transfers_out', 'transfers_net': 'transfers_net',
    'transfers_total': 'transfers_net', 'investment_total': 'investment_total',
    'incomeTotal': 'income_total', 'spendingTotal': 'spending_total', 'creditsTotal': 'credits_total', 'cashFlow': 'cash_flow',
    'transfersIn': 'transfers_in', 'transfersOut': 'transfers_out', 'transfersNet': 'transfers_net', 'investmentTotal': 'investment_total',
}
LOSSY_OPS = ('lower', 'upper', 'strip', 'title', 'casefold')


def check(ctx: Ctx) -> None:
    ctx.rule('C12.R1', 'no unbound names in any function of analyzer.py / report.py (a NameError would abort that output format)', floor=20)
    ctx.rule('C12.R2', 'script-safe embedding: the JSON put inside <script> passes a sanitiser that neutralises "</"', floor=2)
    ctx.rule('C12.R3', 'placeholder discipline: user data is substituted into the template last; static assets contain no placeholder', floor=3)
    ctx.rule('C12.R4', 'dictionary keys derived from user-visible names are injective (or collisions are handled)', floor=2)
    ctx.rule('C12.R5', 'one source for the headline figures: every renderer reads income / spending / credits / transfers / cash flow from the analysed stats', floor=4)
    ctx.rule('C12.R6', 'field coverage: every key the report builder reads from a transaction record is written by analyze_transactions (or has a fallback), each copied once', floor=8)
    ctx.rule('C12.R8', 'every division by a computed total in the output functions is guarded against a zero divisor (all formats render for refund-only / empty data)', floor=4)
    ctx.rule('C12.R9', 'any bucket decision made outside classification.py (e.g. the per-category type totals of the report) uses the precedence income > investment > transfer of categorize_amount', floor=1)
    ctx.rule('C12.R7', 'every merchant lands in exactly one category/subcategory cell and its total is added once to both levels', floor=7)
    r1_unbound(ctx)
    ws = ctx.proj.func('report.write_summary_file_vue')
    r2_r3(ctx, ws)
    r4_keys(ctx, ws)
    r5_headline(ctx, ws)
    r6_fields(ctx, ws)
    r7_category(ctx, ws)
    r8_divisions(ctx)
    r9_precedence(ctx)


# --------------------------------------------------------------------------- R1
def r1_unbound(ctx: Ctx) -> None:
    proj = ctx.proj
    bi = set(dir(builtins))
    for short in ('analyzer', 'report', 'classification', 'section_engine'):
        mi = proj.module(short)
        try:
            top = symtable.symtable(mi.source, mi.relpath, 'exec')
        except SyntaxError as e:
            raise AnalysisError(f'{mi.relpath} does not compile: {e}')
        module_names = {s.get_name() for s in top.get_symbols() if s.is_assigned() or s.is_imported() or s.is_namespace()}
        module_names |= {'__name__', '__file__', '__doc__', '__builtins__'}

        def visit(table, path):
            for child in table.get_children():
                name = f'{path}.{child.get_name()}' if path else child.get_name()
                if child.get_type() == 'function':
                    missing = []
                    for s in child.get_symbols():
                        if s.is_referenced() and s.is_global() and not s.is_assigned():
                            n = s.get_name()
                            if n not in module_names and n not in bi:
                                missing.append(n)
                    fi = proj.funcs.get(f'tally.{short}.{name}')
                    where = fi if fi is not None else f'{short}.{name}'
                    if missing:
                        for n in sorted(missing):
                            node = None
                            if fi is not None:
                                node = next((x for x in ast.walk(fi.node) if isinstance(x, ast.Name) and x.id == n), None)
                            ctx.fail('C12.R1', where, f'unbound:{n}', f'name {n!r} is read but bound nowhere (not a local, enclosing, module-level or builtin name): '
                                                                       f'reaching that line raises NameError and the output format fails', node, file=mi.relpath)
                    else:
                        ctx.ok('C12.R1', where, 'every name read is bound', construct='unbound:none')
                visit(child, name)
        visit(top, '')


# --------------------------------------------------------------------------- R2 / R3
def _replace_chain(e) -> List[ast.Call]:
    """[innermost … outermost] .replace() calls of a chained expression."""
    out = []
    while isinstance(e, ast.Call) and isinstance(e.func, ast.Attribute) and e.func.attr == 'replace':
        out.append(e)
        e = e.func.value
    return list(reversed(out))


def r2_r3(ctx: Ctx, ws: FuncInfo) -> None:
    proj = ctx.proj
    fl = get_flow(proj, ws)
    html = proj.read_text('src/tally/spending_report.html')
    # the data placeholder sits inside a <script> element
    import re
    m = re.search(r'<script>\s*/\* DATA_PLACEHOLDER \*/\s*</script>', html)
    ctx.check(bool(m), 'C12.R2', 'spending_report.html', 'placeholder:in-script', 'DATA placeholder is the content of a <script> element',
              'DATA placeholder not found as the content of a <script> element')
    seqs = _substitution_sequences(ctx, ws, fl)
    if len(seqs) < 2:
        ctx.unknown('C12.R3', ws, f'{len(seqs)} template substitution sequences found (embedded and external mode expected)')
    for label_node, seq in seqs:
        # seq: [(placeholder text, value expr, anchor stmt)]
        embedded = any(ph == '/* DATA_PLACEHOLDER */' for ph, _v, _a in seq)
        if not embedded:
            ok = all(isinstance(v, ast.Constant) for _ph, v, _a in seq)
            ctx.check(ok, 'C12.R3', ws, 'chain:external', 'external mode: only constant strings are substituted into the HTML', 'external mode substitutes computed text', label_node)
            continue
        order = [ph for ph, _v, _a in seq]
        data_idx = [i for i, (_ph, v, a) in enumerate(seq) if ('call:dumps' in fl.atoms(v, a))]
        ok = bool(data_idx) and data_idx[-1] == len(seq) - 1 and len(data_idx) == 1
        ctx.check(ok, 'C12.R3', ws, 'chain:embedded', f'user data is substituted last ({order})',
                  f'replacement order is {order}: the user data is inserted before {order[data_idx[0] + 1:] if data_idx else "?"}; a description containing that placeholder text '
                  f'gets the static asset spliced into the JSON (report no longer parses)', label_node)
        if data_idx:
            _ph, val, anchor = seq[data_idx[0]]
            _script_safe(ctx, ws, fl, val, anchor)
    # static assets contain no placeholder themselves
    for asset in ('spending_report.js', 'spending_report.css'):
        text = proj.read_text(f'src/tally/{asset}')
        bad = [p for p in ('/* DATA_PLACEHOLDER */', '/* JS_PLACEHOLDER */', '/* CSS_PLACEHOLDER */') if p in text]
        ctx.check(not bad, 'C12.R3', asset, 'asset:no-placeholder', 'asset contains no placeholder text', f'asset contains {bad}')
    # (the external spending_data.js is loaded with <script src=…>: its text is not parsed as HTML, nothing to neutralise there)


def _substitution_sequences(ctx, ws, fl):
    """Ordered (placeholder, value) substitutions applied to the HTML template, per output mode.
    Idioms: a chain t.replace(a, x).replace(b, y)…;  or  v = t; for ph, content in (<literal pairs>): v = v.replace(ph, content)."""
    out = []
    # … or the same thing as consecutive statements  v = v.replace(a, x); v = v.replace(b, y); …  (what an unrolled table loop looks like)
    def blocks(node):
        for fld in ('body', 'orelse', 'finalbody'):
            b = getattr(node, fld, None)
            if isinstance(b, list) and b and isinstance(b[0], ast.stmt):
                yield b
                for x in b:
                    if not isinstance(x, (ast.FunctionDef, ast.AsyncFunctionDef, ast.ClassDef)):
                        yield from blocks(x)
        for h in getattr(node, 'handlers', []) or []:
            yield from blocks(h)
    for b in blocks(ws.node):
        run = []
        for x in list(b) + [None]:
            c = x.value if isinstance(x, ast.Assign) and len(x.targets) == 1 and isinstance(x.targets[0], ast.Name) and isinstance(x.value, ast.Call) else None
            one = c is not None and isinstance(c.func, ast.Attribute) and c.func.attr == 'replace' and len(c.args) == 2 and isinstance(c.func.value, ast.Name) \
                and c.func.value.id == x.targets[0].id and isinstance(c.args[0], ast.Constant) and 'PLACEHOLDER' in str(c.args[0].value)
            if one and (not run or run[-1].targets[0].id == x.targets[0].id):
                run.append(x)
                continue
            if len(run) >= 2:
                out.append((run[0], [(r.value.args[0].value, r.value.args[1], r) for r in run]))
            run = [x] if one else []
    for s_ in fl.cfg.stmts():
        if isinstance(s_, ast.Assign) and isinstance(s_.value, ast.Call):
            chain = _replace_chain(s_.value)
            if len(chain) >= 2 and all(isinstance(c.args[0], ast.Constant) and 'PLACEHOLDER' in str(c.args[0].value) for c in chain):
                out.append((s_, [(c.args[0].value, c.args[1], s_) for c in chain]))
        if isinstance(s_, ast.For) and isinstance(s_.iter, (ast.Tuple, ast.List)) and isinstance(s_.target, ast.Tuple) and len(s_.target.elts) == 2:
            ph_var, val_var = [e.id for e in s_.target.elts if isinstance(e, ast.Name)][:2] if all(isinstance(e, ast.Name) for e in s_.target.elts) else (None, None)
            body_ok = len(s_.body) == 1 and isinstance(s_.body[0], ast.Assign) and isinstance(s_.body[0].value, ast.Call) and call_name(s_.body[0].value) == 'replace' \
                and [src(a) for a in s_.body[0].value.args] == [ph_var, val_var]
            pairs = [e for e in s_.iter.elts if isinstance(e, ast.Tuple) and len(e.elts) == 2 and isinstance(e.elts[0], ast.Constant)]
            if body_ok and len(pairs) == len(s_.iter.elts) and any('PLACEHOLDER' in str(p.elts[0].value) for p in pairs):
                out.append((s_, [(p.elts[0].value, p.elts[1], s_) for p in pairs]))
    return out


def _script_safe(ctx, ws, fl, val, at, label='script-safe:embedded') -> None:
    """val derives from json.dumps and a sanitiser that neutralises '</' (or every '<')."""
    paths = fl.leaf_paths(val, at)
    has_dumps = any('call:dumps' in ops for _, ops in paths)
    # sanitiser: a .replace('</', …) / .replace('<', …) applied after json.dumps on the way to val
    sanitised = False
    for n in ast.walk(ws.node):
        if isinstance(n, ast.Call) and isinstance(n.func, ast.Attribute) and n.func.attr == 'replace' and len(n.args) == 2 \
                and isinstance(n.args[0], ast.Constant) and n.args[0].value in ('</', '<', '/'):       # not '</script': end tags are matched case-insensitively (`</SCRIPT>`)
            recv_atoms = fl.atoms(n.func.value, n)
            if 'call:dumps' in recv_atoms:
                # and that sanitised value is what flows into val
                tgt = parent(n)
                while tgt is not None and not isinstance(tgt, ast.stmt):
                    tgt = parent(tgt)
                if isinstance(tgt, ast.Assign) and isinstance(tgt.targets[0], ast.Name):
                    if f'name:{tgt.targets[0].id}' in {o for _, ops in paths for o in ops} | {f'name:{x}' for x in []}:
                        rep = n.args[1].value if isinstance(n.args[1], ast.Constant) else ''
                        if rep and '</' not in rep and rep != n.args[0].value:
                            sanitised = True
                elif tgt is not None and any(x is n for x in ast.walk(val)):
                    sanitised = True
    # helper function idiom
    for leaf, ops in paths:
        for o in ops:
            if o.startswith('call:') and any(k in o for k in ('escape_script', 'script_safe', 'safe_json', 'escape_json')):
                sanitised = True
    # whatever is rewritten in the serialised text must still be JSON for the same value: inside a JSON string only \" \\ \/ \b \f \n \r \t \uXXXX
    # are escapes, so `a -> b` is value-preserving exactly when b, read as JSON string content, decodes to a
    import json as _json
    for n in ast.walk(ws.node):
        if isinstance(n, ast.Call) and isinstance(n.func, ast.Attribute) and n.func.attr == 'replace' and len(n.args) == 2 \
                and all(isinstance(a, ast.Constant) and isinstance(a.value, str) for a in n.args) and 'call:dumps' in fl.atoms(n.func.value, n):
            a_, b_ = n.args[0].value, n.args[1].value
            try:
                same = '"' not in a_ + b_ and _json.loads('"' + b_ + '"') == _json.loads('"' + a_ + '"')
            except ValueError:
                same = False
            ctx.check(same, 'C12.R2', ws, f'{label}:rewrite:{a_}', f'{a_!r} -> {b_!r} is another JSON spelling of the same text',
                      f'the serialised data is rewritten {a_!r} -> {b_!r}, which is not a JSON spelling of the same text (JSON knows no such escape): '
                      f'a description containing {a_!r} makes the embedded data undecodable or changes it', n)
    ctx.check(has_dumps and sanitised, 'C12.R2', ws, label, 'embedded JSON = json.dumps(...) with "</" neutralised',
              ('value does not come from json.dumps' if not has_dumps else
               'json.dumps output is placed inside <script> without neutralising "</": a description such as "</script><b>" ends the script element, '
               'the data no longer decodes and the remainder is rendered as HTML'), at)


# --------------------------------------------------------------------------- R4
def r4_keys(ctx: Ctx, ws: FuncInfo) -> None:
    proj = ctx.proj
    fl = get_flow(proj, ws)
    # (a) helper functions that derive an id from a name
    mk = proj.funcs.get(f'{ws.qualname}.make_merchant_id')
    if mk is None:
        ctx.unknown('C12.R4', ws, 'make_merchant_id not found')
    rets = [r for r in ast.walk(mk.node) if isinstance(r, ast.Return)]
    lossy = _lossy_ops(rets[0].value) if rets else ['?']
    bm = proj.funcs.get(f'{ws.qualname}.build_section_merchants')
    handled = False
    if bm is not None:
        # collision handling = membership test on the target dict before the store
        for n in ast.walk(bm.node):
            if isinstance(n, ast.Compare) and any(isinstance(o, (ast.In, ast.NotIn)) for o in n.ops) and src(n.comparators[0]) == 'merchants' and 'merchant_id' in src(n.left):
                handled = True
    if lossy and not handled:
        ctx.fail('C12.R4', mk, 'key:merchant_id:' + _sig(lossy), f'make_merchant_id {lossy} maps distinct merchant names to the same id (e.g. "A B", "A_B", "A\'B") and '
                                                  f'merchants[merchant_id] = … overwrites: one merchant and all its transactions vanish from the embedded data', rets[0] if rets else None)
    else:
        ctx.ok('C12.R4', mk, 'merchant ids are injective or collisions handled', construct='key:merchant_id')
    # (b) section ids
    sid = [s for s in ast.walk(ws.node) if isinstance(s, ast.Assign) and src(s.targets[0]) == 'section_id']
    if not sid:
        ctx.unknown('C12.R4', ws, 'section_id assignment not found')
    lossy = _lossy_ops(sid[0].value)
    handled = any(isinstance(n, ast.Compare) and any(isinstance(o, (ast.In, ast.NotIn)) for o in n.ops) and src(n.comparators[0]) == 'sections' and 'section_id' in src(n.left)
                  for n in ast.walk(ws.node))
    if lossy and not handled:
        ctx.fail('C12.R4', ws, 'key:section_id:' + _sig(lossy), f'section_id = {src(sid[0].value)} {lossy}: views "My View" and "my_view" share an id and sections[section_id] = … keeps only the last', sid[0])
    else:
        ctx.ok('C12.R4', ws, 'section ids are injective or collisions handled', construct='key:section_id')


def _sig(lossy: List[str]) -> str:
    """the id-deriving operations themselves are part of the finding's identity: a different (e.g. more aggressive) sanitiser is a different finding"""
    return '+'.join(sorted(lossy))[:120]


def _lossy_ops(e) -> List[str]:
    out = []
    for n in ast.walk(e):
        if isinstance(n, ast.Call) and call_name(n) in ('sub', 'subn') and len(n.args) >= 2:
            out.append(f'sub({src(n.args[0])}->{src(n.args[1])})')
            continue
        if isinstance(n, ast.Call) and isinstance(n.func, ast.Attribute):
            if n.func.attr == 'replace' and len(n.args) == 2 and isinstance(n.args[1], ast.Constant):
                out.append(f'replace({src(n.args[0])}->{src(n.args[1])})')
            elif n.func.attr in LOSSY_OPS:
                out.append(n.func.attr)
    return out


# --------------------------------------------------------------------------- R5
def _fmt_wrappers(ctx: Ctx) -> None:
    """Every output shows the figure that was analysed: a local formatting helper (def fmt(amount): return format_currency(amount, …)) hands its
    argument to format_currency unchanged.  A helper that drops the sign (abs) or rounds leaves it to each call site to put the sign back,
    and the call sites of one output then disagree with the other outputs."""
    proj = ctx.proj
    n = 0
    for fi in proj.all_funcs():
        if fi.module.short not in ('analyzer', 'report', 'commands.explain', 'commands.run'):
            continue
        body = [s_ for s_ in fi.node.body if not (isinstance(s_, ast.Expr) and isinstance(s_.value, ast.Constant))]
        if len(body) != 1 or not isinstance(body[0], ast.Return) or not isinstance(body[0].value, ast.Call) or call_name(body[0].value) != 'format_currency':
            continue
        n += 1
        c = body[0].value
        a0 = c.args[0] if c.args else None
        ok = isinstance(a0, ast.Name) and a0.id in fi.params
        ctx.check(ok, 'C12.R5', fi, f'fmt:{fi.short}', f'{fi.short}() formats its argument unchanged',
                  f'{fi.short}() formats {src(a0) if a0 is not None else None!r} instead of the amount it is given: the sign (or precision) of every figure printed through it depends on each call '
                  f'site putting it back, and one that does not (e.g. Net Transfers) shows a different figure than the markdown / HTML / JSON outputs', c)
    ctx.need(n >= 1, 'C12.R5: no currency formatting wrapper found in the output functions')


def _builders_read_only(ctx: Ctx) -> None:
    """The report builders and exporters only read the analysis: they never change, in place, a list or dict they were handed (the same objects are
    rendered by the other outputs and by later sections of the same report)."""
    from ._rows import alias_mutations
    proj = ctx.proj
    n = 0
    for fi in proj.all_funcs():
        if fi.module.short != 'report' and not (fi.module.short == 'analyzer' and fi.name.startswith(('export_', 'print_', 'build_'))):
            continue
        n += 1
        for st, name, d in alias_mutations(get_flow(proj, fi)):
            ctx.fail('C12.R5', fi, f'mutates-analysis:{name}', f'{src(st)[:50]!r} changes in place the object that {src(d)[:50]!r} took out of the analysed data: a transaction / merchant '
                     f'is then rendered with data it never had (tags of other transactions), and the per-category figures no longer add up to the analysed totals', st)
    ctx.ok('C12.R5', 'report', f'{n} report / export functions change nothing they did not create', construct='mutates-analysis:none')


def r5_headline(ctx: Ctx, ws: FuncInfo) -> None:
    proj = ctx.proj
    _fmt_wrappers(ctx)
    _builders_read_only(ctx)
    # HTML: spending_data entries
    fl = get_flow(proj, ws)
    sd = [s for s in ast.walk(ws.node) if isinstance(s, ast.Assign) and src(s.targets[0]) == 'spending_data' and isinstance(s.value, ast.Dict)]
    if not sd:
        ctx.unknown('C12.R5', ws, 'spending_data literal not found')
    bad = []
    n = 0
    for k, v in zip(sd[0].value.keys, sd[0].value.values):
        if isinstance(k, ast.Constant) and k.value in HEADLINE_OUT:
            n += 1
            want = HEADLINE_OUT[k.value]
            if f'key:stats:{want}' not in fl.atoms(v, sd[0]):
                bad.append(f'{k.value}={src(v)}')
    ctx.check(not bad and n >= 8, 'C12.R5', ws, 'headline-figures', f'{n} headline figures of the HTML data come from the analysed stats',
              f'HTML data figures {bad} do not come from the like-named analysed totals', sd[0])
    for qn in ('analyzer.export_markdown', 'analyzer.print_summary', 'analyzer.print_sections_summary'):
        f = proj.func(qn)
        ffl = get_flow(proj, f)
        bad, n = [], 0
        for s in ffl.cfg.stmts():
            if isinstance(s, ast.Assign) and isinstance(s.targets[0], ast.Name) and s.targets[0].id in HEADLINE:
                n += 1
                if f'key:stats:{s.targets[0].id}' not in ffl.atoms(s.value, s) or any(o.startswith('op:') and o not in ('op:default',) for o in ffl.atoms(s.value, s)):
                    bad.append(f'{s.targets[0].id}={src(s.value)[:40]}')
        if n == 0:
            continue
        ctx.check(not bad, 'C12.R5', f, 'headline-figures', f'{n} headline figures read from stats', f'{bad} are recomputed instead of read from the analysed totals')
        # … and each of them is printed under its own label: in a line `… Spending … {fmt(x)}` x is the analysed spending total
        LABELS = (('Net Cash Flow', 'cash_flow'), ('Cash Flow', 'cash_flow'), ('Net Transfers', 'transfers_net'), ('Income', 'income_total'), ('Spending', 'spending_total'),
                  ('Credits', 'credits_total'), ('Investments', 'investment_total'))
        for js in [x for x in ast.walk(f.node) if isinstance(x, ast.JoinedStr)]:
            want = None
            for part in js.values:
                if isinstance(part, ast.Constant) and isinstance(part.value, str):
                    hits = [(part.value.rfind(lb), key) for lb, key in LABELS if lb in part.value]
                    if hits:
                        want = max(hits)[1] if not any(lb in part.value for lb, _k in LABELS[:3]) else next(k for lb, k in LABELS if lb in part.value)
                elif isinstance(part, ast.FormattedValue) and want is not None and any(isinstance(c_, ast.Call) and call_name(c_) == 'fmt' for c_ in ast.walk(part.value)):
                    at_ = ffl.atoms(part.value, js)
                    shown = sorted(a_[10:] for a_ in at_ if a_.startswith('key:stats:'))
                    names_ = {n_.id for n_ in ast.walk(part.value) if isinstance(n_, ast.Name)}
                    ok_ = f'key:stats:{want}' in at_ or want in names_
                    ctx.check(ok_, 'C12.R5', f, f'label:{want}', f'the {want} line shows the analysed {want}',
                              f'the line labelled for {want} prints {src(part.value)[:40]!r} (derived from {shown or sorted(names_)}): this format reports another figure under that label than the '
                              f'other formats do', js)
                    want = None
    ej = proj.func('analyzer.export_json')
    efl = get_flow(proj, ej)
    out = [s for s in ast.walk(ej.node) if isinstance(s, ast.Assign) and src(s.targets[0]) == 'output' and isinstance(s.value, ast.Dict)]
    if not out:
        ctx.unknown('C12.R5', ej, 'output literal not found in export_json')
    summ = [v for k, v in zip(out[0].value.keys, out[0].value.values) if isinstance(k, ast.Constant) and k.value == 'summary']
    bad = []
    if summ and isinstance(summ[0], ast.Dict):
        for k, v in zip(summ[0].keys, summ[0].values):
            if isinstance(k, ast.Constant) and k.value in HEADLINE_OUT:
                want = HEADLINE_OUT[k.value]
                if f'key:stats:{want}' not in efl.atoms(v, out[0]):
                    bad.append(k.value)
    if bad:
        ctx.fail('C12.R5', ej, 'headline-figures',
                 f'export_json recomputes {bad} from per-merchant totals (by merchant-level tags) instead of reading the analysed totals: a merchant with one income-tagged and one '
                 f'untagged payment is counted wholly as income, so the JSON disagrees with the HTML / Markdown / text figures', summ[0])
    else:
        ctx.ok('C12.R5', ej, 'JSON summary figures come from the analysed totals', construct='headline-figures')


def _once_bound_expander(fnode):
    """A local bound exactly once in the function to a read (`x = d.get('k', …)`, `x = d['k']`, `x = d.get(..) or …`) stands for that read: returns
    expand(expr) -> a copy of expr with such locals written out (so that rules can compare what is *read*, however many temporaries it goes through)."""
    counts = {}
    for n_ in ast.walk(fnode):
        if isinstance(n_, ast.Name) and isinstance(n_.ctx, ast.Store):
            counts[n_.id] = counts.get(n_.id, 0) + 1
    bound = {}
    for s_ in ast.walk(fnode):
        if isinstance(s_, ast.Assign) and len(s_.targets) == 1 and isinstance(s_.targets[0], ast.Name) and counts.get(s_.targets[0].id) == 1:
            v_ = s_.value
            if isinstance(v_, ast.Subscript) or (isinstance(v_, ast.Call) and isinstance(v_.func, ast.Attribute) and v_.func.attr == 'get' and isinstance(v_.func.value, ast.Name)):
                bound[s_.targets[0].id] = v_

    class _X(ast.NodeTransformer):
        def visit_Name(self, node):
            if node.id in bound and isinstance(node.ctx, ast.Load):
                return self.visit(copy.deepcopy(bound[node.id]))
            return node

    def expand(e):
        return _X().visit(copy.deepcopy(e)) if bound else e
    return expand


# --------------------------------------------------------------------------- R6
def r6_fields(ctx: Ctx, ws: FuncInfo) -> None:
    proj = ctx.proj
    an = proj.func('analyzer.analyze_transactions')
    written = set()
    for n in ast.walk(an.node):
        if isinstance(n, ast.Assign) and src(n.targets[0]) == 'txn_data' and isinstance(n.value, ast.Dict):
            written |= {k.value for k in n.value.keys if isinstance(k, ast.Constant)}
        if isinstance(n, ast.Assign) and isinstance(n.targets[0], ast.Subscript) and src(n.targets[0].value) == 'txn_data' and isinstance(n.targets[0].slice, ast.Constant):
            written.add(n.targets[0].slice.value)
    if len(written) < 6:
        ctx.unknown('C12.R6', an, f'transaction record keys {sorted(written)}')
    bm = proj.funcs.get(f'{ws.qualname}.build_section_merchants')
    dicts = [n for n in ast.walk(bm.node) if isinstance(n, ast.Assign) and src(n.targets[0]) == 'txn_json' and isinstance(n.value, ast.Dict)]
    if not dicts:
        ctx.unknown('C12.R6', bm, 'txn_json literal not found')
    d = dicts[0].value
    out_keys = {}
    expand = _once_bound_expander(bm.node)
    for k, v in zip(d.keys, d.values):
        if not isinstance(k, ast.Constant):
            continue
        v = expand(v)
        reads = [c.args[0].value for c in ast.walk(v) if isinstance(c, ast.Call) and isinstance(c.func, ast.Attribute) and c.func.attr == 'get'
                 and src(c.func.value) == 'txn' and c.args and isinstance(c.args[0], ast.Constant)]
        out_keys[k.value] = reads
    for need in ('description', 'amount', 'month', 'tags', 'source'):
        reads = out_keys.get(need)
        if reads is None:
            ctx.fail('C12.R6', bm, f'copy:{need}', f'the embedded transaction has no {need!r}', dicts[0])
            continue
        ok = any(r in written for r in reads)
        same = need in reads or (need == 'description' and 'description' in reads)
        ctx.check(ok and same, 'C12.R6', bm, f'copy:{need}', f'{need} <- record[{reads}] (written by the analyzer)',
                  f'{need} is read from {reads}, of which the analyzer writes {sorted(set(reads) & written)}: the field is lost or taken from the wrong key', dicts[0])
    for k, reads in out_keys.items():
        for r in reads:
            if r not in written and not (k == 'description' and 'description' in reads):
                ctx.fail('C12.R6', bm, f'read:{r}', f'report reads record[{r!r}] which analyze_transactions never writes (and there is no fallback)', dicts[0])
    ef = [n for n in ast.walk(bm.node) if isinstance(n, ast.Assign) and src(n.targets[0]) == "txn_json['extra_fields']"]
    ctx.check(bool(ef) and src(ef[0].value) == "txn['extra_fields']" and 'extra_fields' in written, 'C12.R6', bm, 'copy:extra_fields', 'extra fields copied when present',
              'extra fields are not carried into the embedded data')
    # exactly once: one record per analysed transaction, appended unconditionally
    lp = [n for n in ast.walk(bm.node) if isinstance(n, ast.For) and "data.get('transactions'" in src(n.iter)]
    ok = False
    if lp:
        body = CFG(lp[0].body, loop_body=True, opaque_loops=True)
        apps = [s for s in body.stmts() if isinstance(s, ast.Expr) and isinstance(s.value, ast.Call) and src(s.value.func) == 'txns.append']
        paths = [p for p in body.paths(ENTRY, (CONT, BREAK, EXIT)) if p[-1] != RAISE]
        ids = {body.nid(s) for s in apps}
        ok = bool(apps) and all(sum(1 for n in p if n in ids) == 1 for p in paths) and 'enumerate(' in src(lp[0].iter) and '[' not in src(lp[0].iter).split('enumerate(', 1)[1].replace("['", '').replace("[]", '')
    ctx.check(ok, 'C12.R6', bm, 'once:transactions', 'every transaction record is embedded exactly once', 'transactions can be skipped, filtered or duplicated when embedding')
    ok = any(isinstance(n, ast.Assign) and src(n.targets[0]) == 'merchants[merchant_id]' for n in ast.walk(bm.node)) and \
        any(isinstance(n, ast.For) and src(n.iter) == 'merchant_dict.items()' for n in ast.walk(bm.node))
    ctx.check(ok, 'C12.R6', bm, 'once:merchants', 'every merchant of the input is emitted', 'merchants are not all emitted')
    # the merchant record carries what the analysis computed
    md = [n for n in ast.walk(bm.node) if isinstance(n, ast.Assign) and src(n.targets[0]) == 'merchants[merchant_id]' and isinstance(n.value, ast.Dict)]
    if md:
        vals = {k.value: src(expand(v)) for k, v in zip(md[0].value.keys, md[0].value.values) if isinstance(k, ast.Constant)}
        ctx.check(vals.get('ytd') == "data.get('total', 0)" and vals.get('transactions') == 'txns' and vals.get('displayName') == 'merchant_name' and "data.get('tags'" in vals.get('tags', ''),
                  'C12.R6', bm, 'merchant-record', 'merchant record: ytd = analysed total, its transactions, its tags, its name', f'merchant record fields {vals}')


# --------------------------------------------------------------------------- R7
def r7_category(ctx: Ctx, ws: FuncInfo) -> None:
    proj = ctx.proj
    bc = proj.funcs.get(f'{ws.qualname}.build_category_view')
    if bc is None:
        ctx.unknown('C12.R7', ws, 'build_category_view not found')
    loops = [s for s in bc.node.body if isinstance(s, ast.For)]
    src_loop = [lp for lp in loops if src(lp.iter) == 'by_merchant.items()']
    if not src_loop:
        # no merchant-by-merchant loop over by_merchant any more (e.g. one build_section_merchants call over the whole table): the path-count
        # rules below were confirmed on that loop and do not bind
        ctx.unknown('C12.R7', bc, 'loop over by_merchant.items() not found in build_category_view')
    ctx.check(bool(src_loop) and not any(isinstance(n, (ast.Continue, ast.Break)) for n in ast.walk(src_loop[0])) if src_loop else False, 'C12.R7', bc, 'all-merchants',
              'the category view is built from every analysed merchant', 'some merchants are skipped when building the category view')
    grp = [lp for lp in loops if src(lp.iter) == 'all_merchants.items()']
    if not grp:
        ctx.unknown('C12.R7', bc, 'grouping loop over all_merchants not found')
    body = CFG(grp[0].body, loop_body=True, opaque_loops=True)
    paths = [p for p in body.paths(ENTRY, (CONT, BREAK, EXIT)) if p[-1] != RAISE]
    ctx.count('paths', len(paths))

    # a local bound once in the loop body to a place (`e = d.setdefault(k, {…})`, `e = d[k]`) or to a read (`n = m.get('count', 0)`) stands for it:
    # the statements are compared with such locals written out
    once_bound = {}
    counts_ = {}
    for n_ in ast.walk(grp[0]):
        if isinstance(n_, ast.Name) and isinstance(n_.ctx, ast.Store):
            counts_[n_.id] = counts_.get(n_.id, 0) + 1
    for s_ in grp[0].body:
        if isinstance(s_, ast.Assign) and len(s_.targets) == 1 and isinstance(s_.targets[0], ast.Name) and counts_.get(s_.targets[0].id) == 1:
            v_ = s_.value
            if isinstance(v_, ast.Call) and isinstance(v_.func, ast.Attribute) and v_.func.attr == 'setdefault' and len(v_.args) == 2:
                once_bound[s_.targets[0].id] = ast.Subscript(value=v_.func.value, slice=v_.args[0], ctx=ast.Load())
            elif isinstance(v_, ast.Subscript) or (isinstance(v_, ast.Call) and isinstance(v_.func, ast.Attribute) and v_.func.attr == 'get' and isinstance(v_.func.value, ast.Name)):
                once_bound[s_.targets[0].id] = v_

    class _Expand(ast.NodeTransformer):
        def visit_Name(self, node):
            if node.id in once_bound and isinstance(node.ctx, ast.Load):
                return self.visit(copy.deepcopy(once_bound[node.id]))
            return node

    def xsrc(e) -> str:
        if not once_bound:
            return src(e)
        e2 = copy.deepcopy(e)
        for n_ in ast.walk(e2):
            if hasattr(n_, 'ctx'):
                n_.ctx = ast.Load()
        return ast.unparse(_Expand().visit(e2))
    src_ = src

    def once(pred, label, text_ok, text_bad, target_text=None):
        ids = {body.nid(s) for s in body.stmts() if pred(s)}
        if not ids:
            # the accumulation statement is not there in the spelling the rule knows: a change of shape (setdefault, local references …), or a
            # deleted update.  Only the latter is a verdict: it shows as *no* store / += on that field at all in the loop
            fld_ = label.split(':')[-1]
            exact = [s for s in body.stmts() if isinstance(s, ast.AugAssign) and target_text and src(s.target) == target_text]
            other = [s for s in body.stmts() if isinstance(s, (ast.AugAssign, ast.Assign)) and f"['{fld_}']" in src(s.targets[0] if isinstance(s, ast.Assign) else s.target)]
            if not exact and (other or label == 'cell'):
                ctx.unknown('C12.R7', bc, f'{text_bad}: not in a recognised spelling')
            ctx.fail('C12.R7', bc, label, f'{text_bad}: statement not found', grp[0])
            return
        counts = {sum(1 for n in p if n in ids) for p in paths}
        ctx.check(counts == {1}, 'C12.R7', bc, label, text_ok, f'{text_bad}: executed {sorted(counts)} times depending on the path', grp[0])

    once(lambda s: isinstance(s, ast.Assign) and xsrc(s.targets[0]) == "categories[cat]['subcategories'][subcat]['merchants'][merchant_id]" and src(s.value) == 'merchant',
         'cell', 'each merchant is stored in exactly one category/subcategory cell', 'merchant cell store')
    for level, prefix in (('subcategory', "categories[cat]['subcategories'][subcat]"), ('category', 'categories[cat]')):
        for fld, srcf in (('total', "merchant.get('ytd', 0)"), ('count', "merchant.get('count', 0)"), ('monthly', "merchant.get('monthly', 0)")):
            once(lambda s, p=prefix, f=fld, v=srcf: isinstance(s, ast.AugAssign) and isinstance(s.op, ast.Add) and xsrc(s.target) == f"{p}['{f}']" and xsrc(s.value) == v,
                 f'{level}:{fld}', f'{level} {fld} += merchant {fld}, once', f'{level} {fld} accumulation', target_text=f"{prefix}['{fld}']")
    rets = [r for r in ast.walk(bc.node) if isinstance(r, ast.Return)]
    ctx.check(len(rets) == 1 and src(rets[0].value) == 'categories', 'C12.R7', bc, 'return', 'returns the grouped categories', 'category view is not what is returned')
    # per-category type totals: every transaction is put into the income / investment / transfer / spending sum by its *own* tags (the analysed totals are
    # transaction-level too; a merchant can have differently tagged transactions)
    # (the sums are built transaction by transaction: a merchant's net total under its merged tags is not the sum of its transactions' buckets)
    tt_names = {src(s_.value) for s_ in ast.walk(bc.node) if isinstance(s_, ast.Assign) and isinstance(s_.targets[0], ast.Subscript) and isinstance(s_.targets[0].slice, ast.Constant)
                and s_.targets[0].slice.value == 'typeTotals' and isinstance(s_.value, ast.Name)}
    for s_ in ast.walk(bc.node):
        if isinstance(s_, ast.AugAssign) and isinstance(s_.target, ast.Subscript) and isinstance(s_.target.value, ast.Name) and s_.target.value.id in tt_names:
            per_txn = any(isinstance(a_, ast.For) and "'transactions'" in src(a_.iter) for a_ in ancestors(s_))
            ctx.check(per_txn, 'C12.R7', bc, f'type-totals:per-transaction:{src(s_.target.slice)[:20]}', 'type totals are accumulated transaction by transaction',
                      f'{src(s_)[:60]!r} is not inside a loop over the merchant\'s transactions: a merchant with purchases and a refund (or transfers in and out) contributes its net '
                      f'amount to one bucket, and the per-category sums no longer match the analysed totals', s_)
    tl = [lp for lp in ast.walk(bc.node) if isinstance(lp, ast.For) and isinstance(lp.target, ast.Name) and "'transactions'" in src(lp.iter)]
    for lp in tl:
        reads = [c for c in ast.walk(lp) if isinstance(c, ast.Call) and isinstance(c.func, ast.Attribute) and c.func.attr == 'get' and c.args
                 and isinstance(c.args[0], ast.Constant) and c.args[0].value == 'tags']
        bad_ = [c for c in reads if not (isinstance(c.func.value, ast.Name) and c.func.value.id == lp.target.id)]
        if reads:
            ctx.check(not bad_, 'C12.R7', bc, 'type-totals:own-tags', 'each transaction is classified by its own tags',
                      f'{src(bad_[0])[:40] if bad_ else ""!r} inside the loop over the transactions: the per-category income / spending sums classify a transaction by tags that '
                      f'are not its own, so they no longer add up to the analysed totals', bad_[0] if bad_ else lp)


# --------------------------------------------------------------------------- R8
def r8_divisions(ctx: Ctx) -> None:
    proj = ctx.proj
    n = 0
    for short in ('analyzer', 'report'):
        mi = proj.module(short)
        for f in [x for x in proj.all_funcs() if x.module is mi]:
            fl = None
            for node in all_nodes(f.node):
                if not (isinstance(node, ast.BinOp) and isinstance(node.op, (ast.Div, ast.FloorDiv, ast.Mod))):
                    continue
                if isinstance(node.left, ast.Constant) and isinstance(node.left.value, str):
                    continue     # '%' string formatting
                d = node.right
                if isinstance(d, ast.Constant):
                    continue
                if isinstance(node.op, ast.Div) and isinstance(node.left, (ast.Call, ast.Name, ast.Attribute)) and 'Path' in src(node.left) + src(node.right) or \
                        any(k in src(d) for k in ("'spending_report", 'template', '.html', '.css', '.js')) or 'dir' in src(node.left):
                    continue     # pathlib joins
                n += 1
                names = {x.id for x in ast.walk(d) if isinstance(x, ast.Name)} | {src(x) for x in ast.walk(d) if isinstance(x, (ast.Subscript, ast.Attribute))}
                dtext = src(d)
                guarded = False
                # x / d if d > 0 else 0   |   inside a comprehension `if`   |   statement-level guard
                child = node
                for a in ancestors(node):
                    if isinstance(a, ast.IfExp) and child is a.body and _mentions_positive(a.test, dtext, names):
                        guarded = True
                    if isinstance(a, ast.IfExp) and child is a.orelse and _mentions_nonpositive(a.test, dtext, names):
                        guarded = True
                    if isinstance(a, ast.stmt):
                        break
                    child = a
                if not guarded:
                    fl = fl or get_flow(proj, f)
                    if fl.cfg.has(node):
                        for atom, truth in fl.cfg.guard_atoms(fl.stmt_of(node)):
                            if truth and _mentions_positive(atom, dtext, names):
                                guarded = True
                            if (not truth) and _mentions_nonpositive(atom, dtext, names):
                                guarded = True
                # the number of months of the analysis is never 0 by construction (checked on the producer)
                if not guarded:
                    fl = fl or get_flow(proj, f)
                    if fl.cfg.has(node) and any(x.startswith('key:') and x.endswith(':num_months') for x in fl.atoms(d, node)) or src(d) == 'num_months' and 'num_months' in f.params:
                        guarded = _num_months_nonzero(proj)
                ctx.check(guarded, 'C12.R8', f, f'div:{dtext[:30]}', f'{src(node)[:50]} guarded against a zero divisor',
                          f'`{src(node)[:60]}` divides by {dtext} without a guard: with no positive total (refund-only data, all merchants net negative) this raises ZeroDivisionError and the '
                          f'output format fails to render', node)
    ctx.need(n >= 4, f'C12.R8: only {n} divisions found in analyzer/report')


def _num_months_nonzero(proj) -> bool:
    an = proj.func('analyzer.analyze_transactions')
    defs = [n for n in ast.walk(an.node) if isinstance(n, ast.Assign) and src(n.targets[0]) == 'num_months']
    ok = bool(defs)
    fl = get_flow(proj, an)
    for dn in defs:
        v = dn.value
        if isinstance(v, ast.IfExp):
            # len(x) if x else <positive constant>
            ok = ok and src(v.body).startswith('len(') and src(v.test) in src(v.body) and isinstance(v.orelse, ast.Constant) \
                and isinstance(v.orelse.value, int) and v.orelse.value > 0
        elif isinstance(v, ast.Constant):
            ok = ok and isinstance(v.value, int) and v.value > 0
        elif isinstance(v, ast.Call) and call_name(v) == 'len' and len(v.args) == 1:
            # the same thing as a statement: `if x: n = len(x)`  (len of something known to be non-empty)
            ok = ok and (src(v.args[0]), True) in fl.cfg.guard_literals(dn)
        else:
            ok = False
    return ok


def _mentions_positive(test, dtext, names) -> bool:
    t = src(test).replace(' ', '')
    d = dtext.replace(' ', '')
    if t in (f'{d}>0', f'{d}!=0', d, f'{d}>=1', f'0<{d}'):
        return True
    if isinstance(test, ast.BoolOp) and isinstance(test.op, ast.And):
        return any(_mentions_positive(v, dtext, names) for v in test.values)
    # len(vals) >= 2 guards a division by len(vals); so does the truthiness of vals
    if d.startswith('len(') and (t.startswith(f'{d}>=') or t.startswith(f'{d}>') or t == d[4:-1]):
        return True
    return False


def _mentions_nonpositive(test, dtext, names) -> bool:
    t = src(test).replace(' ', '')
    d = dtext.replace(' ', '')
    return t in (f'{d}==0', f'not{d}', f'{d}<=0', f'{d}<1') or (d.startswith('len(') and t.startswith(f'{d}<'))


# --------------------------------------------------------------------------- R9
SPECIAL_ORDER = ['income', 'investment', 'transfer']


def _tag_of_test(test) -> Optional[str]:
    """'income' for `'income' in tags`, `INCOME_TAG in x`, `is_income(x)`."""
    if isinstance(test, ast.Compare) and len(test.ops) == 1 and isinstance(test.ops[0], ast.In):
        l = test.left
        if isinstance(l, ast.Constant) and l.value in SPECIAL_ORDER:
            return l.value
        if isinstance(l, ast.Name) and l.id.endswith('_TAG') and l.id[:-4].lower() in SPECIAL_ORDER:
            return l.id[:-4].lower()
    if isinstance(test, ast.Call) and isinstance(test.func, ast.Name) and test.func.id.startswith('is_') and test.func.id[3:] in SPECIAL_ORDER:
        return test.func.id[3:]
    return None


def r9_precedence(ctx: Ctx) -> None:
    proj = ctx.proj
    # reference order from categorize_amount's own chain
    ca = proj.func('classification.categorize_amount')
    ref = [r for r in _chain_order(ca.node) if len(r) >= 3]
    # C06 decides whether categorize_amount itself is right; here only agreement matters.  When categorize_amount does not spell its precedence as a
    # chain of three tests (a lookup table, say), the documented order is the reference.
    ref_order = ref[0] if ref else SPECIAL_ORDER
    n = 0
    for short in ('report', 'analyzer', 'commands.explain', 'commands.run', 'commands.discover'):
        mi = proj.module(short)
        for f in [x for x in proj.all_funcs() if x.module is mi]:
            for order in _chain_order(f.node, collect_nodes=True):
                tags, node = order
                if len(tags) < 2:
                    continue
                n += 1
                want = [t for t in ref_order if t in tags]
                ctx.check(tags == want, 'C12.R9', f, f'precedence:{"-".join(tags)}', f'bucket chain tests {tags} in the precedence of categorize_amount',
                          f'this if/elif chain decides the bucket in the order {tags}, categorize_amount uses {want}: a payment tagged with two special tags lands in different buckets '
                          f'in the per-category breakdown and in the headline figures', node)
    if n == 0:
        ctx.ok('C12.R9', 'report', 'no bucket decision chain outside classification.py', construct='precedence:none')


def _chain_order(fnode, collect_nodes=False):
    """Bucket decision chains: if/elif chains on special tags, or the same chain spelled as consecutive `if …: …; return/continue` statements."""
    out = []
    seen = set()
    blocks = []
    for n in ast.walk(fnode):
        for fld in ('body', 'orelse', 'finalbody'):
            b = getattr(n, fld, None)
            if isinstance(b, list) and b and isinstance(b[0], ast.stmt):
                blocks.append(b)
    for blk in blocks:
        for i, n in enumerate(blk):
            if not isinstance(n, ast.If) or id(n) in seen:
                continue
            tags = []
            cur, pos, lst = n, i, blk
            while isinstance(cur, ast.If):
                t = _tag_of_test(cur.test)
                if t is None:
                    break
                seen.add(id(cur))
                tags.append(t)
                if len(cur.orelse) == 1 and isinstance(cur.orelse[0], ast.If):
                    cur, lst, pos = cur.orelse[0], cur.orelse, 0
                elif not cur.orelse and cur.body and isinstance(cur.body[-1], (ast.Return, ast.Continue, ast.Break, ast.Raise)) and pos + 1 < len(lst):
                    cur, pos = lst[pos + 1], pos + 1
                else:
                    cur = None
            if tags:
                out.append((tags, n) if collect_nodes else tags)
    return out
