"""C07 — classification depends only on the current rules and the transaction, not on history."""
from __future__ import annotations

import ast
from typing import Dict, List, Optional, Set, Tuple

from ..callgraph import all_nodes, get_cg, own_nodes
from ..cfg import CFG, ENTRY, EXIT, target_names
from ..core import Ctx
from ..flow import call_name, get_flow
from ..project import AnalysisError, FuncInfo, ancestors, dotted, parent, root_name, src
from .c03 import MUTATORS, _fresh

LEVEL = 'other'

# Classification of the process-wide mutable state, confirmed by reading the code.  A mutable module-level binding
# that is not in this table is reported: new state must be argued for (memo keyed by all inputs / reset on load / output only).
STATE_TABLE = {
    'expr_parser._expression_cache': 'memo',
    'expr_parser._regex_cache': 'memo',
    'merchant_utils._cached_engine': 'engine-cache',
    'merchant_utils._cached_engine_path': 'engine-cache',
    'cli._deprecated_parser_warnings': 'output-only',   # de-duplicates a warning message, never read by classification
}
ENGINE_RESET_EXEMPT = {'match_mode'}       # configuration, set by the constructor
# who may look at the state (confirmed by reading): the cache protocol of R3 only covers these readers; anybody else that consults the state
# gets whatever an earlier call left there
STATE_READERS = {
    'expr_parser._expression_cache': {'expr_parser.parse_expression'},
    'expr_parser._regex_cache': {'expr_parser.TransactionContext._fn_regex'},
    'merchant_utils._cached_engine': {'merchant_utils.get_cached_engine', 'merchant_utils.clear_engine_cache', 'merchant_utils.get_all_rules', 'merchant_utils.normalize_merchant'},
    'merchant_utils._cached_engine_path': {'merchant_utils.clear_engine_cache', 'merchant_utils.get_all_rules'},
}


def check(ctx: Ctx) -> None:
    proj = ctx.proj
    ctx.rule('C07.R1', 'state inventory: every module-level binding mutated by a function, mutable default argument and mutated class attribute is classified (memo / engine cache / output only)', floor=4)
    ctx.rule('C07.R2', 'memo soundness: a cache store C[k] = v uses as key exactly the input the value is computed from (no normalisation the computation does not share), and reads use the same key', floor=4)
    ctx.rule('C07.R3', 'engine-cache protocol: every path of get_all_rules to a return assigns the engine cache, so it always corresponds to the most recent load', floor=1)
    ctx.rule('C07.R4', 'load resets: every engine attribute written while parsing is re-initialised at the top of parse()', floor=3)
    ctx.rule('C07.R5', 'evaluators are per evaluation: never stored in a module / object attribute; the walrus/loop scope is a fresh dict', floor=3)
    ctx.rule('C07.R6', 'classification is read-only: match() and what it reaches never store into the rules, the rows or the caller\'s transaction; apply_transforms writes only the transform target and its _raw_ companion', floor=8)
    r1_inventory(ctx)
    r2_memo(ctx)
    r3_engine_cache(ctx)
    r4_reset(ctx)
    r5_evaluators(ctx)
    r6_readonly(ctx)
    engine_memo_rule(ctx, 'C07.R2')


# --------------------------------------------------------------------------- R1
def _module_mutations(proj):
    """(module.name-qualified binding) -> [(func, node, how)] for module-level names mutated inside functions."""
    out: Dict[str, List] = {}
    for f in proj.all_funcs():
        mi = f.module
        globs = set()
        for n in all_nodes(f.node):
            if isinstance(n, ast.Global):
                globs.update(n.names)
        fl = None
        local_names = None
        for n in all_nodes(f.node):
            # global X; X = ...
            if isinstance(n, (ast.Assign, ast.AugAssign, ast.AnnAssign)):
                tg = n.targets if isinstance(n, ast.Assign) else [n.target]
                for t in tg:
                    for nm in target_names(t):
                        if nm in globs:
                            out.setdefault(f'{mi.short}.{nm}', []).append((f, n, 'rebinding'))
                    if isinstance(t, (ast.Subscript, ast.Attribute)):
                        r = root_name(t)
                        if r and _is_module_global(proj, f, r):
                            out.setdefault(_qual_global(proj, f, t), []).append((f, n, 'item/attr store'))
            if isinstance(n, ast.Call) and isinstance(n.func, ast.Attribute) and n.func.attr in MUTATORS:
                r = root_name(n.func.value)
                if r and _is_module_global(proj, f, r):
                    out.setdefault(_qual_global(proj, f, n.func.value), []).append((f, n, f'.{n.func.attr}()'))
    return out


def _is_module_global(proj, f: FuncInfo, name: str) -> bool:
    if name in ('self', 'cls'):
        return False
    fl = get_flow(proj, f)
    if fl.is_local(name):
        return False
    # nested function: names of enclosing functions are not module globals
    o = f.outer
    while o is not None:
        if get_flow(proj, o).is_local(name):
            return False
        o = o.outer
    mi = f.module
    if name in mi.globals_assigned:
        return True
    r = proj.resolve_name(mi, name)
    return bool(r and r[0] in ('global', 'module'))


def _qual_global(proj, f: FuncInfo, expr) -> str:
    d = dotted(expr)
    r = root_name(expr)
    mi = f.module
    if r in mi.globals_assigned:
        return f'{mi.short}.{r}'
    res = proj.resolve_name(mi, d) if d else None
    if res and res[0] == 'global':
        return f'{res[1].short}.{res[2]}'
    res = proj.resolve_name(mi, r)
    if res and res[0] == 'global':
        return f'{res[1].short}.{res[2]}'
    if res and res[0] == 'module' and d:
        return f'{res[1].short}.{d.split(".", 1)[1] if "." in d else d}'
    return f'{mi.short}.{r}'


def r1_inventory(ctx: Ctx) -> None:
    proj = ctx.proj
    muts = _module_mutations(proj)
    for name, sites in sorted(muts.items()):
        kind = STATE_TABLE.get(name)
        f, n, how = sites[0]
        if kind is None:
            # only module-level containers / rebinding count; os.environ etc. resolve to ext and never get here
            ctx.fail('C07.R1', f, f'state:{name}', f'module-level state {name} is mutated ({how}, {len(sites)} site(s)) and is not classified: '
                                                   f'it outlives a call, so results can depend on what ran before', n)
        else:
            ctx.ok('C07.R1', f, f'{name}: {kind}, mutated at {len(sites)} site(s)', n, f'state:{name}')
    for name in STATE_TABLE:
        if name not in muts:
            ctx.notes.append(f'{name} is in the state table but no longer mutated')
    # readers of the classified state
    for name, allowed in sorted(STATE_READERS.items()):
        mod, var = name.rsplit('.', 1)
        mi = proj.module(mod)
        for f in [x for x in proj.all_funcs() if x.module is mi]:
            if f.short in allowed or any(f.short.startswith(a + '.') for a in allowed):
                continue
            fl_ = None
            for n in own_nodes(f.node):
                if isinstance(n, ast.Name) and n.id == var and isinstance(n.ctx, ast.Load):
                    fl_ = fl_ or get_flow(proj, f)
                    if fl_.is_local(var) and not any(isinstance(g_, ast.Global) and var in g_.names for g_ in own_nodes(f.node)):
                        continue
                    ctx.fail('C07.R1', f, f'state-reader:{var}', f'{f.short} reads {name}, which belongs to {sorted(allowed)}: what it finds there was left by whichever file was loaded '
                             f'before (a rules file reloaded after an edit gets the previous load\'s data)', n)
    # mutable default arguments that are mutated
    n_def = 0
    for f in proj.all_funcs():
        a = f.node.args
        defaults = list(zip(reversed(a.args), reversed(a.defaults))) + [(k, d) for k, d in zip(a.kwonlyargs, a.kw_defaults) if d is not None]
        for arg, dflt in defaults:
            if isinstance(dflt, (ast.List, ast.Dict, ast.Set)) or (isinstance(dflt, ast.Call) and call_name(dflt) in ('list', 'dict', 'set', 'defaultdict')):
                n_def += 1
                mutated = False
                for n in all_nodes(f.node):
                    if isinstance(n, ast.Call) and isinstance(n.func, ast.Attribute) and n.func.attr in MUTATORS and root_name(n.func.value) == arg.arg:
                        mutated = True
                    if isinstance(n, (ast.Assign, ast.AugAssign)):
                        for t in (n.targets if isinstance(n, ast.Assign) else [n.target]):
                            if isinstance(t, ast.Subscript) and root_name(t) == arg.arg:
                                mutated = True
                ctx.check(not mutated, 'C07.R1', f, f'default:{arg.arg}', f'mutable default {arg.arg} is not mutated',
                          f'mutable default argument {arg.arg}={src(dflt)} is mutated: it persists across calls', dflt)
    # class-level mutable attributes mutated through self / cls
    for ci in proj.classes.values():
        cls_muts = {}
        for s in ci.node.body:
            tgt = s.target if isinstance(s, ast.AnnAssign) else (s.targets[0] if isinstance(s, ast.Assign) else None)
            v = getattr(s, 'value', None)
            if isinstance(tgt, ast.Name) and isinstance(v, (ast.List, ast.Dict, ast.Set)):
                cls_muts[tgt.id] = s
        if not cls_muts:
            continue
        for m in ci.methods.values():
            for n in all_nodes(m.node):
                recv = None
                if isinstance(n, ast.Call) and isinstance(n.func, ast.Attribute) and n.func.attr in MUTATORS:
                    recv = n.func.value
                if isinstance(n, ast.Assign):
                    for t in n.targets:
                        if isinstance(t, ast.Subscript):
                            recv = t.value
                if recv is not None and isinstance(recv, ast.Attribute) and recv.attr in cls_muts and root_name(recv) in ('self', 'cls', ci.name):
                    ctx.fail('C07.R1', m, f'class-attr:{ci.name}.{recv.attr}', f'class-level container {ci.name}.{recv.attr} is mutated at run time (shared by all instances)', n)
        for nm in cls_muts:
            ctx.ok('C07.R1', f'{ci.module.short}.{ci.name}', f'class-level container {nm} is read-only', construct=f'class-attr:{ci.name}.{nm}')


# --------------------------------------------------------------------------- R2
def r2_memo(ctx: Ctx) -> None:
    proj = ctx.proj
    muts = _module_mutations(proj)
    for name, kind in STATE_TABLE.items():
        if kind != 'memo':
            continue
        short = name.split('.')[-1]
        for f, n, how in muts.get(name, []):
            if not (isinstance(n, ast.Assign) and isinstance(n.targets[0], ast.Subscript)):
                ctx.fail('C07.R2', f, f'memo:{short}:{how}', f'memo cache {short} is modified by {src(n)[:50]!r}, not by a keyed store', n)
                continue
            key = n.targets[0].slice
            fl = get_flow(proj, f)
            kparams = {x.split(':', 1)[1] for x in fl.atoms(key, n) if x.startswith('param:')}
            vparams = {x.split(':', 1)[1] for x in fl.atoms(n.value, n) if x.startswith('param:')} - {'self'}
            bare = isinstance(key, ast.Name) and key.id in f.params or _is_vararg_item(f, fl, key, n)
            ok = vparams <= kparams and bare
            why = []
            # a memo holds what the computation produced for that key: a stand-in stored when the computation failed (in a handler, or a value that
            # does not come from the key at all) makes later calls succeed where the first one raised
            kvars = {x.split(':', 1)[1] for x in fl.atoms(key, n) if x.startswith(('param:', 'name:', 'loopvar:'))}
            vvars = {x.split(':', 1)[1] for x in fl.atoms(n.value, n) if x.startswith(('param:', 'name:', 'loopvar:'))}
            in_handler = any(isinstance(a_, ast.ExceptHandler) for a_ in ancestors(n))
            if in_handler or not (kvars & vvars):
                ok = False
                why.append('the stored value is not computed from the key' + (' (stored in an exception handler)' if in_handler else '') +
                           ': after a failure the cache answers instead of the computation, so the first transaction sees an error and the later ones a result')
            if not vparams <= kparams:
                why.append(f'value depends on {sorted(vparams - kparams)} which the key does not carry')
            if not bare:
                why.append(f'key {src(key)!r} is a normalised form of the input while the value is computed from the raw input')
            ctx.check(ok, 'C07.R2', f, f'memo:{short}:store', f'{short}[{src(key)}] = f({sorted(vparams)}) – key carries every input, unnormalised',
                      f'{src(n)[:60]!r}: ' + '; '.join(why), n)
            # reads in the same function use the same key expression
            for r in all_nodes(f.node):
                if isinstance(r, ast.Subscript) and isinstance(r.ctx, ast.Load) and dotted(r.value) == short:
                    ctx.check(src(r.slice) == src(key), 'C07.R2', f, f'memo:{short}:read', f'read with the same key {src(key)}',
                              f'cache read {src(r)!r} uses a different key than the store ({src(key)!r})', r)
                if isinstance(r, ast.Compare) and any(isinstance(o, (ast.In, ast.NotIn)) for o in r.ops) and dotted(r.comparators[0]) == short:
                    ctx.check(src(r.left) == src(key), 'C07.R2', f, f'memo:{short}:test', f'membership test with the same key {src(key)}',
                              f'cache test {src(r)!r} uses a different key than the store ({src(key)!r})', r)


def _is_vararg_item(f, fl, key, at) -> bool:
    if not isinstance(key, ast.Name):
        return False
    leaves = fl.leaf_paths(key, at)
    ops_ok = all(not any(o.startswith('call:') or o.startswith('op:') and o not in ('op:elt',) for o in ops) for _, ops in leaves)
    return ops_ok and all(l.startswith(('param:', 'const:')) or l.startswith('attr:') for l, _ in leaves) and bool(leaves)


# --------------------------------------------------------------------------- R3
def r3_engine_cache(ctx: Ctx) -> None:
    proj = ctx.proj
    f = proj.func('merchant_utils.get_all_rules')
    cfg = CFG.of_function(f.node)
    assigns = [s for s in cfg.stmts() if isinstance(s, ast.Assign) and any(isinstance(t, ast.Name) and t.id == '_cached_engine' for t in s.targets)]
    if not assigns:
        ctx.unknown('C07.R3', f, 'get_all_rules never assigns _cached_engine')
    declared = any(isinstance(n, ast.Global) and '_cached_engine' in n.names for n in ast.walk(f.node))
    if not declared:
        ctx.fail('C07.R3', f, 'cache-protocol', '_cached_engine is assigned without `global`: the module cache is never updated', assigns[0])
        return
    blocked = {cfg.nid(s) for s in assigns}
    rets = [s for s in cfg.stmts() if isinstance(s, ast.Return)]
    bad = []
    rebound = {n for s in cfg.stmts() for n in __import__('sa.cfg', fromlist=['defined_names']).defined_names(s)}
    stable = [p for p in f.params if p not in rebound]
    for r in rets:
        if cfg.reachable_without(ENTRY, cfg.nid(r), blocked, stable_names=stable):
            bad.append(r)
    if cfg.reachable_without(ENTRY, EXIT, blocked | {cfg.nid(r) for r in rets}, stable_names=stable):
        bad.append(f.node)
    if bad:
        lines = [getattr(b, 'lineno', f.lineno) for b in bad]
        ctx.fail('C07.R3', f, 'cache-protocol',
                 f'{len(bad)} of {len(rets)} return path(s) (line(s) {lines}) leave _cached_engine as set by an EARLIER load: after loading a.rules, '
                 f'loading b.csv (or a .rules file that fails to parse) keeps classifying with a.rules, because normalize_merchant prefers the cached engine', bad[0] if hasattr(bad[0], 'lineno') else None)
    else:
        ctx.ok('C07.R3', f, f'every one of {len(rets)} return path(s) assigns _cached_engine first', construct='cache-protocol')
    # the cached engine is the one just built (or None)
    fl = get_flow(proj, f)
    for s in assigns:
        v = s.value
        va = fl.atoms(v, s)
        ok = (isinstance(v, ast.Constant) and v.value is None) or ((va & {'call:load_merchants_file', 'call:parse_merchants', 'call:load_csv_as_engine'})
                                                                     and 'global:_cached_engine' not in va and 'name:_cached_engine' not in va)
        ctx.check(ok, 'C07.R3', f, f'cache-value:{src(v)[:20]}', f'_cached_engine = {src(v)} (engine of this load, or None)',
                  f'_cached_engine = {src(v)!r}: not the engine built by this call', s)
    # consumer prefers the cache only when present; clear_engine_cache resets both
    cl = proj.func('merchant_utils.clear_engine_cache')
    names = {t.id for s in ast.walk(cl.node) if isinstance(s, ast.Assign) for t in s.targets if isinstance(t, ast.Name)}
    ctx.check({'_cached_engine', '_cached_engine_path'} <= names, 'C07.R3', cl, 'clear', 'clear_engine_cache resets engine and path', f'clear_engine_cache resets only {sorted(names)}')


# --------------------------------------------------------------------------- R4
def r4_reset(ctx: Ctx) -> None:
    proj = ctx.proj
    ci = proj.cls('merchant_engine.MerchantEngine')
    parse = ci.methods['parse']
    cg = get_cg(proj)
    # attributes written during parsing (parse and the methods it reaches inside the class)
    reach = {q for q in cg.reachable(parse) if q.startswith(ci.qualname + '.')}
    written: Dict[str, ast.AST] = {}
    for q in reach:
        m = proj.funcs[q]
        for n in all_nodes(m.node):
            recv = None
            if isinstance(n, ast.Call) and isinstance(n.func, ast.Attribute) and n.func.attr in MUTATORS:
                recv = n.func.value
            if isinstance(n, (ast.Assign, ast.AugAssign)):
                for t in (n.targets if isinstance(n, ast.Assign) else [n.target]):
                    if isinstance(t, ast.Subscript):
                        recv = t.value
                    elif isinstance(t, ast.Attribute) and isinstance(t.value, ast.Name) and t.value.id == 'self' and m is not parse:
                        written.setdefault(t.attr, n)
            if recv is not None and isinstance(recv, ast.Attribute) and isinstance(recv.value, ast.Name) and recv.value.id == 'self':
                written.setdefault(recv.attr, n)
    if len(written) < 3:
        ctx.unknown('C07.R4', parse, f'only {sorted(written)} found as parse-time state')
    cfg = CFG.of_function(parse.node)
    loops = [s for s in cfg.stmts() if isinstance(s, ast.For)]
    if not loops:
        ctx.unknown('C07.R4', parse, 'no line loop in parse()')
    first_loop = loops[0]
    for attr, site in sorted(written.items()):
        if attr in ENGINE_RESET_EXEMPT:
            continue
        resets = [s for s in cfg.stmts() if isinstance(s, ast.Assign) and any(dotted(t) == f'self.{attr}' for t in s.targets)
                  and isinstance(s.value, (ast.List, ast.Dict, ast.Set, ast.Call, ast.Constant))]
        ok = any(cfg.dominates(s, first_loop) and not cfg.guards(s) for s in resets)
        ctx.check(ok, 'C07.R4', parse, f'reset:{attr}', f'self.{attr} re-initialised at the top of parse()',
                  f'self.{attr} is written while parsing (line {site.lineno}) but not reset at the top of parse(): a second load keeps entries of the first', site)
    # load_csv_as_engine / get_all_rules build fresh engines
    for qn in ('merchant_engine.load_merchants_file', 'merchant_engine.parse_merchants', 'merchant_engine.load_csv_as_engine'):
        f = proj.func(qn)
        fresh = any(isinstance(n, ast.Call) and call_name(n) == 'MerchantEngine' for n in ast.walk(f.node))
        ctx.check(fresh, 'C07.R4', f, 'fresh-engine', 'builds a fresh MerchantEngine', 'does not construct a fresh engine')


# --------------------------------------------------------------------------- R5
def r5_evaluators(ctx: Ctx) -> None:
    proj = ctx.proj
    n = 0
    for f in proj.all_funcs():
        for node in all_nodes(f.node):
            if isinstance(node, ast.Call) and call_name(node) in ('TransactionEvaluator', 'ExpressionEvaluator', 'TransactionContext', 'ExpressionContext', 'from_transaction', 'create_context'):
                p = parent(node)
                stored = None
                if isinstance(p, ast.Assign):
                    for t in p.targets:
                        if isinstance(t, ast.Attribute) or (isinstance(t, ast.Name) and _is_module_global(proj, f, t.id) and
                                                            any(isinstance(g, ast.Global) and t.id in g.names for g in ast.walk(f.node))):
                            stored = t
                if call_name(node) in ('TransactionEvaluator', 'ExpressionEvaluator'):
                    n += 1
                    ctx.check(stored is None, 'C07.R5', f, f'evaluator:{call_name(node)}', f'{call_name(node)} built for this evaluation only',
                              f'{src(p)[:60]!r}: evaluator (with its walrus/loop scope) is kept in {src(stored) if stored is not None else ""!r} across evaluations', node)
                elif stored is not None:
                    ctx.fail('C07.R5', f, f'context:{call_name(node)}', f'{src(p)[:60]!r}: evaluation context kept across evaluations', node)
    ctx.need(not (n < 3), f'C07.R5: only {n} evaluator constructions found')
    te = proj.cls('expr_parser.TransactionEvaluator')
    init = te.methods['__init__']
    scope = [s for s in ast.walk(init.node) if isinstance(s, (ast.Assign, ast.AnnAssign)) and dotted(s.targets[0] if isinstance(s, ast.Assign) else s.target) == 'self._scope']
    ok = len(scope) == 1 and isinstance(scope[0].value, ast.Dict) and not scope[0].value.keys
    ctx.check(ok, 'C07.R5', init, 'scope', 'self._scope = {} in __init__', 'the evaluator scope is not a fresh empty dict per evaluator')
    # class-level _scope would be shared
    for s in te.node.body:
        if isinstance(s, (ast.Assign, ast.AnnAssign)):
            t = s.targets[0] if isinstance(s, ast.Assign) else s.target
            if isinstance(t, ast.Name) and t.id == '_scope':
                ctx.fail('C07.R5', f'expr_parser.TransactionEvaluator', 'scope:class-level', '_scope defined at class level: shared by all evaluations', s)


# --------------------------------------------------------------------------- R6
def r6_readonly(ctx: Ctx) -> None:
    proj = ctx.proj
    cg = get_cg(proj)
    match = proj.func('merchant_engine.MerchantEngine.match')
    reach = sorted(q for q in cg.reachable(match) if not q.startswith('tally.expr_parser.'))   # expr_parser: C03.R8
    checked = 0
    for q in reach:
        f = proj.funcs[q]
        if f.module.short not in ('merchant_engine', 'merchant_utils'):
            continue
        fl = get_flow(proj, f)
        for n in all_nodes(f.node):
            recv, what = None, ''
            if isinstance(n, ast.Call) and isinstance(n.func, ast.Attribute) and n.func.attr in MUTATORS:
                recv, what = n.func.value, f'{n.func.attr}()'
            elif isinstance(n, (ast.Assign, ast.AugAssign, ast.Delete)):
                for t in (n.targets if isinstance(n, (ast.Assign, ast.Delete)) else [n.target]):
                    if isinstance(t, (ast.Subscript, ast.Attribute)):
                        recv, what = t.value, 'store'
            if recv is None:
                continue
            checked += 1
            _judge(ctx, f, fl, recv, n, what)
    ctx.count('mutation_sites', checked)
    # normalize_merchant: the transaction handed to the engine is its own fresh dict
    nm = proj.func('merchant_utils.normalize_merchant')
    fl = get_flow(proj, nm)
    for c in [x for x in fl.calls('match') if isinstance(x.func, ast.Attribute)] + fl.calls('apply_transforms'):
        a = c.args[0] if c.args else None
        ok = isinstance(a, ast.Name) and _fresh(fl, a.id, c)
        ctx.check(ok, 'C07.R6', nm, f'own-dict:{call_name(c)}', f'{call_name(c)} receives normalize_merchant\'s own transaction dict',
                  f'{src(c)[:60]!r}: operates on an object that belongs to the caller', c)
    # apply_transforms: the sanctioned writer
    at = proj.func('merchant_utils.apply_transforms')
    afl = get_flow(proj, at)
    stores = [s for s in afl.cfg.stmts() if isinstance(s, ast.Assign) and any(isinstance(t, ast.Subscript) for t in s.targets)]
    if len(stores) < 3:
        ctx.unknown('C07.R6', at, 'apply_transforms has fewer than 3 stores')
    for s in stores:
        t = [t for t in s.targets if isinstance(t, ast.Subscript)][0]
        key = t.slice
        ka = afl.atoms(key, s)
        is_target = 'name:field_path' in ka or (isinstance(key, ast.Constant) and key.value in ('description', 'field'))
        if isinstance(key, ast.Constant) and key.value == 'description':
            g = afl.cfg.guard_literals(s)
            is_target = any(truth and t_.replace(' ', '') in ("field_name=='description'",) for t_, truth in g)
        root_ok = root_name(t) == at.params[0]
        if not root_ok and isinstance(t.value, ast.Name):
            # the destination dict may be chosen first (`target = transaction` / `target = transaction['field']`): every definition must be the
            # transaction or its 'field' dict; the key is then the transform's field name or 'description'
            ds = [afl.cfg.stmt[d] for d in afl.cfg.defs_reaching(s, t.value.id) if d != 'param']
            def _txn_or_field(v) -> bool:
                if src(v) in (at.params[0], f"{at.params[0]}['field']"):
                    return True
                # transaction.get('field'[, d]) / transaction.setdefault('field', {}): the transaction's own 'field' mapping
                return isinstance(v, ast.Call) and isinstance(v.func, ast.Attribute) and v.func.attr in ('get', 'setdefault') and src(v.func.value) == at.params[0] \
                    and bool(v.args) and isinstance(v.args[0], ast.Constant) and v.args[0].value == 'field'
            root_ok = bool(ds) and all(isinstance(d_, ast.Assign) and _txn_or_field(d_.value) for d_ in ds)
            if root_ok and isinstance(key, ast.Name):
                kds = [afl.cfg.stmt[d] for d in afl.cfg.defs_reaching(s, key.id) if d != 'param']
                is_target = bool(kds) and all(isinstance(d_, ast.Assign) and ('name:field_path' in afl.atoms(d_.value, d_) or (isinstance(d_.value, ast.Constant) and d_.value.value == 'description'))
                                             for d_ in kds)
        ctx.check(is_target and root_ok, 'C07.R6', at, f'transform-store:{src(key)[:20]}', f'writes {src(t)[:40]} (transform target / _raw_ companion)',
                  f'{src(s)[:60]!r}: writes a transaction key that is not the transform target', s)
    # the _raw_ companion is written once (original kept)
    raw = [s for s in stores if 'raw_key' in src(s.targets[0])]
    for s in raw:
        g = afl.cfg.guard_literals(s)
        ok = any((not truth) and 'raw_key in' in t for t, truth in g)
        ctx.check(ok, 'C07.R6', at, 'raw-once', 'original value saved only if not already saved', f'{src(s)[:50]!r} overwrites the saved original', s)


def _judge(ctx, f: FuncInfo, fl, recv, node, what) -> None:
    root = root_name(recv)
    label = f'{what}:{src(recv)[:30]}'
    if root is None:
        return
    if root == 'self':
        chain = src(recv)
        bad = any(chain.startswith(p) for p in ('self.rules', 'self.variables', 'self.transforms', 'self._compiled_exprs'))
        ctx.check(not bad, 'C07.R6', f, label, f'{chain}: not rule-set state', f'{what} on {chain}: classification alters the loaded rule set', node)
        return
    if not fl.is_local(root):
        if _is_module_global(ctx.proj, f, root):
            ctx.check(f'{f.module.short}.{root}' in STATE_TABLE, 'C07.R6', f, label, f'{root}: classified module state', f'{what} on module-level {root} during classification', node)
        return
    if root in f.params:
        leaves = {l for l, _ in fl.leaf_paths(recv, node)}
        # accepted: parameter that every in-package caller passes as a fresh local
        cg = get_cg(ctx.proj)
        from ..flow import arg_of
        ok = bool(cg.callers(f))
        why = 'no in-package caller'
        for caller, call in cg.callers(f):
            a = arg_of(call, f, root)
            if a is None:
                continue
            fl2 = get_flow(ctx.proj, caller)
            if isinstance(a, ast.Name) and (_fresh(fl2, a.id, call) or (caller is f and a.id == root)):
                continue
            ok = False
            why = f'{caller.short} passes {src(a)[:30]!r}'
        if f.name == 'apply_transforms':
            return      # judged separately (sanctioned writer)
        ctx.check(ok, 'C07.R6', f, label, f'{what} on parameter {root}: a fresh object at every call site',
                  f'{what} on parameter {root} ({why}): classification mutates its input', node)
        return
    if _fresh(fl, root, node):
        # a copy is only one level deep: writing *through* one of its entries (copy['field'][k] = v) reaches the object the original holds, unless
        # that entry was itself given a fresh value
        depth, e_ = 0, recv
        while isinstance(e_, (ast.Subscript, ast.Attribute)):
            depth += 1
            e_ = e_.value
        shallow_of_param = False
        for d_ in fl.cfg.defs_reaching(fl.stmt_of(node), root):
            if d_ == 'param':
                continue
            v_ = getattr(fl.cfg.stmt[d_], 'value', None)
            if isinstance(v_, ast.Call) and ((isinstance(v_.func, ast.Name) and v_.func.id in ('dict', 'list') and v_.args and root_name(v_.args[0]) in f.params) or
                                             (isinstance(v_.func, ast.Attribute) and v_.func.attr == 'copy' and root_name(v_.func.value) in f.params)):
                shallow_of_param = True
        if depth >= 1 and shallow_of_param and isinstance(recv, ast.Subscript):
            inner = src(recv)
            fresh_entry = False
            for s_ in fl.cfg.stmts():
                if isinstance(s_, ast.Assign) and any(src(t_) == inner for t_ in s_.targets) and fl.cfg.dominates(s_, fl.stmt_of(node)):
                    v2 = s_.value
                    fresh_entry = isinstance(v2, (ast.Dict, ast.List, ast.Set, ast.DictComp, ast.ListComp)) or \
                        (isinstance(v2, ast.Call) and call_name(v2) in ('dict', 'list', 'set', 'copy', 'deepcopy') )
            ctx.check(fresh_entry, 'C07.R6', f, label, f'{what} on {inner}: an entry of a copy that was given a fresh value',
                      f'{what} through {inner!r}: {root} is a one-level copy of {sorted(p_ for p_ in f.params if p_ != "self")[:1]}, so {inner} is still the caller\'s object and '
                      f'evaluating one transaction changes it (a second evaluation of the same transaction gives another result)', node)
            return
        ctx.ok('C07.R6', f, f'{what} on fresh local {root}', node, label)
        return
    leaves = fl.leaf_paths(recv, node)
    tainted = [l for l, ops in leaves if l.startswith('param:') and l != 'param:self' or any(o in ('.rules', '.tags', '.let_bindings', '.fields') for o in ops) and l == 'param:self']
    ctx.check(not tainted, 'C07.R6', f, label, f'{what} on {root}: derives from fresh values',
              f'{what} on {src(recv)[:40]!r} which derives from {sorted(set(tainted))[:3]}: rules / rows / transaction are altered by classification', node)


# --------------------------------------------------------------------------- engine-level memos
def _deps(fl, e, at) -> Set[str]:
    """Inputs an expression depends on: 'p' for a whole parameter, 'p.attr' for one attribute of it."""
    out = set()
    for leaf, ops in fl.leaf_paths(e, at):
        if not leaf.startswith(('param:', 'loopvar:')):
            continue
        p = leaf.split(':', 1)[1]
        if p in ('self', 'cls'):
            # engine state read: self.rules etc. (a memo of engine state is fine as long as parse() resets it – R4)
            continue
        first_attr = next((o for o in ops if o.startswith('.') and not o.startswith('..')), None)
        idx_name = ops.index(f'name:{p}') if f'name:{p}' in ops else -1
        nxt = ops[idx_name + 1] if 0 <= idx_name < len(ops) - 1 else None
        if nxt and nxt.startswith('.') and not nxt.startswith('.__'):
            out.add(f'{p}{nxt}')
        else:
            out.add(p)
    return out


def engine_memo_rule(ctx: Ctx, rule: str) -> None:
    """Stores into engine attributes made while classifying (self.X[k] = v in methods reachable from match) are memos:
    the key must carry every input the value is computed from."""
    proj = ctx.proj
    cg = get_cg(proj)
    match = proj.func('merchant_engine.MerchantEngine.match')
    ci = match.cls
    reach = [proj.funcs[q] for q in cg.reachable(match) if q.startswith(ci.qualname + '.')]
    n = 0
    for m in sorted(reach, key=lambda x: x.qualname):
        fl = get_flow(proj, m)
        for node in all_nodes(m.node):
            if not isinstance(node, ast.Assign):
                continue
            for t in node.targets:
                if not (isinstance(t, ast.Subscript) and isinstance(t.value, ast.Attribute) and isinstance(t.value.value, ast.Name) and t.value.value.id == 'self'):
                    continue
                n += 1
                old = fl.follow_stores
                fl.follow_stores = True
                try:
                    vdeps = _deps(fl, node.value, node)
                    kdeps = _deps(fl, t.slice, node)
                finally:
                    fl.follow_stores = old
                missing = sorted(d for d in vdeps if d not in kdeps and d.split('.')[0] not in kdeps)
                ctx.check(not missing, rule, m, f'engine-memo:{t.value.attr}',
                          f'self.{t.value.attr}[{src(t.slice)}] memoises a value that depends only on its key',
                          f'self.{t.value.attr}[{src(t.slice)}] = … caches a value computed from {sorted(vdeps)} under a key that only carries {sorted(kdeps)} (missing {missing}): '
                          f'two rules / transactions that share the key get each other\'s result, so the outcome depends on what was classified before (rule names are not unique)', node)
        # any other mutation of an engine attribute while classifying (self.X.add(…), self.X.append(…), self.X = …) is state that one transaction
        # leaves for the next ones; nothing of the kind exists today (the compiled-expression cache is keyed by the expression text itself)
        for node in all_nodes(m.node):
            tgt = None
            if isinstance(node, ast.Call) and isinstance(node.func, ast.Attribute) and node.func.attr in MUTATORS and isinstance(node.func.value, ast.Attribute) \
                    and isinstance(node.func.value.value, ast.Name) and node.func.value.value.id == 'self':
                tgt = node.func.value.attr
            elif isinstance(node, (ast.Assign, ast.AugAssign)):
                for t in (node.targets if isinstance(node, ast.Assign) else [node.target]):
                    if isinstance(t, ast.Attribute) and isinstance(t.value, ast.Name) and t.value.id == 'self':
                        tgt = t.attr
            if tgt is not None and tgt not in ('_compiled_exprs',):
                n += 1
                ctx.fail(rule, m, f'engine-state:{tgt}', f'{src(node)[:60]!r} changes the engine (self.{tgt}) while a transaction is being classified: what it leaves there is seen by '
                         f'every later transaction, so the result for a transaction depends on which ones were classified before it', node)
    if n == 0:
        ctx.ok(rule, match, 'classification stores nothing into engine attributes (no engine-level memo)', construct='engine-memo:none')
