"""C09 — most_specific mode picks the most specific matching rule, whatever the order."""
from __future__ import annotations

import ast
from typing import List, Optional, Set

from ..callgraph import all_nodes, get_cg
from ..core import Ctx
from ..flow import arg_of, call_name, get_flow
from ..project import AnalysisError, FuncInfo, ancestors, dotted, src
from ._deciders import find_engine_decider

LEVEL = 'other'
MODE_LOADERS = {'get_all_rules', 'get_transforms', 'get_tag_only_rules', 'load_merchants_file', 'parse_merchants',
                'load_csv_as_engine', 'MerchantEngine'}
# primitives _eval_Name resolves besides description / booleans – the constraint keyword list is meant to cover them
CONSTRAINT_PRIMS = {'amount', 'date', 'month', 'year', 'day', 'weekday', 'source'}


def check(ctx: Ctx) -> None:
    proj = ctx.proj
    ctx.rule('C09.R1', 'selection idiom: each most_specific winner is max(candidates in rule order, key=specificity) (first of equal keys wins)', floor=3)
    ctx.rule('C09.R2', 'key shape: the key is the specificity tuple of the same rule: (priority, pattern-function count, constraint-kind count, pattern length) in that order', floor=6)
    ctx.rule('C09.R3', 'structural quantities (pattern conditions, constraint kinds) are computed from the parsed expression, not by substring search over its text', floor=1)
    ctx.rule('C09.R4', 'rule_mode is validated to the two literals and passed at every rule / transform load site', floor=10)
    ctx.rule('C09.R5', 'the keyword tables agree with the language: pattern functions = boolean match functions; constraint keywords cover the non-description primitives and field.', floor=2)
    d = find_engine_decider(proj)
    r1_r2_selection(ctx, d)
    r2_key(ctx)
    from .c07 import engine_memo_rule
    engine_memo_rule(ctx, 'C09.R2')
    r4_mode(ctx)


def r1_r2_selection(ctx: Ctx, d) -> None:
    fl = d.fl
    cfg = d.cfg
    # matching_rules built in rule order with (rule, specificity-of-that-rule, env)
    appends = [n for n in ast.walk(d.loop) if isinstance(n, ast.Call) and isinstance(n.func, ast.Attribute) and n.func.attr == 'append'
               and isinstance(n.func.value, ast.Name) and n.args and isinstance(n.args[0], ast.Tuple)]
    pools = {}
    for n in appends:
        elts = n.args[0].elts
        spec_idx = None
        for i, e in enumerate(elts):
            a = fl.atoms(e, n)
            if 'call:calculate_specificity' in a:
                spec_idx = i
                # specificity of the *same* rule
                ok = f'name:{d.rule_var}' in a or f'loopvar:{d.rule_var}' in a
                calls = [c for c in fl.calls('calculate_specificity') if d.in_loop(c)]
                ok = ok and all(c.args and src(c.args[0]) == d.rule_var for c in calls)
                ctx.check(ok, 'C09.R2', d.fi, f'pool:{n.func.value.id}', f'{n.func.value.id} holds (rule, calculate_specificity(rule), …)',
                          f'{src(n)[:70]!r}: specificity is not computed for the rule it is stored with', n)
        if spec_idx is not None:
            pools[n.func.value.id] = (spec_idx, elts)
            rule_idx = [i for i, e in enumerate(elts) if isinstance(e, ast.Name) and e.id == d.rule_var]
            ctx.check(d.matched_guard(fl.stmt_of(n)) and rule_idx == [0], 'C09.R1', d.fi, f'pool-order:{n.func.value.id}',
                      'matching rules are appended in rule order, only when matched', f'{src(n)[:60]!r}', n)
    if not pools:
        ctx.unknown('C09.R1', d.fi, 'no (rule, specificity, …) pool built in the rule loop', d.loop)
    pool, (spec_idx, _e) = next(iter(pools.items()))

    # selections in the most_specific branch
    sels = []
    for s in cfg.stmts():
        if d.in_loop(s) or not isinstance(s, ast.Assign):
            continue
        v = s.value
        if isinstance(v, ast.Subscript):          # sorted(...)[0]
            base = v.value
        else:
            base = v
        if isinstance(base, ast.Call) and call_name(base) in ('max', 'min', 'sorted', 'next') and base.args:
            g = cfg.guard_literals(s)
            if ("self.match_mode == 'first_match'", True) in g:
                continue
            sels.append((s, v, base))
    # winner taken by position from a list that was ranked earlier: ranked = sorted(pool, key=…) ; … ; winner = some_list[-1]
    def ranked_source(name: str, at, depth: int = 0):
        if depth > 3:
            return None
        for dn in cfg.defs_reaching(at, name):
            if dn == 'param':
                continue
            ds = cfg.stmt[dn]
            val = getattr(ds, 'value', None)
            if val is None:
                continue
            for c in ast.walk(val):
                if isinstance(c, ast.Call) and call_name(c) == 'sorted':
                    return c
            for nm in [x.id for x in ast.walk(val) if isinstance(x, ast.Name) and x.id != name]:
                r = ranked_source(nm, ds, depth + 1)
                if r is not None:
                    return r
        return None
    positional = []
    for s in cfg.stmts():
        if d.in_loop(s) or not isinstance(s, ast.Assign):
            continue
        v = s.value
        if isinstance(v, ast.Subscript) and isinstance(v.value, ast.Name) and isinstance(v.slice, (ast.Constant, ast.UnaryOp)):
            g = cfg.guard_literals(s)
            if ("self.match_mode == 'first_match'", True) in g:
                continue
            srt = ranked_source(v.value.id, s)
            if srt is not None:
                positional.append((s, v, srt))
    for s, v, srt in positional:
        idx = src(v.slice).replace(' ', '')
        rev = [kw.value for kw in srt.keywords if kw.arg == 'reverse']
        desc = bool(rev) and isinstance(rev[0], ast.Constant) and rev[0].value is True
        ok = desc and idx == '0'
        why = (f'{src(s)[:50]!r} takes element [{idx}] of a list ranked by {"descending" if desc else "ascending"} sorted(): '
               + ('the stable sort keeps file order among equal keys, so the last element is the LATER of two equally specific rules (ties must go to the earlier rule)' if idx == '-1' and not desc
                  else 'this is not the most specific rule with ties going to the earlier one'))
        ctx.check(ok, 'C09.R1', d.fi, f'select:{src(s.targets[0])}:{src(v)[:24]}', f'{src(v)[:40]} of a descending stable sort', why, s)
    manual = [s for s in cfg.stmts() if isinstance(s, ast.For) and not d.in_loop(s) and s is not d.loop
              and any(isinstance(n, ast.Compare) and any(isinstance(o, (ast.Gt, ast.GtE, ast.Lt, ast.LtE)) for o in n.ops) for n in ast.walk(s))
              and any(isinstance(n, ast.Name) and n.id == pool for n in ast.walk(s.iter))]
    for lp in manual:
        ge = [n for n in ast.walk(lp) if isinstance(n, ast.Compare) and any(isinstance(o, ast.GtE) for o in n.ops)]
        ctx.check(not ge, 'C09.R1', d.fi, 'manual-loop', 'manual selection loop with strict > (earlier rule keeps ties)',
                  f'manual selection loop compares with >=: on equal specificity the later rule wins', lp)
    if len(sels) + len(manual) + len(positional) < 3:
        ctx.unknown('C09.R1', d.fi, f'{len(sels)} winner selections found in the most_specific branch (merchant, category, subcategory expected)')
    # the winner of a field is chosen among the rules that provide that field: the merchant among rules with a merchant, the subcategory among
    # rules with a subcategory (a winner taken from the wrong candidate list leaves the field empty although a matching rule sets it)
    from . import c02 as _c02
    for s, v, base in sels:
        tg_ = s.targets[0]
        tn_ = [tg_.id] if isinstance(tg_, ast.Name) else [e.id for e in getattr(tg_, 'elts', []) if isinstance(e, ast.Name) and e.id != '_']
        fed_ = set()
        for t_ in tn_:
            fed_ |= _c02._fields_fed(d, s, t_)
        conds_ = _c02.candidate_conds(d, s, base.args[0]) if base.args else None
        if conds_ is None:
            continue
        # each field is resolved on its own: which rules compete for one field never depends on the winner of another
        if base.args and isinstance(base.args[0], ast.Name):
            seen_, work_ = set(), [base.args[0].id]
            dep = None
            while work_:
                nm_ = work_.pop()
                for dn in d.cfg.defs_reaching(s, nm_):
                    if dn == 'param' or (dn, nm_) in seen_:
                        continue
                    seen_.add((dn, nm_))
                    dv = getattr(d.cfg.stmt[dn], 'value', None)
                    if isinstance(dv, (ast.ListComp, ast.GeneratorExp)):
                        if any(isinstance(n_, ast.Name) and n_.id == 'result' for g_ in dv.generators for c_ in g_.ifs for n_ in ast.walk(c_)):
                            dep = d.cfg.stmt[dn]
                        work_ += [g_.iter.id for g_ in dv.generators if isinstance(g_.iter, ast.Name)]
                    elif isinstance(dv, ast.Name):
                        work_.append(dv.id)
            for fld_ in sorted(fed_):
                ctx.check(dep is None, 'C09.R1', d.fi, f'field-independent:{fld_}', f'the candidates for {fld_} do not depend on another field\'s winner',
                          f'the candidates for {fld_} are narrowed by what was already chosen for another field ({src(dep)[:70] if dep is not None else ""!r}): a lower-ranked rule can supply '
                          f'the {fld_} over the most specific rule that sets one', dep if dep is not None else s)
        for fld_ in sorted(fed_ & {'merchant', 'subcategory'}):
            ok_ = any(f'has_{fld_}' in c_ or _c02._reads_attr(c_, fld_) for c_ in conds_)
            ctx.check(ok_, 'C09.R1', d.fi, f'field-candidates:{fld_}', f'the {fld_} winner is chosen among rules that set a {fld_}',
                      f'the {fld_} winner is chosen among {conds_}: the most specific of *those* need not set a {fld_}, so the {fld_} stays empty '
                      f'although a matching rule provides one', s)
    for s, v, base in sels:
        fn = call_name(base)
        cand = base.args[0]
        keys = [kw.value for kw in base.keywords if kw.arg == 'key']
        rev = [kw.value for kw in base.keywords if kw.arg == 'reverse']
        label = f'select:{src(s.targets[0])}:{src(cand)[:24]}'
        ok, why = True, ''
        if fn == 'max' and not isinstance(v, ast.Subscript):
            pass
        elif fn == 'sorted' and isinstance(v, ast.Subscript) and isinstance(v.slice, ast.Constant) and v.slice.value == 0 \
                and rev and isinstance(rev[0], ast.Constant) and rev[0].value is True:
            pass        # stable descending sort: first of equal keys stays first
        elif fn == 'min':
            ok, why = False, 'min() selects the LEAST specific rule'
        elif fn == 'sorted':
            ok, why = False, f'{src(v)[:50]!r}: with an ascending sort / last element, ties go to the later rule (or the least specific wins)'
        else:
            ok, why = False, f'unrecognised selection {src(v)[:50]!r}'
        # candidates derive from the pool, in order
        a = fl.atoms(cand, s)
        if ok and f'name:{pool}' not in a:
            ok, why = False, f'candidates {src(cand)[:40]!r} do not derive from {pool}'
        if ok:
            from .c01 import _reordering_expr
            for dn in (cfg.defs_reaching(s, cand.id) if isinstance(cand, ast.Name) else []):
                if dn != 'param':
                    bad = _reordering_expr(getattr(cfg.stmt[dn], 'value', ast.Constant(None)) or ast.Constant(None))
                    if bad:
                        ok, why = False, f'candidate list is reordered ({bad}): ties no longer go to the earlier rule'
        # key = the specificity component
        if ok:
            if len(keys) != 1 or not isinstance(keys[0], ast.Lambda):
                ok, why = False, 'no key=lambda selecting the specificity'
            else:
                body = keys[0].body
                arg = keys[0].args.args[0].arg if keys[0].args.args else None
                good = isinstance(body, ast.Subscript) and isinstance(body.value, ast.Name) and body.value.id == arg \
                    and isinstance(body.slice, ast.Constant) and body.slice.value == spec_idx
                if not good:
                    ok, why = False, f'key {src(keys[0])!r} does not select the specificity tuple (component {spec_idx})'
        ctx.check(ok, 'C09.R1', d.fi, label, f'{src(v)[:60]}', why, s)


def r2_key(ctx: Ctx) -> None:
    proj = ctx.proj
    f = proj.func('merchant_engine.calculate_specificity')
    fl = get_flow(proj, f)
    rets = [s for s in fl.cfg.stmts() if isinstance(s, ast.Return)]
    if len(rets) != 1 or not isinstance(rets[0].value, ast.Tuple):
        ctx.unknown('C09.R2', f, 'calculate_specificity does not end in a single tuple return')
    elts = rets[0].value.elts
    ctx.check(len(elts) == 4, 'C09.R2', f, 'arity', '4 components', f'{len(elts)} components (priority, patterns, constraints, length expected)', rets[0])
    if len(elts) != 4:
        return
    r = rets[0]
    rule_p = f.params[0]
    atoms = [fl.atoms(e, r) for e in elts]
    leafs = [fl.leaf_paths(e, r) for e in elts]
    # literal lists that drive the two counts
    lists = {}
    for s in fl.cfg.stmts():
        if isinstance(s, ast.Assign) and len(s.targets) == 1 and isinstance(s.targets[0], ast.Name) and isinstance(s.value, (ast.List, ast.Tuple, ast.Set)) \
                and all(isinstance(e, ast.Constant) and isinstance(e.value, str) for e in s.value.elts):
            lists[s.targets[0].id] = [e.value for e in s.value.elts]
    # … also when the lists are module-level constants
    from ._tables import const_collection
    for nm_ in {n.id for n in ast.walk(f.node) if isinstance(n, ast.Name) and isinstance(n.ctx, ast.Load)} - set(lists):
        if not fl.is_local(nm_):
            col = const_collection(ast.Name(id=nm_, ctx=ast.Load()), f.module)
            if col is not None and col and all(isinstance(x, str) for x in col):
                lists[nm_] = list(col)

    def driven_by(i):
        # by data flow (`sum(… for f in LIST)`) or by control (`if x in LIST: count += 1`)
        ctl = set()
        if isinstance(elts[i], ast.Name):
            for s_ in fl.cfg.stmts():
                tg = s_.targets if isinstance(s_, ast.Assign) else [s_.target] if isinstance(s_, ast.AugAssign) else []
                if any(isinstance(t, ast.Name) and t.id == elts[i].id for t in tg):
                    for atom, _tr in fl.cfg.guard_atoms(s_):
                        ctl |= {n.id for n in ast.walk(atom) if isinstance(n, ast.Name)}
        return [nm for nm in lists if f'name:{nm}' in atoms[i] or f'global:{nm}' in atoms[i] or nm in ctl]
    c0 = f'attr:{rule_p}.priority' in atoms[0] and not any(a.startswith('call:') for a in atoms[0])
    ctx.check(c0, 'C09.R2', f, 'component:0', 'explicit priority first', f'component 0 is {src(elts[0])!r}, not the rule priority', r)
    d1, d2 = driven_by(1), driven_by(2)
    pat_list = [nm for nm in d1 if any(x.rstrip('(') in ('contains', 'regex') for x in lists[nm])]
    con_list = [nm for nm in d2 if any(x in ('amount', 'date') for x in lists[nm])]
    ctx.check(bool(pat_list) and not [nm for nm in d1 if nm in con_list], 'C09.R2', f, 'component:1', f'pattern-condition count driven by {pat_list}',
              f'component 1 ({src(elts[1])!r}) is not the count over the pattern-function list (driven by {d1})', r)
    ctx.check(bool(con_list) and not [nm for nm in d2 if nm in pat_list], 'C09.R2', f, 'component:2', f'constraint-kind count driven by {con_list}',
              f'component 2 ({src(elts[2])!r}) is not the count over the constraint keywords (driven by {d2})', r)
    c3 = 'call:_extract_pattern_length' in atoms[3] and f'attr:{rule_p}.match_expr' in atoms[3]
    ctx.check(c3, 'C09.R2', f, 'component:3', 'total pattern text length last', f'component 3 is {src(elts[3])!r}', r)
    # counts: number of occurrences (sum) for patterns, number of kinds (1 per keyword) for constraints
    if pat_list and con_list:
        # R5 table agreement
        tc = proj.cls('expr_parser.TransactionContext')
        bool_fns = set()
        for m in tc.methods.values():
            if m.name.startswith('_fn_') and m.node.returns is not None and src(m.node.returns) == 'bool':
                bool_fns.add(m.name[4:])
        have = {x.rstrip('(') for x in lists[pat_list[0]]}
        ctx.check(have == bool_fns, 'C09.R5', f, 'table:pattern-functions', f'pattern functions {sorted(have)} = boolean match functions of the language',
                  f'pattern-function list {sorted(have)} differs from the boolean match functions {sorted(bool_fns)} '
                  f'(missing {sorted(bool_fns - have)}, extra {sorted(have - bool_fns)}): conditions using the missing ones do not count', r)
        all_with_paren = all(x.endswith('(') for x in lists[pat_list[0]])
        kws = set(lists[con_list[0]])
        need = CONSTRAINT_PRIMS | {'field.'}
        # primitives the evaluator really resolves
        te = proj.cls('expr_parser.TransactionEvaluator')
        en = te.methods['_eval_Name']
        prims = {n.comparators[0].value for n in ast.walk(en.node) if isinstance(n, ast.Compare) and isinstance(n.left, ast.Name) and n.left.id == 'name'
                 and isinstance(n.comparators[0], ast.Constant)}
        prims -= {'description', 'true', 'false'}
        ctx.check(kws >= (prims | {'field.'}), 'C09.R5', f, 'table:constraint-keywords', f'constraint keywords {sorted(kws)} cover the primitives {sorted(prims)} and field.',
                  f'constraint keywords {sorted(kws)} miss {sorted((prims | {"field."}) - kws)}: rules constrained by them do not rank as more specific', r)
        # R3: counted from text?
        text_based = []

        def is_text(e, at) -> bool:
            """e is (a case-folded copy of) the expression's source text, not something obtained by parsing it"""
            at_ = fl.atoms(e, at)
            return f'attr:{rule_p}.match_expr' in at_ and not ({'call:parse_expression', 'call:parse', 'call:walk'} & at_)
        for s in fl.cfg.stmts():
            if isinstance(s, ast.Assign) and isinstance(s.value, ast.Call):
                for n in ast.walk(s.value):
                    if isinstance(n, ast.Call) and isinstance(n.func, ast.Attribute) and n.func.attr in ('count', 'find', 'index') and is_text(n.func.value, s):
                        text_based.append(n)
                    if isinstance(n, ast.Compare) and any(isinstance(o, ast.In) for o in n.ops) and is_text(n.comparators[0], s):
                        text_based.append(n)
        uses_ast = False        # a parse elsewhere in the function does not make a substring count structural
        # names searched for in the *text* have to carry their "(" or they also match inside other words; names compared with the callee of a
        # parsed call need not
        ctx.check(all_with_paren or not text_based, 'C09.R5', f, 'table:pattern-call-form', 'pattern functions are counted as calls',
                  'pattern function names are searched for in the expression text without "(" and also match inside other words', r)
        if text_based and not uses_ast:
            ctx.fail('C09.R3', f, 'text-count',
                     f'pattern conditions and constraint kinds are counted by substring search over the expression text ({src(text_based[0])[:40]!r}, …): '
                     f'keywords inside string literals count too, e.g. contains("SUNDAY") scores a `day` constraint and outranks contains("FARMERS MARKET")', text_based[0])
        else:
            ctx.ok('C09.R3', f, 'counts are computed from the parsed expression', construct='text-count')
    # pattern length helper: sums lengths of the string literals of the expression
    pl = proj.func('merchant_engine._extract_pattern_length')
    pfl = get_flow(proj, pl)
    rets = [s for s in pfl.cfg.stmts() if isinstance(s, ast.Return)]
    ok = len(rets) == 1 and 'call:sum' in pfl.atoms(rets[0].value, rets[0]) and 'call:len' in pfl.atoms(rets[0].value, rets[0])
    ctx.check(ok, 'C09.R2', pl, 'pattern-length', 'sum of the lengths of the quoted pattern strings', f'returns {src(rets[0].value) if rets else "?"!r}')
    # tuple comparison is lexicographic by construction: components are plain numbers
    ctx.ok('C09.R2', f, 'tuple of numbers compared lexicographically by max()', construct='lexicographic')


def r4_mode(ctx: Ctx) -> None:
    proj = ctx.proj
    cg = get_cg(proj)
    lc = proj.func('config_loader.load_config')
    fl = get_flow(proj, lc)
    # validation in load_config
    stores = [s for s in fl.cfg.stmts() if isinstance(s, ast.Assign) and any(isinstance(t, ast.Subscript) and isinstance(t.slice, ast.Constant)
                                                                             and t.slice.value == 'rule_mode' for t in s.targets)]
    ok = False
    for s in stores:
        # every definition of the stored value is either the literal default or guarded by membership in the two literals
        if isinstance(s.value, ast.Name):
            nm = s.value.id
            tests = [n for n in ast.walk(lc.node) if isinstance(n, ast.Compare) and isinstance(n.left, ast.Name) and n.left.id == nm
                     and isinstance(n.ops[0], (ast.NotIn, ast.In)) and isinstance(n.comparators[0], (ast.Tuple, ast.List, ast.Set))]
            for t in tests:
                vals = {e.value for e in t.comparators[0].elts if isinstance(e, ast.Constant)}
                if vals == {'first_match', 'most_specific'}:
                    ok = True
    ctx.check(ok, 'C09.R4', lc, 'validate', "rule_mode validated against ('first_match', 'most_specific') and stored back",
              'load_config does not validate rule_mode against the two documented literals')
    # every load site passes the mode
    n = 0
    for f in proj.all_funcs():
        if f.module.short in ('merchant_engine',) and f.name in ('load_merchants_file', 'parse_merchants', 'load_csv_as_engine'):
            want_param = True
        else:
            want_param = False
        for call, targets in cg.calls_from(f):
            nm = call_name(call)
            if nm not in MODE_LOADERS:
                continue
            tf = [t for t in targets if isinstance(t, FuncInfo)]
            if not tf:
                continue
            callee = tf[0]
            if callee.name == '__init__':
                pname = 'match_mode'
            elif 'match_mode' in callee.params:
                pname = 'match_mode'
            else:
                continue
            if f.module.short.startswith('commands.diag') or f.module.short.startswith('commands.workflow'):
                # diagnostics only list rules; classification is not involved
                continue
            n += 1
            a = arg_of(call, callee, pname)
            if a is None:
                ctx.fail('C09.R4', f, f'mode-arg:{nm}', f'{src(call)[:70]!r} does not pass match_mode: the configured rule_mode is ignored here (default first_match)', call)
                continue
            ffl = get_flow(proj, f)
            at = ffl.atoms(a, call)
            ok = 'param:match_mode' in at or 'key:config:rule_mode' in at or any(x.startswith('key:') and x.endswith(':rule_mode') for x in at)
            ctx.check(ok, 'C09.R4', f, f'mode-arg:{nm}', f'{nm}(…, match_mode={src(a)})',
                      f'{src(call)[:70]!r}: match_mode derives from {sorted(x for x in at if x.startswith(("const:", "param:", "key:")))}, not from the rule_mode setting', call)
    ctx.need(not (n < 10), f'C09.R4: only {n} rule/transform load sites found')
    # the engine compares the stored mode with the literal
    me = proj.func('merchant_engine.MerchantEngine.match')
    tests = [nn for nn in ast.walk(me.node) if isinstance(nn, ast.Compare) and src(nn.left) == 'self.match_mode']
    ok = bool(tests) and all(isinstance(t.comparators[0], ast.Constant) and t.comparators[0].value in ('first_match', 'most_specific') for t in tests)
    ctx.check(ok, 'C09.R4', me, 'mode-branch', 'match() branches on self.match_mode against a documented literal', 'match() does not branch on self.match_mode')
    init = proj.func('merchant_engine.MerchantEngine.__init__')
    ok = any(isinstance(s, ast.Assign) and src(s.targets[0]) == 'self.match_mode' and src(s.value) == 'match_mode' for s in ast.walk(init.node))
    ctx.check(ok, 'C09.R4', init, 'mode-store', 'engine stores the mode it was given', 'MerchantEngine.__init__ does not store match_mode')
