"""What load_config stores under a key of the config dict, whichever way the store is spelled."""
from __future__ import annotations

import ast
from typing import List, Tuple

from ..project import src


def config_stores(fl, dst: str) -> List[Tuple[ast.AST, ast.AST]]:
    """[(statement whose guards decide the value, value expression)] for every value that can end up in config[dst]:
    plain stores `config[dst] = v`, and components of `config[a], config[b] = x, y` where the right-hand side is a tuple literal
    or a local bound to tuple literals in the branches above."""
    out = []
    for s_ in fl.cfg.stmts():
        if not isinstance(s_, ast.Assign):
            continue
        for t in s_.targets:
            if src(t) == f"config['{dst}']":
                out.append((s_, s_.value))
            elif isinstance(t, ast.Tuple):
                for i, e in enumerate(t.elts):
                    if src(e) != f"config['{dst}']":
                        continue
                    if isinstance(s_.value, ast.Tuple) and i < len(s_.value.elts):
                        out.append((s_, s_.value.elts[i]))
                    elif isinstance(s_.value, ast.Name):
                        for d in fl.cfg.defs_reaching(s_, s_.value.id):
                            if d == 'param':
                                continue
                            ds = fl.cfg.stmt[d]
                            v = getattr(ds, 'value', None)
                            if isinstance(v, ast.Tuple) and i < len(v.elts):
                                out.append((ds, v.elts[i]))
                            elif v is not None:
                                out.append((ds, v))
                    else:
                        out.append((s_, s_.value))
    return out
