"""C10 — a merchant appears in a view exactly when the view's filter is true of it."""
from __future__ import annotations

import ast
from typing import List, Set

from ..callgraph import all_nodes
from ..cfg import CFG
from ..core import Ctx
from ..flow import arg_of, bound_args, call_name, get_flow
from ..project import AnalysisError, ancestors, dotted, parent, root_name, src
from .c03 import MUTATORS
from .c08 import enclosing_tries, eval_sites, get_escapes, handler_tail_ok

LEVEL = 'other'
EP = 'expr_parser'


def check(ctx: Ctx) -> None:
    ctx.rule('C10.R1', 'independence: classify_merchants evaluates every view for every merchant and appends under the filter result only; variable dicts are copied, never shared', floor=8)
    ctx.rule('C10.R2', 'the only merchant skip in classify_by_sections is is_excluded_from_spending of that merchant\'s tags', floor=2)
    ctx.rule('C10.R3', 'a view variable or filter that cannot be evaluated excludes the merchant instead of failing the run', floor=3)
    ctx.rule('C10.R4', 'cv is the population coefficient of variation of the monthly totals (0 below two months / zero mean)', floor=5)
    ctx.rule('C10.R5', 'the dates handed to the view context are the transactions\' real dates (so by("day") / by("week") group by real days)', floor=1)
    ctx.rule('C10.R6', 'a view\'s total is the plain sum of its members\' totals', floor=2)
    ctx.rule('C10.R7', 'bucket keys agree: "month" is %Y-%m everywhere; months = number of distinct keys; total = sum of payments', floor=6)
    r1(ctx)
    r2_r5(ctx)
    r3(ctx)
    r4(ctx)
    r6(ctx)
    r7(ctx)


def r1(ctx: Ctx) -> None:
    proj = ctx.proj
    f = proj.func('section_engine.classify_merchants')
    fl = get_flow(proj, f)
    cfg = fl.cfg
    loops = [s for s in cfg.stmts() if isinstance(s, ast.For)]
    # the merchant loop is the one over the merchant_groups parameter; other top-level loops (e.g. one that initialises the result) are not part of it
    outer = [lp for lp in loops if not any(isinstance(a, ast.For) for a in ancestors(lp)) and src(lp.iter) == f.params[1]] or \
        [lp for lp in loops if not any(isinstance(a, ast.For) for a in ancestors(lp))]
    inner = [lp for lp in loops if any(a is outer[0] for a in ancestors(lp))] if len(outer) == 1 else []
    if len(outer) != 1 or len(inner) != 1:
        ctx.unknown('C10.R1', f, f'{len(outer)} outer / {len(inner)} inner loops in classify_merchants (a merchant x view double loop expected)')
    if not any(isinstance(n, ast.Call) and call_name(n) == 'evaluate_section_filter' for n in ast.walk(inner[0])):
        # the filter is not evaluated inside the (merchant x view) double loop any more (moved into a helper that returns the accepting views, say)
        ctx.unknown('C10.R1', f, 'evaluate_section_filter is not called inside the merchant x view double loop')
    mvar = outer[0].target.id if isinstance(outer[0].target, ast.Name) else None
    svar = inner[0].target.id if isinstance(inner[0].target, ast.Name) else None
    ctx.check(src(outer[0].iter) == f.params[1] and src(inner[0].iter) == f'{f.params[0]}.sections', 'C10.R1', f, 'loops',
              'for merchant in merchant_groups: for section in config.sections', f'loops iterate {src(outer[0].iter)!r} / {src(inner[0].iter)!r}', outer[0])
    exits = [s for s in cfg.stmts() if isinstance(s, (ast.Break, ast.Continue, ast.Return)) and any(a is outer[0] for a in ancestors(s))]
    ctx.check(not exits, 'C10.R1', f, 'no-early-exit', 'no break/continue/return inside the double loop',
              f'{type(exits[0]).__name__.lower() if exits else ""} inside the double loop: some views are not evaluated for some merchants (first view wins / order dependence)',
              exits[0] if exits else None)
    appends = [n for n in ast.walk(outer[0]) if isinstance(n, ast.Call) and isinstance(n.func, ast.Attribute) and n.func.attr == 'append']
    if len(appends) != 1:
        ctx.unknown('C10.R1', f, f'{len(appends)} append calls in the double loop')
    ap = appends[0]
    st = fl.stmt_of(ap)
    g = cfg.guard_literals_within(st, outer[0])
    filt = [t for t, tr in g if tr and t.startswith('evaluate_section_filter(')]
    extra = [(t, tr) for t, tr in g if not (tr and t.startswith('evaluate_section_filter('))]
    ctx.check(bool(filt) and not extra, 'C10.R1', f, 'append-guard', 'append happens iff evaluate_section_filter(...) is true',
              f'membership append is guarded by {sorted(g)}: something other than the view\'s own filter decides membership', ap)
    tgt = ap.func.value
    ok = isinstance(tgt, ast.Subscript) and src(tgt.slice) == f'{svar}.name' and ap.args and src(ap.args[0]) == mvar
    ctx.check(ok, 'C10.R1', f, 'append-target', f'result[{svar}.name].append({mvar})', f'{src(ap)!r}: appends to the wrong view / the wrong merchant', ap)
    # the filter call receives this view, this merchant's transactions and this merchant's globals
    fc = [c for c in fl.calls('evaluate_section_filter')]
    callee = proj.func('section_engine.evaluate_section_filter')
    for c in fc:
        a_sec, a_tx, a_gv = arg_of(c, callee, 'section'), arg_of(c, callee, 'transactions'), arg_of(c, callee, 'global_vars')
        ok = a_sec is not None and src(a_sec) == svar
        ctx.check(ok, 'C10.R1', f, 'filter-arg:section', 'filter evaluated for the current view', f'filter call receives {src(a_sec) if a_sec is not None else None!r} as the view', c)
        at = fl.atoms(a_tx, c) if a_tx is not None else set()
        ctx.check(f'key:{mvar}:transactions' in at, 'C10.R1', f, 'filter-arg:transactions', 'over the current merchant\'s own payments',
                  f'filter call receives transactions with provenance {sorted(x for x in at if x.startswith(("key:", "param:")))}', c)
        ag = fl.atoms(a_gv, c) if a_gv is not None else set()
        ok = 'call:evaluate_variables' in ag and f'key:{mvar}:transactions' in ag
        ctx.check(ok, 'C10.R1', f, 'filter-arg:global_vars', 'with global variables evaluated for this merchant', 'global variables are not evaluated per merchant', c)
    gv = fl.calls('evaluate_variables')
    for c in gv:
        ok = any(a is outer[0] for a in ancestors(c)) and not any(a is inner[0] for a in ancestors(c)) and src(c.args[0]) == f'{f.params[0]}.global_variables'
        ctx.check(ok, 'C10.R1', f, 'globals-per-merchant', 'global variables evaluated once per merchant from config.global_variables', f'{src(c)[:60]!r}', c)
    # no argument lands in the wrong parameter of the view evaluators (period data in the slot of the inherited variables, say)
    from ._rows import crossed_arguments
    crossed = list(crossed_arguments(proj, ('section_engine', 'analyzer')))
    for cf, cc, var, par in crossed:
        ctx.fail('C10.R1', cf, f'crossed-argument:{var}', f'{src(cc)[:70]!r} passes `{var}` by position into the parameter `{par}` although the callee has a parameter `{var}`: '
                 f'the value is taken for something else (a global that uses period() then falls back to its default, for instance)', cc)
    if not crossed:
        ctx.ok('C10.R1', f, 'every positional argument of the view evaluators lands in the parameter of its own name', construct='crossed-argument:none')
    # result initialised with every view, in file order
    init = [s for s in cfg.stmts() if isinstance(s, (ast.Assign, ast.AnnAssign)) and src(s.targets[0] if isinstance(s, ast.Assign) else s.target) == 'result']
    ok = bool(init) and isinstance(init[0].value, ast.DictComp) and src(init[0].value.generators[0].iter) == f'{f.params[0]}.sections' and not init[0].value.generators[0].ifs
    if not ok and init and isinstance(init[0].value, ast.Dict) and not init[0].value.keys:
        # the same initialisation spelled as a loop: result = {}; for view in config.sections: result[view.name] = []   (unconditional, before the merchant loop)
        for lp in [s for s in cfg.stmts() if isinstance(s, ast.For) and s is not outer[0] and not any(isinstance(a, ast.For) for a in ancestors(s))]:
            if src(lp.iter) == f'{f.params[0]}.sections' and isinstance(lp.target, ast.Name) and len(lp.body) == 1 and isinstance(lp.body[0], ast.Assign) \
                    and src(lp.body[0].targets[0]) == f'result[{lp.target.id}.name]' and isinstance(lp.body[0].value, ast.List) and not lp.body[0].value.elts \
                    and lp.lineno < outer[0].lineno and not cfg.guard_literals(lp):
                ok = True
    ctx.check(ok, 'C10.R1', f, 'result-init', 'every view gets a (possibly empty) member list', f'result initialised as {src(init[0].value)[:50] if init else None!r}')

    # ownership: parameters never mutated, copies made before adding locals
    for qn, param in (('section_engine.evaluate_section_filter', 'global_vars'), ('section_engine.evaluate_variables', 'existing_vars')):
        g_ = proj.func(qn)
        gfl = get_flow(proj, g_)
        muts = []
        for n in all_nodes(g_.node):
            recv = None
            if isinstance(n, ast.Call) and isinstance(n.func, ast.Attribute) and n.func.attr in MUTATORS:
                recv = n.func.value
            if isinstance(n, (ast.Assign, ast.AugAssign)):
                for t in (n.targets if isinstance(n, ast.Assign) else [n.target]):
                    if isinstance(t, ast.Subscript):
                        recv = t.value
            if recv is not None:
                r = root_name(recv)
                if r in g_.params:
                    muts.append(n)
                elif r and gfl.is_local(r):
                    # local: must be a fresh copy, not an alias of the parameter
                    for dn in gfl.cfg.defs_reaching(gfl.stmt_of(n), r):
                        if dn == 'param':
                            muts.append(n)
                            continue
                        v = getattr(gfl.cfg.stmt[dn], 'value', None)
                        if v is not None and not _is_fresh_copy(v):
                            muts.append(n)
        ctx.check(not muts, 'C10.R1', g_, f'ownership:{param}', f'{param} is copied before locals are added; the caller\'s dict is never written',
                  f'{src(muts[0])[:60] if muts else ""!r} writes into a dict shared with the caller: one view\'s variables leak into the next view / merchant',
                  muts[0] if muts else None)
    # section-local variables are evaluated on top of the globals and fed to this filter only
    ef = proj.func('section_engine.evaluate_section_filter')
    efl = get_flow(proj, ef)
    for c in efl.calls('create_context'):
        kw = bound_args(proj, ef, c)
        a = efl.atoms(kw['variables'], c) if 'variables' in kw else set()
        ok = 'param:global_vars' in a and 'transactions' in kw and src(kw['transactions']) == 'transactions'
        ctx.check(ok, 'C10.R1', ef, 'filter-context', 'filter context = this merchant\'s transactions + (globals + this view\'s locals)',
                  f'filter context built from {sorted(x for x in a if x.startswith("param:"))}', c)


def _is_fresh_copy(v) -> bool:
    if isinstance(v, (ast.Dict, ast.DictComp)):
        return True
    if isinstance(v, ast.Call) and call_name(v) in ('dict', 'copy', 'deepcopy'):
        return True
    if isinstance(v, ast.IfExp):
        return _is_fresh_copy(v.body) and _is_fresh_copy(v.orelse)
    return False


def r2_r5(ctx: Ctx) -> None:
    proj = ctx.proj
    f = proj.func('analyzer.classify_by_sections')
    fl = get_flow(proj, f)
    cfg = fl.cfg
    loops = [s for s in cfg.stmts() if isinstance(s, ast.For) and 'by_merchant' in src(s.iter)]
    if len(loops) != 1:
        ctx.unknown('C10.R2', f, 'merchant loop not found in classify_by_sections')
    lp = loops[0]
    names = [e.id for e in lp.target.elts] if isinstance(lp.target, ast.Tuple) else []
    data = names[1] if len(names) == 2 else None
    # a merchant reaches the views (its group record is built) exactly when is_excluded_from_spending(its tags) is false: decided on the
    # guards of the group-building statement, so `if excluded: continue` and `if not excluded: <build>` are the same to the rule
    grp = [n for n in ast.walk(lp) if isinstance(n, ast.Dict) and any(isinstance(k, ast.Constant) and k.value == 'data' for k in n.keys)]
    if not grp:
        ctx.unknown('C10.R2', f, 'merchant group record ({... "data": ...}) not found in the merchant loop')
    g = cfg.guard_literals_within(fl.stmt_of(grp[0]), lp)
    excl = [(t, tr) for t, tr in g if t.startswith('is_excluded_from_spending(')]
    if not excl:
        ctx.fail('C10.R2', f, 'skip:none', 'merchants tagged income/transfer/investment are not excluded from views', lp)
    else:
        # the argument is this merchant's own tags: by provenance (`data.get('tags', [])`, possibly through a local), not by spelling
        own = True
        for atom, _tr in cfg.guard_atoms(fl.stmt_of(grp[0])):
            if isinstance(atom, ast.Call) and call_name(atom) == 'is_excluded_from_spending' and atom.args:
                at_ = fl.atoms(atom.args[0], fl.stmt_of(grp[0]))
                own = own and f'loopvar:{data}' in at_ and f'key:{data}:tags' in at_
        ok = len(g) == 1 and all(not tr for t, tr in excl) and own
        ctx.check(ok, 'C10.R2', f, 'skip', 'the only skip: is_excluded_from_spending(this merchant\'s tags)',
                  f'merchant reaches the views under {sorted(g)}: view membership depends on something other than the filter and the special tags', fl.stmt_of(grp[0]))
    for s in [s for s in cfg.stmts() if isinstance(s, ast.Break) and [a for a in ancestors(s) if isinstance(a, (ast.For, ast.While))][0] is lp]:
        ctx.fail('C10.R2', f, 'skip:break', 'the merchant loop stops early: later merchants never reach the views', s)
    r = proj.resolve_name(f.module, 'is_excluded_from_spending')
    ctx.check(bool(r) and r[0] == 'func' and r[1].qualname.endswith('classification.is_excluded_from_spending'), 'C10.R2', f, 'skip:definition',
              'exclusion uses classification.is_excluded_from_spending (the definition C13 validates)', 'is_excluded_from_spending does not resolve to the classification module')
    # what the view context sees: per-payment records built from this merchant's transactions
    dicts = [n for n in ast.walk(lp) if isinstance(n, ast.Dict) and any(isinstance(k, ast.Constant) and k.value == 'date' for k in n.keys)]
    if len(dicts) != 1:
        ctx.unknown('C10.R5', f, 'view transaction record not found')
    d = dicts[0]
    vals = {k.value: v for k, v in zip(d.keys, d.values) if isinstance(k, ast.Constant)}
    at = fl.stmt_of(d)
    inner = [a for a in ancestors(d) if isinstance(a, ast.For)][0]
    tvar = inner.target.id if isinstance(inner.target, ast.Name) else 'txn'
    a = fl.atoms(vals['amount'], at)
    ctx.check(f'key:{tvar}:amount' in a, 'C10.R2', f, 'record:amount', 'payment amount = the analysed transaction amount', f'amount from {sorted(a)[:6]}', vals['amount'])
    a = fl.atoms(vals['tags'], at)
    ctx.check(f'key:{data}:tags' in a, 'C10.R2', f, 'record:tags', 'tags = this merchant\'s tags', f'tags from {sorted(a)[:6]}', vals['tags'])
    for k in ('category', 'subcategory'):
        a = fl.atoms(vals[k], at)
        ctx.check(f'key:{data}:{k}' in a, 'C10.R2', f, f'record:{k}', f'{k} = this merchant\'s {k}', f'{k} from {sorted(a)[:6]}', vals[k])
    ctx.check(f'key:{data}:transactions' in fl.atoms(inner.iter, inner), 'C10.R2', f, 'record:source', 'records are built from this merchant\'s own transactions',
              f'records iterate {src(inner.iter)!r}', inner)
    # R5: date provenance
    a = fl.leaf_paths(vals['date'], at)
    ops_all = {o for _, ops in a for o in ops}
    leaves = {l for l, _ in a}
    synthetic = any(l.startswith("const:'-") for l in leaves) or f'key:{tvar}:month' in ops_all
    real = f'key:{tvar}:date' in ops_all and not synthetic
    if real:
        ctx.ok('C10.R5', f, 'view dates are the transactions\' real dates', vals['date'], 'date-granularity')
    else:
        ctx.fail('C10.R5', f, 'date-granularity',
                 f'the date given to the view context is rebuilt as {src(_def_of(fl, vals["date"], at))[:60]!r} (month + a fixed day): every payment of a month falls on the same day, '
                 f'so by("day") and by("week") collapse to months (three payments on three days: max(count(by("day"))) == 1 is false)', vals['date'])
    # results mapped back to (name, data) of the same merchant group
    groups = [n for n in ast.walk(lp) if isinstance(n, ast.Dict) and any(isinstance(k, ast.Constant) and k.value == 'data' for k in n.keys)]
    ok = bool(groups) and src({k.value: v for k, v in zip(groups[0].keys, groups[0].values)}['data']) == data
    ctx.check(ok, 'C10.R2', f, 'group:data', 'each merchant group keeps a reference to its own data', 'merchant group does not carry its own data')


def _def_of(fl, e, at):
    if isinstance(e, ast.Name):
        for dn in fl.cfg.defs_reaching(at, e.id):
            if dn != 'param':
                v = getattr(fl.cfg.stmt[dn], 'value', None)
                if v is not None:
                    return v
    return e


def r3(ctx: Ctx) -> None:
    proj = ctx.proj
    E = get_escapes(proj)
    n = 0
    for qn in ('section_engine.evaluate_variables', 'section_engine.evaluate_section_filter'):
        f = proj.func(qn)
        for call, target in eval_sites(proj, f):
            n += 1
            esc = E.of(target)
            remaining = dict(esc)
            handlers = []
            for t in enclosing_tries(call, f.node):
                for h in t.handlers:
                    types = E.handler_classes(h)
                    caught = [k for k in remaining if E.caught_by(k, types)]
                    if caught and handler_tail_ok(h):
                        for k in caught:
                            del remaining[k]
                        handlers.append(h)
            ok = not remaining and bool(handlers)
            ctx.check(ok, 'C10.R3', f, f'site:{src(call.func)}', f'evaluation failure ({sorted(esc)}) is contained at {src(call.func)}',
                      f'{src(call.func)} can raise {sorted(remaining)} uncaught: one bad view expression aborts the whole report', call)
            # the handler's outcome: not a member / variable None
            for h in handlers:
                last = h.body[-1]
                good = (isinstance(last, ast.Return) and isinstance(last.value, ast.Constant) and last.value.value is False) or \
                       (isinstance(last, ast.Assign) and isinstance(last.value, ast.Constant) and last.value.value is None) or isinstance(last, (ast.Pass, ast.Continue))
                ctx.check(good, 'C10.R3', f, f'outcome:{src(call.func)}', 'failure -> not a member / variable None', f'handler ends in {src(last)[:40]!r}', last)
    ctx.need(not (n < 3), f'C10.R3: {n} view evaluation sites found (3 confirmed)')
    view_verdict(ctx, 'C10.R3')


def view_verdict(ctx: Ctx, rule: str) -> None:
    proj = ctx.proj
    # the verdict comes from the filter: every return of evaluate_section_filter is bool(<filter evaluation>) or the handler's False
    ef = proj.func('section_engine.evaluate_section_filter')
    efl = get_flow(proj, ef)
    for r in [s for s in efl.cfg.stmts() if isinstance(s, ast.Return)]:
        in_handler = any(isinstance(a, ast.ExceptHandler) for a in ancestors(r))
        at = efl.atoms(r.value, r) if r.value is not None else set()
        from_filter = bool(at & {'call:evaluate_ast', 'call:evaluate', 'call:evaluate_filter'})
        ok = from_filter or (in_handler and isinstance(r.value, ast.Constant) and r.value.value is False)
        ctx.check(ok, rule, ef, f'verdict:{src(r.value)[:24] if r.value is not None else None}', 'membership verdict = the evaluated filter (False only when it cannot be evaluated)',
                  f'`return {src(r.value) if r.value is not None else None}` (line {r.lineno}) decides membership without evaluating the filter: a view variable that cannot be computed '
                  f'for a merchant must only make that variable None, not exclude the merchant', r)


def r4(ctx: Ctx) -> None:
    proj = ctx.proj
    f = proj.func(f'{EP}.ExpressionContext.get_cv')
    fl = get_flow(proj, f)
    text = {src(s.targets[0]): s for s in fl.cfg.stmts() if isinstance(s, ast.Assign) and len(s.targets) == 1}
    # monthly totals accumulate amounts by %Y-%m
    acc = [s for s in fl.cfg.stmts() if isinstance(s, ast.Assign) and isinstance(s.targets[0], ast.Subscript) and 'monthly' in src(s.targets[0])]
    ok = bool(acc) and "+ t['amount']" in src(acc[0].value) and '.get(month_key, 0)' in src(acc[0].value)
    ctx.check(ok, 'C10.R4', f, 'monthly-totals', 'monthly totals = sum of the payments of each month', f'{src(acc[0]) if acc else "no accumulation"!r}')
    # guards
    rets0 = [s for s in fl.cfg.stmts() if isinstance(s, ast.Return) and isinstance(s.value, ast.Constant) and s.value.value in (0, 0.0)]
    guards = {src(parent(s).test).replace(' ', '') for s in rets0 if isinstance(parent(s), ast.If)}
    ctx.check('len(monthly_totals)<2' in guards or 'len(values)<2' in guards, 'C10.R4', f, 'guard:two-months', '0 below two active months', f'zero guards are {sorted(guards)}')
    ctx.check('avg==0' in guards, 'C10.R4', f, 'guard:zero-mean', '0 when the mean is 0', f'zero guards are {sorted(guards)}')
    var = text.get('variance')
    avg = text.get('avg')
    ok = avg is not None and src(avg.value).replace(' ', '') == 'sum(values)/len(values)'
    ctx.check(ok, 'C10.R4', f, 'mean', 'mean = sum(values) / len(values)', f'mean is {src(avg.value) if avg is not None else None!r}')
    if var is not None and isinstance(var.value, ast.BinOp) and isinstance(var.value.op, ast.Div):
        div = src(var.value.right).replace(' ', '')
        num = src(var.value.left).replace(' ', '')
        ok = div == 'len(values)' and num in ('sum(((x-avg)**2forxinvalues))', 'sum((x-avg)**2forxinvalues)')
        ctx.check(ok, 'C10.R4', f, 'variance', 'population variance: sum((x - mean)^2) / n',
                  f'variance is {src(var.value)!r}' + (' — sample variance (n-1), not the population variance the reference documents' if 'len(values)-1' in div else ''), var)
    else:
        uses = [c for c in fl.calls() if call_name(c) in ('pstdev', 'stdev', 'pvariance', 'variance')]
        ok = bool(uses) and all(call_name(c) in ('pstdev', 'pvariance') for c in uses)
        ctx.check(ok, 'C10.R4', f, 'variance', 'population standard deviation', 'no population variance found (statistics.stdev is the sample deviation)', var)
    sd = text.get('stddev')
    ok = sd is None or src(sd.value).replace(' ', '') in ('variance**0.5', 'math.sqrt(variance)')
    rets = [s for s in fl.cfg.stmts() if isinstance(s, ast.Return) and not isinstance(s.value, ast.Constant)]
    ok = ok and len(rets) == 1 and src(rets[0].value).replace(' ', '') in ('stddev/avg',)
    ctx.check(ok, 'C10.R4', f, 'ratio', 'cv = stddev / mean', f'returns {src(rets[0].value) if rets else None!r}')
    # the figure is a function of the merchant's own payments only: nothing else of the context (analysis period, variables …) flows into it
    big = [r for r in fl.cfg.stmts() if isinstance(r, ast.Return) and r.value is not None and not isinstance(r.value, ast.Constant)]
    if big:
        at = fl.atoms(big[0].value, big[0], stores=True)
        others = sorted(a for a in at if a.startswith('attr:self.') and a != 'attr:self.transactions')
        muts = [c for c in fl.calls() if isinstance(c.func, ast.Attribute) and isinstance(c.func.value, ast.Name) and c.func.value.id == 'values'
                and c.func.attr in ('append', 'extend', 'insert', 'pop', 'remove', 'sort', 'reverse', 'clear')]
        ctx.check(not others and not muts, 'C10.R4', f, 'own-months-only', 'cv is computed from the monthly totals of this merchant\'s own payments and nothing else',
                  f'cv also depends on {others or [src(m)[:40] for m in muts]}: months without a payment (or other context) enter the figure, so it is no longer the coefficient of variation '
                  f'of the monthly totals (a merchant paying the same amount in 2 of 7 months moves from `cv < 0.3` to `cv >= 0.3`)', (muts[0] if muts else big[0]))
    vals = text.get('values')
    ctx.check(vals is not None and src(vals.value) == 'list(monthly_totals.values())', 'C10.R4', f, 'values', 'computed over the monthly totals',
              f'values = {src(vals.value) if vals is not None else None!r}')


def r6(ctx: Ctx) -> None:
    proj = ctx.proj
    f = proj.func('analyzer.compute_section_totals')
    fl = get_flow(proj, f)
    rets = [s for s in fl.cfg.stmts() if isinstance(s, ast.Return) and isinstance(s.value, ast.Dict)]
    if not rets:
        ctx.unknown('C10.R6', f, 'compute_section_totals does not return a dict literal')
    rdict = {k.value: v for k, v in zip(rets[0].value.keys, rets[0].value.values) if isinstance(k, ast.Constant)}

    def resolve(e):
        # a local bound once stands for its value
        if isinstance(e, ast.Name):
            v = _def_of(fl, e, rets[0])
            return v
        return e
    tv = resolve(rdict['total']) if 'total' in rdict else None
    ok = False
    if isinstance(tv, ast.Call) and call_name(tv) == 'sum' and tv.args and isinstance(tv.args[0], (ast.GeneratorExp, ast.ListComp)):
        g = tv.args[0]
        it = resolve(g.generators[0].iter)
        tgt = g.generators[0].target
        names = [tgt.id] if isinstance(tgt, ast.Name) else [e.id for e in getattr(tgt, 'elts', []) if isinstance(e, ast.Name)]
        elt = src(g.elt).replace(' ', '')
        ok = len(g.generators) == 1 and src(it) == f.params[0] and not g.generators[0].ifs and any(elt in (f"{v_}.get('total',0)", f"{v_}['total']") for v_ in names)
    ctx.check(ok, 'C10.R6', f, 'total', 'view total = sum of every member\'s total', f'total = {src(tv) if tv is not None else None!r}')
    mv = resolve(rdict['merchants']) if 'merchants' in rdict else None
    ctx.check(tv is not None and mv is not None and src(mv) == f.params[0], 'C10.R6', f, 'return', 'returns that total with exactly the members',
              f'returns {dict((k, src(v)[:30]) for k, v in rdict.items())}')


def r7(ctx: Ctx) -> None:
    proj = ctx.proj
    ec = proj.cls(f'{EP}.ExpressionContext')
    fmt = {}
    for mname in ('get_months', 'get_cv', 'get_by'):
        m = ec.methods[mname]
        lits = [n.args[0].value for n in ast.walk(m.node) if isinstance(n, ast.Call) and call_name(n) == 'strftime' and n.args and isinstance(n.args[0], ast.Constant)]
        fmt[mname] = lits
    ctx.check(fmt['get_months'] == ['%Y-%m'], 'C10.R7', ec.methods['get_months'], 'key:months', 'months counts %Y-%m keys', f'get_months uses {fmt["get_months"]}')
    ctx.check(fmt['get_cv'] == ['%Y-%m'], 'C10.R7', ec.methods['get_cv'], 'key:cv', 'cv groups by %Y-%m', f'get_cv uses {fmt["get_cv"]}')
    gb = ec.methods['get_by']
    table = {}
    for n in ast.walk(gb.node):
        if isinstance(n, ast.If) and isinstance(n.test, ast.Compare) and src(n.test.left) == 'field' and isinstance(n.test.comparators[0], ast.Constant):
            k = n.test.comparators[0].value
            for c in ast.walk(n.body[0]):
                if isinstance(c, ast.Call) and call_name(c) == 'strftime':
                    table[k] = c.args[0].value
    # the same mapping kept in a constant table: fmt = TABLE.get(field) / TABLE[field] … strftime(fmt)
    from ._tables import table_of
    gfl = get_flow(proj, gb)
    for c in gfl.calls('strftime'):
        if c.args and isinstance(c.args[0], ast.Name):
            for d in gfl.cfg.defs_reaching(gfl.stmt_of(c), c.args[0].id):
                if d != 'param' and isinstance(gfl.cfg.stmt[d], ast.Assign):
                    tb = table_of(gfl.cfg.stmt[d].value, gb.module, gb.cls)
                    if tb is not None and src(tb[1]) == 'field':
                        for k_, v_ in tb[0].items():
                            table.setdefault(k_, v_)
    want = {'month': '%Y-%m', 'year': '%Y', 'day': '%Y-%m-%d'}
    for k, v in want.items():
        ctx.check(table.get(k) == v, 'C10.R7', gb, f'key:by-{k}', f'by("{k}") groups by {v}', f'by("{k}") groups by {table.get(k)!r}')
    ctx.check(str(table.get('week', '')).startswith('%Y-W'), 'C10.R7', gb, 'key:by-week', 'by("week") groups by year-week', f'by("week") groups by {table.get("week")!r}')
    an = proj.func('analyzer.analyze_transactions')
    lits = [n.args[0].value for n in ast.walk(an.node) if isinstance(n, ast.Call) and call_name(n) == 'strftime' and isinstance(parent(n), ast.Assign)
            and src(parent(n).targets[0]) == 'month_key']
    ctx.check(lits == ['%Y-%m'], 'C10.R7', an, 'key:analyzer-month', 'analyzer month key is %Y-%m', f'analyzer month key {lits}')
    gm = ec.methods['get_months']
    # months = len(<set of month keys>), 1 when there is none - whether spelled `len(m) if m else 1` or `if not m: return 1` / `return len(m)`
    mfl = get_flow(proj, gm)
    pairs = []          # (returned value text, the truth of `months` under which it is returned / None)
    for r in [x for x in mfl.cfg.stmts() if isinstance(x, ast.Return) and x.value is not None]:
        if isinstance(r.value, ast.IfExp) and isinstance(r.value.test, ast.Name):
            pairs += [(src(r.value.body), True), (src(r.value.orelse), False)]
        else:
            g_ = dict(mfl.cfg.guard_literals(r))
            pairs.append((src(r.value), g_.get('months')))
    ok = sorted(pairs, key=repr) == sorted([('len(months)', True), ('1', False)], key=repr)
    ctx.check(ok, 'C10.R7', gm, 'months-count', 'months = number of distinct month keys', f'get_months returns {pairs}')
    gt = ec.methods['get_total']
    rets = [src(r.value) for r in ast.walk(gt.node) if isinstance(r, ast.Return)]
    ctx.check(rets == ['sum(self.get_payments())'], 'C10.R7', gt, 'total', 'total = sum of the payments', f'get_total returns {rets}')
    gp = ec.methods['get_payments']
    rets = [src(r.value) for r in ast.walk(gp.node) if isinstance(r, ast.Return)]
    ctx.check(rets == ["[t['amount'] for t in self.transactions]"], 'C10.R7', gp, 'payments', 'payments = every amount, unfiltered', f'get_payments returns {rets}')
    # groups keep their order and contents
    rets = [src(r.value) for r in ast.walk(gb.node) if isinstance(r, ast.Return)]
    ctx.check(rets == ['[groups[k] for k in sorted(groups.keys())]'], 'C10.R7', gb, 'by-result', 'by() returns every group', f'get_by returns {rets}')
