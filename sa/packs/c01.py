"""C01 — first matching categorizing rule decides merchant, category and subcategory."""
from __future__ import annotations

import ast
from typing import List, Optional, Set

from ..callgraph import all_nodes, get_cg
from ..cfg import target_names
from ..core import Ctx
from ..flow import arg_of, call_name, get_flow
from ..project import AnalysisError, FuncInfo, ancestors, dotted, parent, root_name, src
from ._deciders import Decider, find_engine_decider, find_legacy_decider, loop_iter_plain, persistent_effects, _shape

LEVEL = 'other'

RULE_LIST_MARKERS = {'.rules', 'name:rules', 'name:user_rules', 'name:csv_rules', 'name:merchant_rules', 'name:user_rules_with_source',
                     'name:matching_rules', 'call:get_all_rules', 'call:load_merchant_rules', 'call:csv_to_rules',
                     'name:category_rules', 'name:merchant_rules', 'name:subcategory_rules'}
INPLACE_REORDER = {'sort', 'reverse', 'insert', 'pop', 'remove', 'clear'}
REORDER_FUNCS = {'sorted', 'reversed', 'set', 'frozenset', 'shuffle', 'sample'}
HAS_CATEGORY_TEXTS = ('{r}.is_categorization_rule', '{r}.category', 'bool({r}.category)', 'category')


def check(ctx: Ctx) -> None:
    proj = ctx.proj
    ctx.rule('C01.R1', 'order preservation: rule lists are built by append in file order; nothing sorts, reverses, inserts into, pops from or de-duplicates them on the way to a decider', floor=6)
    ctx.rule('C01.R2', 'first-wins accumulator: the winner is initialised to None, assigned only under matched & winner-unset & rule-has-category, and the loop iterates the rule list itself', floor=6)
    ctx.rule('C01.R3', 'coherence: merchant, category, subcategory (and matched_rule) are read from the same winner binding', floor=5)
    ctx.rule('C01.R4', 'non-matching rules are inert: every effect in the rule loop that outlives the iteration is control-dependent on the match flag', floor=8)
    ctx.rule('C01.R5', 'transforms are applied before matching, unconditionally when given, and the matched object / description are the transformed ones', floor=5)
    ctx.rule('C01.R6', 'every no-winner return is (extract_merchant_name(description), "Unknown", "Unknown", …)', floor=4)
    ctx.rule('C01.R7', 'no content-sniffing dispatch between "evaluate as expression" and "search as regex"', floor=1)
    ctx.rule('C01.R8', 'each rule is evaluated in its own let-environment (or the per-transaction globals); the winner\'s fields use the winner\'s environment', floor=5)

    eng = find_engine_decider(proj)
    leg = find_legacy_decider(proj)
    r1_order(ctx, eng, leg)
    r2_first_wins(ctx, eng, leg)
    r3_coherence(ctx, eng, leg)
    r4_inert(ctx, eng, leg)
    r5_transforms(ctx, leg)
    r6_unknown(ctx, leg)
    r7_sniffing(ctx, leg)
    r8_environment(ctx, eng)
    r8_transaction_as_given(ctx)


def r8_transaction_as_given(ctx: Ctx) -> None:
    """The transaction the rule conditions are evaluated on carries the caller's values unchanged: description, amount (with its sign: `amount < 0`
    is how refunds are told apart, and migrated [amount>N] modifiers compare the signed value), custom fields, source, location."""
    proj = ctx.proj
    arith = ('call:abs', 'op:neg', 'call:round', 'call:int', 'op:*', 'op:-', 'op:+', 'op:/', 'call:upper', 'call:lower', 'call:strip', 'call:title')
    for q in ('merchant_utils.normalize_merchant', 'merchant_utils.explain_description'):
        f = proj.func(q)
        fl = get_flow(proj, f)
        built = [s for s in fl.cfg.stmts() if isinstance(s, ast.Assign) and len(s.targets) == 1 and isinstance(s.targets[0], ast.Name) and s.targets[0].id == 'transaction'
                 and isinstance(s.value, ast.Dict)]
        if not built:
            ctx.unknown('C01.R8', f, 'the transaction dict handed to the rule evaluation was not found')
        for s in built:
            for k, v in zip(s.value.keys, s.value.values):
                if not (isinstance(k, ast.Constant) and k.value in ('description', 'amount', 'field', 'source', 'location')):
                    continue
                want = {'source': 'data_source'}.get(k.value, k.value)
                at_ = fl.atoms(v, s)
                changed = sorted(o for o in at_ if o in arith)
                ctx.check(f'param:{want}' in at_ and not changed, 'C01.R8', f, f'txn:{k.value}', f"transaction['{k.value}'] is the caller's {want}",
                          f"transaction['{k.value}'] = {src(v)!r}" + (f' goes through {changed}' if changed else f' does not come from the parameter {want}') +
                          ': the rule conditions are evaluated on another value than the statement row has', s)
def _is_rule_list(fl, expr, at) -> bool:
    a = fl.atoms(expr, at)
    return bool(a & RULE_LIST_MARKERS)


def r1_order(ctx: Ctx, eng: Decider, leg: Decider) -> None:
    proj = ctx.proj
    # (a) in-place reorderings of a rule list anywhere in the package
    n_builders = 0
    for f in proj.all_funcs():
        if f.module.short.startswith('commands.') and f.module.short not in ('commands.run', 'commands.explain', 'commands.discover'):
            continue
        fl = None
        for n in all_nodes(f.node):
            if isinstance(n, ast.Call) and isinstance(n.func, ast.Attribute):
                m = n.func.attr
                recv = n.func.value
                if m in INPLACE_REORDER | {'append', 'extend'}:
                    fl = fl or get_flow(proj, f)
                    try:
                        is_rules = _is_rule_list(fl, recv, n)
                    except KeyError:
                        continue
                    if not is_rules:
                        continue
                    shape = _shape(recv)
                    if m in INPLACE_REORDER:
                        ctx.fail('C01.R1', f, f'reorder:{shape}.{m}', f'{src(n)[:60]!r} reorders / removes from a rule list in place: file order no longer decides the first match', n)
                    else:
                        # builders must run in the order of their source: append inside a plain loop / straight line
                        n_builders += 1
                        ctx.ok('C01.R1', f, f'builder {shape}.{m}(...) appends in source order', n, f'builder:{shape}.{m}')
            if isinstance(n, ast.Delete):
                for t in n.targets:
                    if isinstance(t, ast.Subscript):
                        fl = fl or get_flow(proj, f)
                        if _is_rule_list(fl, t.value, n):
                            ctx.fail('C01.R1', f, f'reorder:del {_shape(t)}', f'{src(n)[:60]!r} deletes from a rule list', n)
            # assignments to `.rules`
            if isinstance(n, ast.Assign):
                for t in n.targets:
                    if isinstance(t, ast.Attribute) and t.attr == 'rules':
                        v = n.value
                        bad = _reordering_expr(v)
                        if bad:
                            ctx.fail('C01.R1', f, f'reorder:{_shape(t)}=', f'{src(n)[:70]!r}: engine rule list assigned from a reordering expression ({bad})', n)
                        else:
                            n_builders += 1
                            ctx.ok('C01.R1', f, f'{_shape(t)} = {src(v)[:40]} (order-preserving)', n, f'builder:{_shape(t)}=')
    # (b) what the deciders iterate
    for d in (eng, leg):
        ok, text = loop_iter_plain(d)
        ctx.check(ok, 'C01.R1', d.fi, 'loop-iter', f'decider loop iterates {text} directly',
                  f'decider loop iterates {text!r}: not the rule list itself in file order', d.loop)
    # (c) loaders return what they built, unsorted
    for qn in ('merchant_utils.get_all_rules', 'merchant_utils.load_merchant_rules', 'merchant_engine.csv_to_rules'):
        f = proj.func(qn)
        fl = get_flow(proj, f)
        for r in [s for s in fl.cfg.stmts() if isinstance(s, ast.Return) and s.value is not None]:
            bad = _reordering_expr(r.value)
            ctx.check(not bad, 'C01.R1', f, 'return', f'returns {src(r.value)[:40]} as built',
                      f'return {src(r.value)[:60]!r} reorders the rules ({bad})', r)
        # loops that build the list iterate their source directly
        for s in fl.cfg.stmts():
            if isinstance(s, ast.For) and any(isinstance(n, ast.Call) and call_name(n) == 'append' for st in s.body for n in ast.walk(st)):
                bad = _reordering_expr(s.iter)
                ctx.check(not bad, 'C01.R1', f, f'build-loop:{src(s.iter)[:30]}', f'builder loop iterates {src(s.iter)[:40]} in order',
                          f'builder loop iterates {src(s.iter)[:60]!r} ({bad})', s)
    ctx.need(not (n_builders < 4), f'C01.R1: only {n_builders} order-preserving builders found (6 confirmed by hand)')
    # (d) the CSV loader turns every row into a rule on its own: whether a row is kept must not depend on the rows before it
    from ._rows import carried_containers, carried_names
    f = proj.func('merchant_utils.load_merchant_rules')
    fl = get_flow(proj, f)
    row_loops = [s for s in fl.cfg.stmts() if isinstance(s, ast.For) and any(isinstance(n, ast.Call) and isinstance(n.func, ast.Attribute) and n.func.attr == 'append'
                                                                               for st in s.body for n in ast.walk(st))]
    if len(row_loops) != 1:
        ctx.unknown('C01.R1', f, f'{len(row_loops)} row loops in load_merchant_rules')
    lp = row_loops[0]
    outs = {n.func.value.id for n in ast.walk(lp) if isinstance(n, ast.Call) and isinstance(n.func, ast.Attribute) and n.func.attr == 'append' and isinstance(n.func.value, ast.Name)}
    cc = carried_containers(fl, lp, outs)
    cn = {k: v for k, v in carried_names(fl, lp, outs).items() if k not in outs}
    bad = sorted(set(cc) | set(cn))
    ctx.check(not bad, 'C01.R1', f, 'row-independent', 'every CSV row becomes a rule independently of the rows before it',
              f'{bad} carries information from one CSV row to the next: whether a row becomes a rule depends on earlier rows (e.g. a plain `COSTCO` row after `COSTCO[amount>200]` is dropped '
              f'as a "duplicate", so what the first rule does not match falls through to Unknown)', (cc[bad[0]][0] if bad and bad[0] in cc else lp))


def _reordering_expr(e) -> str:
    for n in ast.walk(e):
        if isinstance(n, ast.Call):
            nm = call_name(n)
            if nm in REORDER_FUNCS:
                return f'{nm}()'
            if nm in ('fromkeys',):
                return 'dict.fromkeys()'
        if isinstance(n, ast.Subscript) and isinstance(n.slice, ast.Slice):
            st = n.slice.step
            if st is not None and not (isinstance(st, ast.Constant) and st.value == 1):
                return 'slice with step'
        if isinstance(n, (ast.SetComp,)):
            return 'set comprehension'
    return ''


# --------------------------------------------------------------------------- R2
def _winner_assignments(d: Decider, candidates: Set[str]):
    out = {}
    for s in d.cfg.stmts():
        if d.in_loop(s) and isinstance(s, ast.Assign):
            for t in s.targets:
                for nm in target_names(t):
                    if nm in candidates:
                        out.setdefault(nm, []).append(s)
    return out


def _none_initialised(d: Decider) -> Set[str]:
    out = set()
    for s in d.cfg.stmts():
        if d.in_loop(s) or s is d.loop:
            continue
        if isinstance(s, (ast.Assign, ast.AnnAssign)) and s.value is not None and isinstance(s.value, ast.Constant) and s.value.value is None:
            targets = s.targets if isinstance(s, ast.Assign) else [s.target]
            for t in targets:
                if isinstance(t, ast.Name) and d.cfg.dominates(s, d.loop):
                    out.add(t.id)
    return out


def r2_first_wins(ctx: Ctx, eng: Decider, leg: Decider) -> None:
    for d, winners in ((eng, None), (leg, None)):
        none_init = _none_initialised(d)
        assigns = _winner_assignments(d, none_init)
        if not assigns:
            ctx.unknown('C01.R2', d.fi, 'no None-initialised winner variable assigned in the rule loop (first-wins accumulator idiom not found)', d.loop)
        r = d.rule_var
        # the primary winner: the one tested with `is None`
        primary = None
        for nm, stmts in assigns.items():
            for s in stmts:
                if any(t == f'{nm} is None' and truth for t, truth in d.guard_texts(s)):
                    primary = nm
        if primary is None:
            # no assignment is guarded by `<winner> is None`
            nm = sorted(assigns)[0]
            ctx.fail('C01.R2', d.fi, f'winner:{nm}', f'assignment of {nm} in the rule loop is not guarded by `{nm} is None`: a later matching rule overwrites the first', assigns[nm][0])
            continue
        for nm, stmts in sorted(assigns.items()):
            for s in stmts:
                g = d.guard_texts(s)
                matched = d.matched_guard(s)
                unset = (f'{primary} is None', True) in g
                has_cat = any(truth and text in [h.format(r=r) for h in HAS_CATEGORY_TEXTS] for text, truth in g)
                if not has_cat:
                    # the rule's fields may be read through a record built from the rule (a namedtuple / dataclass view of the tuple)
                    import re as _re
                    for text, truth in g:
                        m_ = _re.fullmatch(r'(?:bool\()?(\w+)\.(category|is_categorization_rule)\)?', text)
                        if truth and m_ and any(f'name:{r}' in d.fl.atoms(getattr(d.cfg.stmt[dn], 'value', None), d.cfg.stmt[dn]) or f'loopvar:{r}' in d.fl.atoms(getattr(d.cfg.stmt[dn], 'value', None), d.cfg.stmt[dn])
                                                for dn in d.cfg.defs_reaching(s, m_.group(1)) if dn != 'param' and getattr(d.cfg.stmt[dn], 'value', None) is not None):
                            has_cat = True
                from_rule = True
                if nm == primary:
                    a = d.fl.atoms(s.value, s)
                    from_rule = f'name:{r}' in a or f'loopvar:{r}' in a
                ok = matched and unset and has_cat and from_rule
                why = []
                if not matched:
                    why.append('not control-dependent on the match flag')
                if not unset:
                    why.append(f'not guarded by `{primary} is None` (last match would win)')
                if not has_cat:
                    why.append('not guarded by "rule has a category" (a tag-only rule could win)')
                if not from_rule:
                    why.append('value does not derive from the current rule')
                ctx.check(ok, 'C01.R2', d.fi, f'winner:{nm}', f'{nm} assigned only under matched & {primary} is None & has-category',
                          f'{src(s)[:60]!r}: ' + '; '.join(why), s)
        # no break / return inside the loop (every rule is still visited: C02), no else-branch reassigning
        for s in d.cfg.stmts():
            if d.in_loop(s) and isinstance(s, (ast.Break, ast.Return)):
                inner = [a for a in ancestors(s) if isinstance(a, (ast.For, ast.While))][0]
                if inner is d.loop:
                    ctx.fail('C01.R2', d.fi, f'early-exit:{type(s).__name__}', f'{type(s).__name__.lower()} inside the rule loop: later rules are not evaluated (tags of later matching rules are lost)', s)
    # is_categorization_rule derives from category alone
    prop = ctx.proj.func('merchant_engine.MerchantRule.is_categorization_rule')
    fl = get_flow(ctx.proj, prop)
    for r_ in [s for s in fl.cfg.stmts() if isinstance(s, ast.Return)]:
        a = fl.atoms(r_.value, r_)
        attrs = {x for x in a if x.startswith('attr:')}
        ctx.check(attrs == {'attr:self.category'}, 'C01.R2', prop, 'has-category', 'is_categorization_rule == bool(self.category)',
                  f'is_categorization_rule derives from {sorted(attrs)}, not from self.category alone', r_)


# --------------------------------------------------------------------------- R3
def r3_coherence(ctx: Ctx, eng: Decider, leg: Decider) -> None:
    # engine: stores to result.<field> under the first_match branch
    d = eng
    fields = {}
    for s in d.cfg.stmts():
        if d.in_loop(s) or not isinstance(s, ast.Assign):
            continue
        for t in s.targets:
            if isinstance(t, ast.Attribute) and isinstance(t.value, ast.Name) and t.attr in ('merchant', 'category', 'subcategory', 'matched_rule'):
                g = d.guard_texts(s)
                if ("self.match_mode == 'first_match'", True) in g or ('self.match_mode == "first_match"', True) in g:
                    fields.setdefault(t.attr, []).append(s)
    need = ['merchant', 'category', 'subcategory']
    missing = [f for f in need if f not in fields]
    if missing:
        ctx.unknown('C01.R3', d.fi, f'first_match branch does not assign result.{missing}', d.loop)
    roots = {}
    for fld, stmts in fields.items():
        for s in stmts:
            v = s.value
            base = v.value if isinstance(v, ast.Attribute) else v
            if not isinstance(base, ast.Name):
                ctx.fail('C01.R3', d.fi, f'field:{fld}', f'result.{fld} = {src(v)[:40]!r} is not read from the winner binding', s)
                continue
            defs = frozenset(d.cfg.defs_reaching(s, base.id))
            attr_ok = (not isinstance(v, ast.Attribute)) or v.attr == fld
            roots[fld] = (base.id, defs)
            a = d.fl.atoms(v, s)
            winner_src = [x for x in a if x.startswith('name:') and x[5:] in _none_initialised(d)]
            ctx.check(attr_ok and bool(winner_src), 'C01.R3', d.fi, f'field:{fld}', f'result.{fld} <- {src(v)} (winner {winner_src})',
                      f'result.{fld} = {src(v)!r}: ' + ('reads a different attribute' if not attr_ok else 'does not derive from the first-match winner'), s)
    ids = {v for v in roots.values()}
    ctx.check(len(ids) == 1, 'C01.R3', d.fi, 'same-binding', f'all result fields read the same binding {next(iter(ids))[0] if ids else ""}',
              f'result fields are read from different bindings: { {k: v[0] for k, v in roots.items()} }', d.loop)

    # legacy: the four result_* assignments happen together, from the same rule
    d = leg
    none_init = _none_initialised(d)
    assigns = _winner_assignments(d, none_init)
    want = {'merchant': None, 'category': None, 'subcategory': None}
    blocks = set()
    for nm, stmts in assigns.items():
        for s in stmts:
            blocks.add(id(parent(s)))
            v = s.value
            for key in want:
                if nm.endswith(key) and not (key == 'category' and nm.endswith('subcategory')):
                    ok = isinstance(v, ast.Name) and v.id == key and (f'loopvar:{d.rule_var}' in d.fl.atoms(v, s) or f'name:{d.rule_var}' in d.fl.atoms(v, s))
                    ctx.check(ok, 'C01.R3', d.fi, f'field:{nm}', f'{nm} <- {src(v)} of the current rule tuple',
                              f'{nm} = {src(v)!r}: not the {key} component of the current rule', s)
                    want[key] = s
    ctx.check(len(blocks) == 1 and all(want.values()), 'C01.R3', d.fi, 'same-binding', 'merchant/category/subcategory are set together in one guarded block',
              'legacy loop sets merchant/category/subcategory in different blocks (they can come from different rules)', d.loop)
    # the tuple unpacking maps components to the right names
    for s in d.cfg.stmts():
        if d.in_loop(s) and isinstance(s, ast.Assign) and len(s.targets) == 1 and isinstance(s.targets[0], ast.Tuple) \
                and isinstance(s.value, ast.Name) and s.value.id == d.rule_var:
            names = [e.id if isinstance(e, ast.Name) else '?' for e in s.targets[0].elts]
            ok = names[:4] == ['pattern', 'merchant', 'category', 'subcategory']
            ctx.check(ok, 'C01.R3', d.fi, f'unpack:{len(names)}', f'{len(names)}-tuple unpacked as {names[:4]}…',
                      f'rule tuple unpacked as {names}: components in the wrong order', s)
    # the returned triple comes from those bindings
    for r in [s for s in d.cfg.stmts() if isinstance(s, ast.Return) and isinstance(s.value, ast.Tuple) and len(s.value.elts) == 4]:
        e = s = r.value.elts
        texts = [src(x) for x in e[:3]]
        if texts == ['result_merchant', 'result_category', 'result_subcategory'] or texts == ['result.merchant', 'result.category', 'result.subcategory']:
            ctx.ok('C01.R3', d.fi, f'return ({", ".join(texts)}, …)', r, f'return:{texts[0]}')
        elif 'Unknown' in ''.join(texts):
            continue
        else:
            ctx.fail('C01.R3', d.fi, f'return:{texts[0][:20]}', f'return ({", ".join(texts)}, …) mixes bindings', r)


# --------------------------------------------------------------------------- R4
def r4_inert(ctx: Ctx, eng: Decider, leg: Decider) -> None:
    for d in (eng, leg):
        effs = persistent_effects(d)
        if len(effs) < 3:
            ctx.unknown('C01.R4', d.fi, f'only {len(effs)} persistent effects found in the rule loop', d.loop)
        for s, what in effs:
            ok = d.matched_guard(s)
            ctx.check(ok, 'C01.R4', d.fi, what, f'{what} happens only when the rule matched',
                      f'{what} ({src(s)[:50]!r}) is executed for rules that did not match: a non-matching rule influences the result', s)
    # let bindings write into a fresh copy
    proj = ctx.proj
    f = proj.func('merchant_engine.MerchantEngine._evaluate_let_bindings')
    fl = get_flow(proj, f)
    stores = [s for s in fl.cfg.stmts() if isinstance(s, ast.Assign) and any(isinstance(t, ast.Subscript) for t in s.targets)]
    if not stores:
        ctx.unknown('C01.R4', f, 'no variable store found in _evaluate_let_bindings')
    for s in stores:
        t = [t for t in s.targets if isinstance(t, ast.Subscript)][0]
        root = root_name(t)
        defs = fl.cfg.defs_reaching(s, root) if root else set()
        fresh = bool(defs) and 'param' not in defs
        for dnode in defs:
            if dnode == 'param':
                continue
            ds = fl.cfg.stmt[dnode]
            v = getattr(ds, 'value', None)
            if not (isinstance(v, ast.Call) and (call_name(v) in ('copy', 'dict', 'deepcopy')) or isinstance(v, (ast.Dict, ast.DictComp))):
                fresh = False
        ctx.check(fresh, 'C01.R4', f, f'let-store:{root}', f'let results are written into a fresh copy ({root})',
                  f'{src(s)[:50]!r} writes let results into the shared variable dict: a rule\'s let leaks into later rules', s)
    # and the copy is what is returned
    for r in [s for s in fl.cfg.stmts() if isinstance(s, ast.Return)]:
        ctx.check(isinstance(r.value, ast.Name) and r.value.id != 'base_variables', 'C01.R4', f, 'let-return', 'returns the copy',
                  f'returns {src(r.value)!r}', r)


# --------------------------------------------------------------------------- R5
def r5_transforms(ctx: Ctx, leg: Decider) -> None:
    proj = ctx.proj
    d = leg
    fl = d.fl
    calls = fl.calls('apply_transforms')
    if len(calls) != 1:
        ctx.fail('C01.R5', d.fi, 'apply_transforms:call', f'{len(calls)} apply_transforms calls in normalize_merchant (expected one before matching)')
        return
    c = calls[0]
    cs = fl.stmt_of(c)
    g = d.cfg.guard_literals(cs)
    ok = g <= {('transforms', True)}
    ctx.check(ok, 'C01.R5', d.fi, 'apply_transforms:guard', 'apply_transforms guarded by nothing but `if transforms`',
              f'apply_transforms is additionally guarded by {sorted(g - {("transforms", True)})}: transforms are skipped for some transactions', c)
    # precedes engine call and legacy loop on every path
    engine_calls = [x for x in fl.calls('match') if isinstance(x.func, ast.Attribute)]
    targets = [fl.stmt_of(x) for x in engine_calls] + [d.loop]
    guard_if = None
    for a in ancestors(cs):
        if isinstance(a, ast.If) and src(a.test) == 'transforms':
            guard_if = a
    for t in targets:
        anchor = guard_if if guard_if is not None else cs
        ok = d.cfg.dominates(anchor, t) and not d.cfg.dominates(t, anchor)
        ctx.check(ok, 'C01.R5', d.fi, f'order:{type(t).__name__}@{"engine" if t is not d.loop else "legacy"}',
                  'transforms are applied before matching', 'matching can happen before / without the transform step', t)
    # the object transformed is the object matched
    tgt = src(c.args[0]) if c.args else '?'
    for x in engine_calls:
        ok = x.args and src(x.args[0]) == tgt
        ctx.check(ok, 'C01.R5', d.fi, 'matched-object:engine', f'engine matches the transformed {tgt}',
                  f'engine matches {src(x.args[0]) if x.args else "?"!r}, transforms were applied to {tgt!r}', x)
    for x in [n for n in fl.calls('matches_transaction') if d.in_loop(n)]:
        ok = len(x.args) > 1 and src(x.args[1]) == tgt
        ctx.check(ok, 'C01.R5', d.fi, 'matched-object:legacy-expr', f'legacy expression rules match the transformed {tgt}',
                  f'legacy expression rules match {src(x.args[1]) if len(x.args) > 1 else "?"!r}', x)
    # description re-read after transforms
    reread = [s for s in fl.cfg.stmts() if isinstance(s, ast.Assign) and any(isinstance(t, ast.Name) and t.id == 'description' for t in s.targets)]
    ok = any(f'key:{tgt}:description' in fl.atoms(s.value, s) and guard_if is not None and any(a is guard_if for a in ancestors(s)) for s in reread)
    ctx.check(ok, 'C01.R5', d.fi, 'reread:description', 'description is re-read from the transformed transaction',
              'description used for regex matching / Unknown naming is not re-read after the transforms', cs)
    # regex search target derives from that description
    for x in [n for n in fl.calls('search') if d.in_loop(n)]:
        a = fl.atoms(x.args[1], x) if len(x.args) > 1 else set()
        ok = 'name:description' in a
        ctx.check(ok, 'C01.R5', d.fi, 'regex-target', 'legacy regex searches the (transformed) description',
                  f're.search target {src(x.args[1]) if len(x.args) > 1 else "?"!r} does not derive from description', x)
    # apply_transforms: context rebuilt for each transform (sequential semantics)
    at = proj.func('merchant_utils.apply_transforms')
    afl = get_flow(proj, at)
    loops = [s for s in afl.cfg.stmts() if isinstance(s, ast.For)]
    ok = False
    for lp in loops:
        for n in ast.walk(lp):
            if isinstance(n, ast.Call) and call_name(n) in ('from_transaction', 'evaluate_transaction') and any(a is lp for a in ancestors(n)):
                ok = True
    ctx.check(ok, 'C01.R5', at, 'sequential', 'each transform is evaluated against the current state of the transaction',
              'evaluation context is not rebuilt inside the transform loop: later transforms do not see earlier ones')
    # a transform that cannot be evaluated is skipped on its own: the loop goes on with the next one
    for lp in loops:
        exits = [n for n in ast.walk(lp) if isinstance(n, (ast.Break, ast.Return)) and [a for a in ancestors(n) if isinstance(a, (ast.For, ast.While))][0] is lp]
        ctx.check(not exits, 'C01.R5', at, 'every-transform', 'every transform of the file is attempted (no break / return inside the loop)',
                  f'`{src(exits[0]) if exits else ""}` inside the transform loop: after one inapplicable transform the remaining ones are not applied, so rules match a partly transformed transaction',
                  exits[0] if exits else None)


# --------------------------------------------------------------------------- R6
def r6_unknown(ctx: Ctx, leg: Decider) -> None:
    d = leg
    fl = d.fl
    rets = [s for s in fl.cfg.stmts() if isinstance(s, ast.Return)]
    n = 0
    for r in rets:
        v = r.value
        if not (isinstance(v, ast.Tuple) and len(v.elts) == 4):
            ctx.fail('C01.R6', d.fi, f'return-shape', f'return {src(v)[:50] if v else None!r} is not a 4-tuple', r)
            continue
        cat, sub = v.elts[1], v.elts[2]
        is_unknown = any(isinstance(x, ast.Constant) and x.value == 'Unknown' for x in (cat, sub))
        winner = [src(x) for x in v.elts[:3]]
        if not is_unknown:
            continue
        n += 1
        both = all(isinstance(x, ast.Constant) and x.value == 'Unknown' for x in (cat, sub))
        a = fl.atoms(v.elts[0], r)
        from_desc = 'call:extract_merchant_name' in a and ('param:description' in a or 'key:transaction:description' in a)
        foreign = {x for x in a if x.startswith('param:') and x not in ('param:description', 'param:transforms', 'param:field',
                                                                      'param:amount', 'param:txn_date', 'param:data_source', 'param:location')}
        # the argument of extract_merchant_name must be the description only
        arg_ok = True
        for c in fl.calls('extract_merchant_name'):
            aa = fl.atoms(c.args[0], c) if c.args else set()
            if not ({'name:description'} & aa) or (aa & {'param:amount', 'param:txn_date', 'param:data_source', 'param:location'}):
                arg_ok = False
        ctx.check(both and from_desc and arg_ok, 'C01.R6', d.fi, f'unknown-return:{r.lineno - d.fi.lineno > 80 and "legacy" or "engine"}:{"info" if not (isinstance(v.elts[3], ast.Constant)) else "none"}',
                  'returns (extract_merchant_name(description), Unknown, Unknown, …)',
                  f'no-winner return {src(v)[:70]!r}: ' + ('category/subcategory are not both the literal "Unknown"' if not both else 'merchant name does not derive from the description alone'), r)
    if n < 2:
        ctx.unknown('C01.R6', d.fi, f'{n} Unknown returns found')
    # extract_merchant_name is a pure function of its argument
    em = ctx.proj.func('merchant_utils.extract_merchant_name')
    efl = get_flow(ctx.proj, em)
    for r in [s for s in efl.cfg.stmts() if isinstance(s, ast.Return)]:
        a = efl.atoms(r.value, r)
        globs = {x for x in a if x.startswith('global:') and x not in ('global:re', 'global:clean_description')}
        ctx.check(not globs, 'C01.R6', em, f'pure:{src(r.value)[:20]}', 'depends on the description only', f'reads {sorted(globs)}', r)


# --------------------------------------------------------------------------- R7
def r7_sniffing(ctx: Ctx, *deciders: Decider) -> None:
    proj = ctx.proj
    found = 0
    funcs = [d.fi for d in deciders] + [proj.func('merchant_utils.explain_description')]
    seen = set()
    for f in funcs:
        if f.qualname in seen:
            continue
        seen.add(f.qualname)
        if f.name == 'explain_description':
            continue        # C16's business
        for n in all_nodes(f.node):
            if not isinstance(n, ast.If):
                continue
            t = n.test
            if isinstance(t, ast.UnaryOp) and isinstance(t.op, ast.Not):
                t = t.operand
            if not (isinstance(t, ast.Call) and isinstance(t.func, ast.Name) and len(t.args) == 1 and isinstance(t.args[0], ast.Name)):
                continue
            r = proj.resolve_name(f.module, t.func.id)
            if not (r and r[0] == 'func'):
                continue
            g = r[1]
            if not _is_text_sniffer(g):
                continue
            arg = t.args[0].id
            arm_a = {call_name(c) for s in n.body for c in ast.walk(s) if isinstance(c, ast.Call) and _mentions(c, arg)}
            arm_b = {call_name(c) for s in n.orelse for c in ast.walk(s) if isinstance(c, ast.Call) and _mentions(c, arg)}
            interp_a = arm_a & {'matches_transaction', 'evaluate_transaction', 'search', 'match', 'fullmatch'}
            interp_b = arm_b & {'matches_transaction', 'evaluate_transaction', 'search', 'match', 'fullmatch'}
            if interp_a and interp_b and interp_a != interp_b:
                found += 1
                ctx.fail('C01.R7', f, f'sniff:{g.name}',
                         f'`if {src(n.test)}` decides by the characters of the pattern whether it is handed to {sorted(interp_a)} or to {sorted(interp_b)}: '
                         f'a legacy CSV regex such as "(AMAZON|AMZN)" or "BED BATH and BEYOND" is evaluated as an expression, fails, and never matches', n)
    if not found:
        ctx.ok('C01.R7', deciders[0].fi, 'no content-sniffing dispatch in the deciders', construct='sniff:none')


def _mentions(call: ast.Call, name: str) -> bool:
    return any(isinstance(x, ast.Name) and x.id == name for a in call.args for x in ast.walk(a))


def _is_text_sniffer(g: FuncInfo) -> bool:
    """Body consists only of regex / substring / startswith tests on the single string parameter."""
    params = g.params
    if len(params) != 1:
        return False
    p = params[0]
    rets = [n for n in ast.walk(g.node) if isinstance(n, ast.Return) and n.value is not None]
    if not rets:
        return False
    # a function that asks the expression parser is not sniffing characters: "is an expression" then means "the language accepts it"
    if any(isinstance(n, ast.Call) and call_name(n) in ('parse_expression', 'validate_ast') for n in ast.walk(g.node)):
        return False
    for r in rets:
        for n in ast.walk(r.value):
            if isinstance(n, ast.Call):
                nm = call_name(n)
                if nm not in ('bool', 'match', 'search', 'startswith', 'endswith', 'any', 'all', 'fullmatch'):
                    return False
            if isinstance(n, ast.Name) and n.id not in (p, 're', 'bool', 'any', 'all') and not n.id.endswith('_pattern') and not n.id.isupper():
                return False
    return True


# --------------------------------------------------------------------------- R8
def r8_environment(ctx: Ctx, eng: Decider) -> None:
    d = eng
    fl = d.fl
    r = d.rule_var
    txn = d.fi.params[1] if len(d.fi.params) > 1 else 'transaction'
    mcalls = [c for c in fl.calls() if call_name(c) in ('matches_transaction',) and d.in_loop(c)]
    if len(mcalls) != 1:
        ctx.unknown('C01.R8', d.fi, f'{len(mcalls)} match evaluation calls in the rule loop')
    c = mcalls[0]
    callee = ctx.proj.func('expr_parser.matches_transaction')
    a_expr = arg_of(c, callee, 'expr')
    a_txn = arg_of(c, callee, 'transaction')
    a_var = arg_of(c, callee, 'variables')
    a_ds = arg_of(c, callee, 'data_sources')
    ctx.check(a_expr is not None and src(a_expr) == f'{r}.match_expr', 'C01.R8', d.fi, 'match:expr', f'evaluates {r}.match_expr',
              f'evaluates {src(a_expr) if a_expr is not None else None!r}, not the current rule\'s match expression', c)
    ctx.check(a_txn is not None and src(a_txn) == txn, 'C01.R8', d.fi, 'match:transaction', f'against the {txn} being classified',
              f'against {src(a_txn) if a_txn is not None else None!r}', c)
    ctx.check(a_ds is not None and 'param:data_sources' in fl.atoms(a_ds, c), 'C01.R8', d.fi, 'match:data_sources', 'with the supplemental sources handed in',
              'supplemental data sources are not passed to the match evaluation', c)
    if a_var is None:
        ctx.fail('C01.R8', d.fi, 'match:variables', 'no variable environment passed to the match evaluation', c)
    else:
        leaves = fl.leaf_paths(a_var, c)
        calls_seen = {o for _, ops in leaves for o in ops if o.startswith('call:')}
        ok = 'call:_evaluate_let_bindings' in calls_seen and 'call:_evaluate_variables' in calls_seen
        ctx.check(ok, 'C01.R8', d.fi, 'match:variables', 'environment = let bindings of this rule, else the per-transaction globals',
                  f'environment derives from {sorted(calls_seen)}', c)
    # let bindings of *this* rule, over *this* transaction, on top of the globals
    for lc in [x for x in fl.calls('_evaluate_let_bindings') if d.in_loop(x)]:
        callee = ctx.proj.func('merchant_engine.MerchantEngine._evaluate_let_bindings')
        ok = src(arg_of(lc, callee, 'rule') or ast.Constant(None)) == r and src(arg_of(lc, callee, 'transaction') or ast.Constant(None)) == txn \
            and 'call:_evaluate_variables' in fl.atoms(arg_of(lc, callee, 'base_variables') or ast.Constant(None), lc)
        g = d.guard_texts(fl.stmt_of(lc))
        ok = ok and (f'{r}.let_bindings', True) in g
        ctx.check(ok, 'C01.R8', d.fi, 'let:args', f'_evaluate_let_bindings({r}, {txn}, globals) under `{r}.let_bindings`',
                  f'{src(lc)[:70]!r}: wrong rule / transaction / base environment', lc)
    gcalls = fl.calls('_evaluate_variables')
    for gc in gcalls:
        ok = not d.in_loop(gc) and gc.args and src(gc.args[0]) == txn
        ctx.check(ok, 'C01.R8', d.fi, 'globals:args', f'globals evaluated once for {txn}', f'{src(gc)[:60]!r}', gc)
    # winner's fields with the winner's environment
    for fc in fl.calls('_evaluate_fields'):
        g = d.guard_texts(fl.stmt_of(fc))
        if not (("self.match_mode == 'first_match'", True) in g):
            continue
        callee = ctx.proj.func('merchant_engine.MerchantEngine._evaluate_fields')
        ra, va = arg_of(fc, callee, 'rule'), arg_of(fc, callee, 'variables')
        a1 = fl.atoms(ra, fc) if ra is not None else set()
        a2 = fl.atoms(va, fc) if va is not None else set()
        winners = _none_initialised(d)
        w1 = {x[5:] for x in a1 if x.startswith('name:') and x[5:] in winners}
        w2 = {x[5:] for x in a2 if x.startswith('name:') and x[5:] in winners}
        ctx.check(bool(w1) and w1 == w2, 'C01.R8', d.fi, 'fields:env', f'field expressions of the winner evaluated with the winner\'s own environment ({sorted(w1)})',
                  f'_evaluate_fields receives rule from {sorted(w1)} and environment from {sorted(w2)}', fc)
