"""Shared location logic for the rule-decider loops (C01, C02, C09, C16)."""
from __future__ import annotations

import ast
from dataclasses import dataclass
from typing import Dict, List, Optional, Set, Tuple

from ..callgraph import all_nodes
from ..cfg import CFG, defined_names, target_names
from ..flow import Flow, call_name, get_flow
from ..project import AnalysisError, FuncInfo, Project, ancestors, dotted, parent, root_name, src

MATCH_CALLS = {'matches_transaction', 'evaluate_transaction'}
MUTATORS = {'append', 'add', 'update', 'extend', 'insert', 'setdefault', 'pop', 'remove', 'clear', 'discard', 'sort', 'reverse'}


@dataclass
class Decider:
    fi: FuncInfo
    fl: Flow
    loop: ast.For
    rule_var: Optional[str]          # loop variable
    flags: Set[str]                  # names holding "this rule matched"
    kind: str                        # 'engine' | 'legacy'

    @property
    def cfg(self) -> CFG:
        return self.fl.cfg

    def in_loop(self, node) -> bool:
        return any(a is self.loop for a in ancestors(node))

    def matched_guard(self, stmt) -> bool:
        """Is stmt only reachable when the current rule matched?"""
        lits = self.cfg.guard_literals(stmt)
        for text, truth in lits:
            if truth and text in self.flags:
                return True
        # `if not matches: continue` already yields (matches, True) through control dependence
        return False

    def guard_texts(self, stmt) -> Set[Tuple[str, bool]]:
        return self.cfg.guard_literals(stmt)

    def pre_loop_names(self) -> Set[str]:
        """Names with a definition that reaches the loop head from outside the loop."""
        rd = self.cfg.reaching()
        nid = self.cfg.nid(self.loop)
        out = set()
        for var, defs in rd.get(nid, {}).items():
            for d in defs:
                if d == 'param':
                    out.add(var)
                    continue
                s = self.cfg.stmt[d]
                if not any(a is self.loop for a in ancestors(s)) and s is not self.loop:
                    out.add(var)
        return out


def find_engine_decider(proj: Project) -> Decider:
    fi = proj.func('merchant_engine.MerchantEngine.match')
    return _find(proj, fi, 'engine')


def find_legacy_decider(proj: Project) -> Decider:
    fi = proj.func('merchant_utils.normalize_merchant')
    d = _find(proj, fi, 'legacy')
    # the legacy rules are tuples taken apart in the loop: the rules of C01/C02/C09/C14 speak about the components by the names they are
    # unpacked into.  If the loop does not unpack its rule into names any more (a record type, index access …) none of them can bind.
    unpacked = set()
    for st in ast.walk(d.loop):
        if not isinstance(st, ast.Assign):
            continue
        v = st.value
        # `a, b, c = rule`, `a, b = rule[:2]`, `c = rule[4] if len(rule) > 4 else None`
        parts = [v.body, v.orelse] if isinstance(v, ast.IfExp) else [v]
        if any(isinstance(x, ast.Name) and x.id == d.rule_var or (isinstance(x, ast.Subscript) and isinstance(x.value, ast.Name) and x.value.id == d.rule_var) for x in parts):
            for t in st.targets:
                unpacked |= set(target_names(t))
    if not ({'pattern', 'category'} <= unpacked):
        raise AnalysisError(f'{fi.short}: the legacy rule loop no longer unpacks its rule tuples into pattern / merchant / category … (found {sorted(unpacked)}): '
                            f'the rules written for that shape do not apply')
    return d


def _find(proj: Project, fi: FuncInfo, kind: str) -> Decider:
    fl = get_flow(proj, fi)
    cands = []
    for s in fl.cfg.stmts():
        if not isinstance(s, ast.For):
            continue
        calls = [n for st in s.body for n in ast.walk(st) if isinstance(n, ast.Call) and call_name(n) in MATCH_CALLS]
        if calls:
            cands.append(s)
    # outermost such loop
    cands = [c for c in cands if not any(a in cands for a in ancestors(c))]
    if len(cands) != 1:
        raise AnalysisError(f'{fi.short}: expected exactly one rule loop that evaluates match expressions, found {len(cands)}')
    loop = cands[0]
    names = target_names(loop.target)
    rule_var = names[0] if names else None
    if len(names) > 1:
        # for (i, rule) in enumerate(...): the rule variable is the one whose attributes / components are read
        used = {}
        for n in ast.walk(loop):
            if isinstance(n, ast.Attribute) and isinstance(n.value, ast.Name) and n.value.id in names:
                used[n.value.id] = used.get(n.value.id, 0) + 1
            if isinstance(n, ast.Assign) and isinstance(n.value, ast.Name) and n.value.id in names:
                used[n.value.id] = used.get(n.value.id, 0) + 1
        if used:
            rule_var = max(used, key=used.get)
        else:
            rule_var = names[-1]
    flags = set()
    for st in ast.walk(loop):
        if isinstance(st, ast.Assign) and len(st.targets) == 1 and isinstance(st.targets[0], ast.Name):
            v = st.value
            if isinstance(v, ast.Call) and call_name(v) in MATCH_CALLS:
                flags.add(st.targets[0].id)
            elif isinstance(v, ast.Call) and call_name(v) == 'check_all_conditions':
                flags.add(st.targets[0].id)
    if not flags:
        raise AnalysisError(f'{fi.short}: no match-flag variable found in the rule loop')
    return Decider(fi, fl, loop, rule_var, flags, kind)


def loop_iter_plain(d: Decider) -> Tuple[bool, str]:
    """The loop iterates the rule list itself, in order."""
    it = d.loop.iter
    t = src(it)
    if isinstance(it, (ast.Name, ast.Attribute)):
        return True, t
    if isinstance(it, ast.Call) and call_name(it) in ('enumerate', 'list', 'tuple', 'iter') and it.args and isinstance(it.args[0], (ast.Name, ast.Attribute)):
        return True, t
    return False, t


def persistent_effects(d: Decider) -> List[Tuple[ast.AST, str]]:
    """Statements in the loop body with an effect that outlives the iteration:
    assignment to a pre-loop name, attribute/subscript store or mutator call rooted at a pre-loop name / parameter."""
    pre = d.pre_loop_names() | set(d.fi.params)
    out = []
    for s in d.cfg.stmts():
        if not d.in_loop(s) or s is d.loop:
            continue
        if isinstance(s, (ast.Assign, ast.AugAssign, ast.AnnAssign)):
            targets = s.targets if isinstance(s, ast.Assign) else [s.target]
            for t in targets:
                for nm in target_names(t):
                    if nm in pre and nm != d.rule_var:
                        out.append((s, f'assign:{nm}'))
                if isinstance(t, (ast.Attribute, ast.Subscript)):
                    r = root_name(t)
                    if r in pre:
                        out.append((s, f'store:{_shape(t)}'))
        from ..cfg import header_exprs
        for e in header_exprs(s):
            for n in ast.walk(e):
                if isinstance(n, ast.Call) and isinstance(n.func, ast.Attribute) and n.func.attr in MUTATORS:
                    r = root_name(n.func.value)
                    if r in pre and r != 'self' or (r == 'self' and False):
                        out.append((s, f'mutate:{_shape(n.func.value)}.{n.func.attr}'))
    return out


def _shape(t) -> str:
    """result.tag_rules / tag_sources[] – indexes dropped."""
    if isinstance(t, ast.Attribute):
        return _shape(t.value) + '.' + t.attr
    if isinstance(t, ast.Subscript):
        return _shape(t.value) + '[]'
    if isinstance(t, ast.Name):
        return t.id
    if isinstance(t, ast.Call):
        return _shape(t.func) + '()'
    return '?'
