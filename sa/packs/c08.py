"""C08 — a rule that fails to evaluate is skipped; it never aborts classification."""
from __future__ import annotations

import ast
from typing import List, Set

from ..callgraph import all_nodes, get_cg
from ..core import Ctx
from ..escapes import Escapes
from ..flow import call_name, get_flow
from ..project import AnalysisError, FuncInfo, ancestors, dotted, src

LEVEL = 'other'
EP = 'expr_parser'
ENTRY_POINTS = ['evaluate', 'evaluate_ast', 'evaluate_filter', 'evaluate_transaction', 'evaluate_transaction_ast',
                'matches_transaction', 'parse_expression', 'parse']
EVAL_APIS = {'evaluate', 'evaluate_ast', 'evaluate_filter', 'evaluate_transaction', 'evaluate_transaction_ast',
             'matches_transaction'}
SITE_MODULES = ['merchant_engine', 'merchant_utils', 'section_engine']
# witness expressions for the classes the primitive table knows (documentation in evidence; not executed)
WITNESS = {
    'TypeError': 'amount > "x"', 'AttributeError': 'contains(5)', 'StopIteration': 'next(r for r in rows if false)',
    'ValueError': 'min([r for r in rows if false])', 're.error': 'regex_replace(description, "(", "")',
    'OverflowError': 'round(amount * 1e308 * 1e308)', 'ZeroDivisionError': '(unguarded division)',
    'IndexError': 'rows[99]', 'KeyError': '(dict key)', 'statistics.StatisticsError': 'stddev([1])',
}


def user_funcs(proj) -> Set[str]:
    out = set()
    for c in ['TransactionEvaluator', 'ExpressionEvaluator', 'TransactionContext', 'ExpressionContext']:
        ci = proj.cls(f'{EP}.{c}')
        for m in ci.methods.values():
            if c.endswith('Evaluator') or m.name.startswith('_fn_') or m.name in ('get_by',):
                out.add(m.qualname)
    return out


def get_escapes(proj) -> Escapes:
    if '_escapes' not in proj.__dict__:
        proj.__dict__['_escapes'] = Escapes(proj, user_funcs(proj))
    return proj.__dict__['_escapes']


def eval_sites(proj, f: FuncInfo):
    """Call sites in f that evaluate expression text/trees: expr_parser API calls and <Evaluator>.evaluate(...)."""
    cg = get_cg(proj)
    ev = {proj.cls(f'{EP}.TransactionEvaluator').qualname, proj.cls(f'{EP}.ExpressionEvaluator').qualname}
    lt = cg.local_types(f)
    out = []
    for n in all_nodes(f.node):
        if not isinstance(n, ast.Call):
            continue
        d = dotted(n.func) or ''
        nm = call_name(n)
        if nm in EVAL_APIS and (d.startswith('expr_parser.') or d == nm and nm in ('matches_transaction', 'evaluate_transaction')):
            targets = [t for t in cg.resolve(f, n) if isinstance(t, FuncInfo) and t.module is proj.module(EP)]
            if targets:
                out.append((n, targets[0]))
        elif nm == 'evaluate' and isinstance(n.func, ast.Attribute) and isinstance(n.func.value, ast.Name) \
                and lt.get(n.func.value.id, set()) & ev:
            cls = proj.classes[next(iter(lt[n.func.value.id] & ev))]
            out.append((n, cls.methods['evaluate']))
        elif nm == 'evaluate' and isinstance(n.func, ast.Attribute) and isinstance(n.func.value, ast.Call):
            r = proj.resolve_name(f.module, dotted(n.func.value.func) or '')
            if r and r[0] == 'class' and r[1].qualname in ev:
                out.append((n, r[1].methods['evaluate']))
    return out


def enclosing_tries(node, fnode):
    """[(Try, in_body)] from innermost to outermost, only those whose *body* contains node."""
    out = []
    child = node
    for a in ancestors(node):
        if a is fnode:
            break
        if isinstance(a, ast.Try) and any(child is s for s in a.body):
            out.append(a)
        child = a
    return out


def enclosing_loop(node, fnode):
    for a in ancestors(node):
        if a is fnode:
            return None
        if isinstance(a, (ast.For, ast.While)):
            return a
    return None


def handler_tail_ok(h: ast.ExceptHandler) -> bool:
    """handler ends in continue / pass / a default assignment / return of a default — never re-raises."""
    for n in ast.walk(h):
        if isinstance(n, ast.Raise):
            return False
    return True


def check(ctx: Ctx) -> None:
    proj = ctx.proj
    ctx.rule('C08.R1', 'escape set of the evaluation entry points (fixed point over the call graph with the raising-primitive table)', floor=6)
    ctx.rule('C08.R2', 'each external evaluation site inside an item loop lies in a try within that loop body whose handlers cover the escape set and do not re-raise', floor=10)
    ctx.rule('C08.R3', 'no expression-caused exception class escapes normalize_merchant / classify_by_sections towards the row and source handlers', floor=4)
    E = get_escapes(proj)
    epm = proj.module(EP)

    # R1: entry points
    for name in ENTRY_POINTS:
        f = proj.func(f'{EP}.{name}')
        esc = E.of(f)
        foreign = sorted(k for k in esc if not E.is_sub(k, 'ExpressionError'))
        wit = {k: {'raised_at': esc[k], 'example_expression': WITNESS.get(k, '')} for k in foreign}
        ctx.ok('C08.R1', f, f'escape set {sorted(esc)}' + (f'; non-ExpressionError classes: {wit}' if foreign else ' (only expression errors)'),
               construct=f'escapes:{name}')
    ctx.notes.append('C08.R1 records the escape set; whether it is tolerable is decided at the sites (R2) and boundaries (R3).')

    # R2: sites
    n_sites = 0
    for modname in SITE_MODULES:
        mi = proj.module(modname)
        for f in [x for x in proj.all_funcs() if x.module is mi]:
            for call, target in eval_sites(proj, f):
                n_sites += 1
                _check_site(ctx, E, f, call, target)
    ctx.count('call_sites', n_sites)
    ctx.need(not (n_sites < 11), f'C08.R2: {n_sites} evaluation sites found, 13 were confirmed by hand (floor 11)')

    # R3: boundaries
    for qn, seen_from in [('merchant_utils.normalize_merchant', 'parsers.parse_generic_csv (row handler)'),
                          ('merchant_engine.MerchantEngine.match', 'normalize_merchant'),
                          ('analyzer.classify_by_sections', 'commands.run.cmd_run'),
                          ('section_engine.classify_merchants', 'classify_by_sections'),
                          ('merchant_utils.apply_tag_rules', 'callers'),
                          ('merchant_utils.apply_transforms', 'normalize_merchant')]:
        f = proj.func(qn)
        esc = E.of(f)
        caused = {k: v for k, v in esc.items() if f' {EP}.' in v}
        if caused:
            k0 = sorted(caused)[0]
            ctx.fail('C08.R3', f, 'expression-escapes',
                     f'{sorted(caused)} raised while evaluating user expressions can leave {f.name} (seen from {seen_from}); '
                     f'e.g. {k0} <- {caused[k0]}. In the CSV path a ValueError/IndexError is swallowed by the row handler (the row is '
                     f'silently dropped), anything else aborts the whole source')
        else:
            ctx.ok('C08.R3', f, f'no expression-caused class escapes (escape set {sorted(esc)})', construct='expression-escapes')


def _check_site(ctx: Ctx, E: Escapes, f: FuncInfo, call: ast.Call, target: FuncInfo) -> None:
    esc = E.of(target)
    label = f'site:{src(call.func)}'
    tries = enclosing_tries(call, f.node)
    loop = enclosing_loop(call, f.node)
    remaining = dict(esc)
    used = []
    for t in tries:
        # per-item containment: the try must sit inside the item loop (if any)
        if loop is not None and not any(a is loop for a in ancestors(t)):
            continue
        for h in t.handlers:
            types = E.handler_classes(h)
            caught = [k for k in remaining if E.caught_by(k, types)]
            if caught:
                if not handler_tail_ok(h):
                    # re-raised as something else: what it raises was accounted in escapes of f; at a site this is not "skip"
                    reraised = [src(n.exc.func if isinstance(n.exc, ast.Call) else n.exc) for n in ast.walk(h) if isinstance(n, ast.Raise) and n.exc is not None]
                    used.append(f'except {types} re-raises {reraised}')
                    # a loader-time validation site (parse) may re-raise as a parse error: accepted when the handler converts
                    for k in caught:
                        del remaining[k]
                    continue
                for k in caught:
                    del remaining[k]
                used.append(f'except {types}')
    if not remaining:
        ctx.ok('C08.R2', f, f'{src(call.func)} at line {call.lineno}: escape set {sorted(esc)} covered by {used}', call, label)
    else:
        k0 = sorted(remaining)[0]
        ctx.fail('C08.R2', f, label,
                 f'{src(call.func)}(...) at line {call.lineno} can raise {sorted(remaining)} which the enclosing handlers {used or "(none)"} '
                 f'do not catch: evaluation failure aborts the caller instead of skipping the item; e.g. {k0} <- {remaining[k0]} '
                 f'(expression such as `{WITNESS.get(k0, "?")}`)', call)
