"""C08 — a rule that fails to evaluate is skipped; it never aborts classification."""
from __future__ import annotations

import ast
from typing import List, Set

from ..callgraph import all_nodes, get_cg
from ..core import Ctx
from ..escapes import Escapes
from ..flow import call_name, get_flow
from ..project import AnalysisError, FuncInfo, ancestors, dotted, src

LEVEL = 'other'
EP = 'expr_parser'
ENTRY_POINTS = ['evaluate', 'evaluate_ast', 'evaluate_filter', 'evaluate_transaction', 'evaluate_transaction_ast',
                'matches_transaction', 'parse_expression', 'parse']
EVAL_APIS = {'evaluate', 'evaluate_ast', 'evaluate_filter', 'evaluate_transaction', 'evaluate_transaction_ast',
             'matches_transaction'}
SITE_MODULES = ['merchant_engine', 'merchant_utils', 'section_engine']
# witness expressions for the classes the primitive table knows (documentation in evidence; not executed)
WITNESS = {
    'TypeError': 'amount > "x"', 'AttributeError': 'contains(5)', 'StopIteration': 'next(r for r in rows if false)',
    'ValueError': 'min([r for r in rows if false])', 're.error': 'regex_replace(description, "(", "")',
    'OverflowError': 'round(amount * 1e308 * 1e308)', 'ZeroDivisionError': '(unguarded division)',
    'IndexError': 'rows[99]', 'KeyError': '(dict key)', 'statistics.StatisticsError': 'stddev([1])',
}


def user_funcs(proj) -> Set[str]:
    out = set()
    for c in ['TransactionEvaluator', 'ExpressionEvaluator', 'TransactionContext', 'ExpressionContext']:
        ci = proj.cls(f'{EP}.{c}')
        for m in ci.methods.values():
            if c.endswith('Evaluator') or m.name.startswith('_fn_') or m.name in ('get_by',):
                out.add(m.qualname)
    return out


def get_escapes(proj) -> Escapes:
    if '_escapes' not in proj.__dict__:
        proj.__dict__['_escapes'] = Escapes(proj, user_funcs(proj))
    return proj.__dict__['_escapes']


def eval_sites(proj, f: FuncInfo):
    """Call sites in f that evaluate expression text/trees: expr_parser API calls and <Evaluator>.evaluate(...)."""
    cg = get_cg(proj)
    ev = {proj.cls(f'{EP}.TransactionEvaluator').qualname, proj.cls(f'{EP}.ExpressionEvaluator').qualname}
    lt = cg.local_types(f)
    out = []
    for n in all_nodes(f.node):
        if not isinstance(n, ast.Call):
            continue
        d = dotted(n.func) or ''
        nm = call_name(n)
        if nm in EVAL_APIS and (d.startswith('expr_parser.') or d == nm and nm in ('matches_transaction', 'evaluate_transaction')):
            targets = [t for t in cg.resolve(f, n) if isinstance(t, FuncInfo) and t.module is proj.module(EP)]
            if targets:
                out.append((n, targets[0]))
        elif nm == 'evaluate' and isinstance(n.func, ast.Attribute) and isinstance(n.func.value, ast.Name) \
                and lt.get(n.func.value.id, set()) & ev:
            cls = proj.classes[next(iter(lt[n.func.value.id] & ev))]
            out.append((n, cls.methods['evaluate']))
        elif nm == 'evaluate' and isinstance(n.func, ast.Attribute) and isinstance(n.func.value, ast.Call):
            r = proj.resolve_name(f.module, dotted(n.func.value.func) or '')
            if r and r[0] == 'class' and r[1].qualname in ev:
                out.append((n, r[1].methods['evaluate']))
    return out


def enclosing_tries(node, fnode):
    """[(Try, in_body)] from innermost to outermost, only those whose *body* contains node."""
    out = []
    child = node
    for a in ancestors(node):
        if a is fnode:
            break
        if isinstance(a, ast.Try) and any(child is s for s in a.body):
            out.append(a)
        child = a
    return out


def enclosing_loop(node, fnode):
    for a in ancestors(node):
        if a is fnode:
            return None
        if isinstance(a, (ast.For, ast.While)):
            return a
    return None


def handler_tail_ok(h: ast.ExceptHandler) -> bool:
    """handler ends in continue / pass / a default assignment / return of a default — never re-raises."""
    for n in ast.walk(h):
        if isinstance(n, ast.Raise):
            return False
    return True


def check(ctx: Ctx) -> None:
    proj = ctx.proj
    ctx.rule('C08.R1', 'escape set of the evaluation entry points (fixed point over the call graph with the raising-primitive table)', floor=6)
    ctx.rule('C08.R2', 'each external evaluation site inside an item loop lies in a try within that loop body whose handlers cover the escape set and do not re-raise', floor=10)
    ctx.rule('C08.R4', 'an evaluation result that may be a live generator is never iterated outside the evaluator (its body would run, and fail, outside the ExpressionError guard)', floor=1)
    ctx.rule('C08.R3', 'no expression-caused exception class escapes normalize_merchant / classify_by_sections towards the row and source handlers', floor=4)
    E = get_escapes(proj)
    epm = proj.module(EP)

    # R1: entry points
    for name in ENTRY_POINTS:
        f = proj.func(f'{EP}.{name}')
        esc = E.of(f)
        foreign = sorted(k for k in esc if not E.is_sub(k, 'ExpressionError'))
        wit = {k: {'raised_at': esc[k], 'example_expression': WITNESS.get(k, '')} for k in foreign}
        ctx.ok('C08.R1', f, f'escape set {sorted(esc)}' + (f'; non-ExpressionError classes: {wit}' if foreign else ' (only expression errors)'),
               construct=f'escapes:{name}')
    ctx.notes.append('C08.R1 records the escape set; whether it is tolerable is decided at the sites (R2) and boundaries (R3).')

    # R2: sites
    n_sites = 0
    for modname in SITE_MODULES:
        mi = proj.module(modname)
        for f in [x for x in proj.all_funcs() if x.module is mi]:
            for call, target in eval_sites(proj, f):
                n_sites += 1
                _check_site(ctx, E, f, call, target)
    ctx.count('call_sites', n_sites)
    ctx.need(not (n_sites < 11), f'C08.R2: {n_sites} evaluation sites found, 13 were confirmed by hand (floor 11)')

    # R4: lazily evaluated results are not consumed outside the evaluator's guard
    r4_lazy(ctx)
    # R5: the store half of a transform step on a transaction without custom captures
    r5_transform_store(ctx, E)
    # a failing view variable makes that variable None; it does not decide membership
    from .c10 import view_verdict
    view_verdict(ctx, 'C08.R2')

    # R3: boundaries
    for qn, seen_from in [('merchant_utils.normalize_merchant', 'parsers.parse_generic_csv (row handler)'),
                          ('merchant_engine.MerchantEngine.match', 'normalize_merchant'),
                          ('analyzer.classify_by_sections', 'commands.run.cmd_run'),
                          ('section_engine.classify_merchants', 'classify_by_sections'),
                          ('merchant_utils.apply_tag_rules', 'callers'),
                          ('merchant_utils.apply_transforms', 'normalize_merchant')]:
        f = proj.func(qn)
        esc = E.of(f)
        caused = {k: v for k, v in esc.items() if f' {EP}.' in v}
        if caused:
            k0 = sorted(caused)[0]
            ctx.fail('C08.R3', f, 'expression-escapes',
                     f'{sorted(caused)} raised while evaluating user expressions can leave {f.name} (seen from {seen_from}); '
                     f'e.g. {k0} <- {caused[k0]}. In the CSV path a ValueError/IndexError is swallowed by the row handler (the row is '
                     f'silently dropped), anything else aborts the whole source')
        else:
            ctx.ok('C08.R3', f, f'no expression-caused class escapes (escape set {sorted(esc)})', construct='expression-escapes')


def _check_site(ctx: Ctx, E: Escapes, f: FuncInfo, call: ast.Call, target: FuncInfo) -> None:
    esc = E.of(target)
    label = f'site:{src(call.func)}'
    tries = enclosing_tries(call, f.node)
    loop = enclosing_loop(call, f.node)
    remaining = dict(esc)
    used = []
    for t in tries:
        # per-item containment: the try must sit inside the item loop (if any)
        if loop is not None and not any(a is loop for a in ancestors(t)):
            continue
        for h in t.handlers:
            types = E.handler_classes(h)
            caught = [k for k in remaining if E.caught_by(k, types)]
            if caught:
                if not handler_tail_ok(h):
                    # re-raised as something else: what it raises was accounted in escapes of f; at a site this is not "skip"
                    reraised = [src(n.exc.func if isinstance(n.exc, ast.Call) else n.exc) for n in ast.walk(h) if isinstance(n, ast.Raise) and n.exc is not None]
                    used.append(f'except {types} re-raises {reraised}')
                    # a loader-time validation site (parse) may re-raise as a parse error: accepted when the handler converts
                    for k in caught:
                        del remaining[k]
                    continue
                for k in caught:
                    del remaining[k]
                used.append(f'except {types}')
    # per-item containment: a handler inside the item loop must go on with the next item
    if loop is not None:
        for t in tries:
            if not any(a is loop for a in ancestors(t)):
                continue
            for h in t.handlers:
                for n in ast.walk(ast.Module(body=h.body, type_ignores=[])):
                    inner_loops = [a for a in ancestors(n) if isinstance(a, (ast.For, ast.While))]
                    if isinstance(n, ast.Break) and (not inner_loops or inner_loops[0] is loop) or \
                            (isinstance(n, ast.Return) and f.name not in ('evaluate_section_filter',)):
                        ctx.fail('C08.R2', f, f'{label}:handler-exit',
                                 f'the handler around {src(call.func)}(...) (line {h.lineno}) leaves the item loop with `{src(n)[:30]}`: one item that cannot be evaluated '
                                 f'makes every later rule / transform / tag inapplicable too, instead of just itself', n)
    if not remaining:
        ctx.ok('C08.R2', f, f'{src(call.func)} at line {call.lineno}: escape set {sorted(esc)} covered by {used}', call, label)
    else:
        k0 = sorted(remaining)[0]
        ctx.fail('C08.R2', f, label,
                 f'{src(call.func)}(...) at line {call.lineno} can raise {sorted(remaining)} which the enclosing handlers {used or "(none)"} '
                 f'do not catch: evaluation failure aborts the caller instead of skipping the item; e.g. {k0} <- {remaining[k0]} '
                 f'(expression such as `{WITNESS.get(k0, "?")}`)', call)


def _is_field_lookup(n) -> bool:
    """transaction['field']  or  transaction.get('field'[, d])"""
    if isinstance(n, ast.Subscript) and isinstance(n.value, ast.Name) and isinstance(n.slice, ast.Constant) and n.slice.value == 'field':
        return True
    return isinstance(n, ast.Call) and isinstance(n.func, ast.Attribute) and n.func.attr in ('get', 'setdefault') and isinstance(n.func.value, ast.Name) \
        and bool(n.args) and isinstance(n.args[0], ast.Constant) and n.args[0].value == 'field'


def r5_transform_store(ctx: Ctx, E: Escapes) -> None:
    """A transform step is evaluation *and* store.  The readers build transactions whose 'field' entry is None when the
    source captures no custom column (premise, read from the repo: a dict display `'field': <x>` where <x> is `... else None` or a
    parameter defaulting to None).  On such a transaction every dereference of the 'field' mapping in apply_transforms raises
    AttributeError / TypeError; the property wants that transform skipped, not the row (and, through parse_generic_csv's narrow
    row handler, the whole source) lost.  Accepted: the dereference lies in a try inside the transform loop whose handlers cover
    both classes and do not re-raise.  A None/emptiness test of the mapping is an idiom this rule does not know: exit 2."""
    proj = ctx.proj
    ctx.rule('C08.R5', "apply_transforms: every dereference of the transaction's 'field' mapping (None when the source captures no custom "
                       'column) lies in a per-transform try whose handlers cover AttributeError and TypeError: an inapplicable transform is skipped, the source is not lost', floor=2)
    f = proj.func('merchant_utils.apply_transforms')
    premise = []
    for qn in ('merchant_utils.normalize_merchant', 'parsers.parse_generic_csv'):
        g = proj.func(qn)
        none_params = set()
        a = g.node.args
        pos = a.posonlyargs + a.args
        for arg, d in zip(pos[len(pos) - len(a.defaults):], a.defaults):
            if isinstance(d, ast.Constant) and d.value is None:
                none_params.add(arg.arg)
        for arg, d in zip(a.kwonlyargs, a.kw_defaults):
            if isinstance(d, ast.Constant) and d is not None and d.value is None:
                none_params.add(arg.arg)
        for n in all_nodes(g.node):
            if isinstance(n, ast.Dict):
                for k, v in zip(n.keys, n.values):
                    if isinstance(k, ast.Constant) and k.value == 'field':
                        if isinstance(v, ast.IfExp) and any(isinstance(b, ast.Constant) and b.value is None for b in (v.body, v.orelse)) \
                                or isinstance(v, ast.Name) and v.id in none_params or isinstance(v, ast.Constant) and v.value is None:
                            premise.append(f'{g.name}:{n.lineno} `{src(k)}: {src(v)[:40]}`')
    derefs = []
    # a local bound to the mapping (`fields = transaction.setdefault('field', {})`) stands for it
    alias = {a_.targets[0].id for a_ in all_nodes(f.node) if isinstance(a_, ast.Assign) and len(a_.targets) == 1 and isinstance(a_.targets[0], ast.Name)
             and _is_field_lookup(a_.value)}

    def is_map(v) -> bool:
        return _is_field_lookup(v) or isinstance(v, ast.Name) and v.id in alias
    for n in all_nodes(f.node):
        if isinstance(n, ast.Subscript) and is_map(n.value):
            derefs.append((n, 'TypeError', f"{src(n)[:50]}"))
        elif isinstance(n, ast.Attribute) and is_map(n.value):
            derefs.append((n, 'AttributeError', f"{src(n)[:50]}"))
    if not premise:
        ctx.ok('C08.R5', f, "no reader builds a transaction with 'field': None any more; the store cannot fail on the mapping", construct='premise')
        ctx.ok('C08.R5', f, f'{len(derefs)} dereferences, vacuous without the premise', construct='derefs')
        return
    if not derefs:
        raise AnalysisError(f, "C08.R5: no dereference of the transaction's 'field' mapping found in apply_transforms (extend the idiom table)")
    tests = [n for n in all_nodes(f.node) if isinstance(n, (ast.If, ast.IfExp, ast.While)) and any(
        is_map(m) for m in ast.walk(n.test))]
    for n, cls, text in derefs:
        loop = enclosing_loop(n, f.node)
        covered = None
        for t in enclosing_tries(n, f.node):
            if loop is not None and not any(a is loop for a in ancestors(t)):
                continue
            types = sorted({c for h in t.handlers if handler_tail_ok(h) for c in E.handler_classes(h)})
            if E.caught_by('AttributeError', types) and E.caught_by('TypeError', types):
                covered = types
                break
        label = f'store:{text}'
        if covered:
            ctx.ok('C08.R5', f, f"`{text}` (line {n.lineno}) may see None ({premise[0]}); {cls} covered by per-transform handler {covered}", n, label)
        elif tests:
            raise AnalysisError(f, f"C08.R5: `{text}` is not covered by a per-transform handler but the mapping is tested at line {tests[0].lineno}: "
                                   'guard idiom not in the table, cannot decide')
        else:
            ctx.fail('C08.R5', f, label,
                     f"`{text}` (line {n.lineno}) dereferences the transaction's 'field' entry, which is None for sources without custom captures ({premise[0]}); "
                     f'the {cls} is not covered by a handler inside the transform loop, so a `field.<name> = ...` transform on such a source leaves '
                     'apply_transforms, normalize_merchant and parse_generic_csv (row handler: ValueError/IndexError only) and the whole data source is lost', n)


ITER_CALLS = {'list', 'tuple', 'set', 'sorted', 'sum', 'any', 'all', 'min', 'max', 'next', 'len', 'join', 'extend', 'update', 'frozenset', 'enumerate', 'zip', 'map', 'filter'}
EVAL_CALL_ATOMS = {'call:evaluate_transaction', 'call:evaluate_transaction_ast', 'call:evaluate', 'call:evaluate_ast'}


def _produces_generators(proj) -> bool:
    """Can a public evaluation entry point hand a live generator to its caller?  (see C03.R9)"""
    te = proj.cls(f'{EP}.TransactionEvaluator')
    gen = False
    for m in te.methods.values():
        if m.name.startswith('_eval_'):
            for r in ast.walk(m.node):
                if isinstance(r, ast.Return) and isinstance(r.value, ast.Call) and isinstance(r.value.func, ast.Name):
                    sub = proj.funcs.get(f'{m.qualname}.{r.value.func.id}')
                    if sub is not None and any(isinstance(x, (ast.Yield, ast.YieldFrom)) for x in ast.walk(sub.node)):
                        gen = True
                if isinstance(r, ast.Return) and isinstance(r.value, ast.GeneratorExp):
                    gen = True
    if not gen:
        return False
    for en in ('evaluate_transaction',):
        fe = proj.func(f'{EP}.{en}')
        text = ' '.join(src(n) for n in ast.walk(fe.node) if isinstance(n, ast.Call))
        if 'GeneratorType' in text or 'isgenerator' in text:
            return False
        for n in ast.walk(fe.node):
            if isinstance(n, ast.Call) and isinstance(n.func, ast.Name) and n.func.id in fe.module.functions:
                h = fe.module.functions[n.func.id]
                if any('Generator' in src(x) for x in ast.walk(h.node) if isinstance(x, ast.Call) and call_name(x) in ('isinstance', 'isgenerator')):
                    return False
    return True


def r4_lazy(ctx: Ctx) -> None:
    proj = ctx.proj
    if not _produces_generators(proj):
        ctx.ok('C08.R4', f'{EP}.evaluate_transaction', 'evaluation entry points never return a live generator', construct='lazy:none')
        return
    n = 0
    for modname in SITE_MODULES:
        mi = proj.module(modname)
        for f in [x for x in proj.all_funcs() if x.module is mi]:
            fl = get_flow(proj, f)
            for node in all_nodes(f.node):
                it = None
                if isinstance(node, ast.For):
                    it = node.iter
                elif isinstance(node, ast.comprehension):
                    it = node.iter
                elif isinstance(node, ast.Call) and call_name(node) in ITER_CALLS and node.args and not (isinstance(node.func, ast.Attribute) and call_name(node) == 'join' and False):
                    it = node.args[0]
                if it is None or not isinstance(it, ast.Name):
                    continue
                anchor = node if not isinstance(node, ast.comprehension) else it
                if not fl.cfg.has(anchor):
                    continue
                at = fl.atoms(it, anchor)
                if not (at & EVAL_CALL_ATOMS):
                    continue
                n += 1
                st = fl.stmt_of(anchor)
                lits = fl.cfg.guard_literals(st)
                nm = it.id
                # accepted: the value is known to be a materialised container
                ok = any(tr and t.replace(' ', '') in (f'isinstance({nm},list)', f'isinstance({nm},(list,tuple))', f'isinstance({nm},(list,tuple,set))',
                                                        f'isinstance({nm},tuple)', f'isinstance({nm},(list,set))') for t, tr in lits)
                ctx.check(ok, 'C08.R4', f, f'lazy-iter:{nm}', f'{nm} is iterated only when it is a materialised list',
                          f'`{src(node)[:60]}` iterates the evaluation result {nm} under {sorted(t for t, tr in lits if nm in t)}: a generator-expression result is evaluated lazily here, '
                          f'outside the evaluator\'s guard — a TypeError/AttributeError in its element expression escapes `except ExpressionError` and aborts classification', node)
    if n == 0:
        ctx.ok('C08.R4', 'merchant_engine', 'no consumer iterates an evaluation result', construct='lazy:none')
