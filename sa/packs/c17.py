"""C17 — rule files are read by structure alone; malformed ones are rejected, not trimmed."""
from __future__ import annotations

import ast
from typing import Dict, List, Optional, Set

from ..callgraph import all_nodes, get_cg
from ..cfg import CFG, BREAK, CONT, ENTRY, EXIT, RAISE
from ..core import Ctx
from ..flow import call_name, get_flow
from ..project import AnalysisError, FuncInfo, ancestors, dotted, parent, src

LEVEL = 'other'
LOADER_CALLS = {'load_merchants_file', 'parse_merchants', 'load_sections', 'parse_sections', 'load_file'}


def check(ctx: Ctx) -> None:
    ctx.rule('C17.R1', 'consume or raise: every non-blank, non-comment line of a rules / views file is either stored or rejected; none is silently ignored', floor=2)
    ctx.rule('C17.R2', 'validate before accept: every expression the loader keeps (match, let, field, variables, transforms, {tag} expressions, filters) is parsed before the file is accepted', floor=6)
    ctx.rule('C17.R3', 'load errors are reported: a handler that catches the loaders\' exceptions prints, records a warning or re-raises', floor=4)
    ctx.rule('C17.R4', 'layout insensitivity: line classifiers look at the stripped line; keys are lower-cased; blank and comment lines are skipped first', floor=6)
    ctx.rule('C17.R5', 'required properties guard construction: missing match / category-or-tags / filter, unknown keys and malformed let / field / priority all raise', floor=8)
    proj = ctx.proj
    mp = proj.func('merchant_engine.MerchantEngine.parse')
    ps = proj.func('section_engine.parse_sections')
    r1(ctx, mp, 'stripped')
    r1(ctx, ps, 'line')
    r2(ctx, mp, ps)
    r3(ctx)
    r4(ctx, mp, ps)
    r5(ctx, mp, ps)


def _line_loop(ctx, f: FuncInfo):
    loops = [s for s in f.node.body if isinstance(s, ast.For) and 'enumerate(lines' in src(s.iter)]
    if len(loops) != 1:
        ctx.unknown('C17.R1', f, f'{len(loops)} line loops found')
    return loops[0]


def _root(e) -> Optional[str]:
    while isinstance(e, (ast.Attribute, ast.Subscript, ast.Call)):
        e = e.func if isinstance(e, ast.Call) else e.value
    return e.id if isinstance(e, ast.Name) else None


def _carried_names(f: FuncInfo, loop) -> Set[str]:
    """names that live across iterations of the line loop: bound before the loop in the function body (plus self)"""
    out = {'self'}
    for s in f.node.body:
        if s is loop:
            break
        for n in ast.walk(s):
            if isinstance(n, ast.Name) and isinstance(n.ctx, ast.Store):
                out.add(n.id)
    return out


def _is_effect(s, carried: Set[str]) -> bool:
    """does the statement record something that outlives the iteration (the line is *consumed*)?"""
    if isinstance(s, (ast.For, ast.While, ast.With, ast.Try)):
        return any(_is_effect(x, carried) for x in ast.walk(s) if isinstance(x, ast.stmt) and x is not s)
    if isinstance(s, (ast.Assign, ast.AugAssign, ast.AnnAssign)):
        tg = s.targets if isinstance(s, ast.Assign) else [s.target]
        for t in tg:
            for x in ([t] if not isinstance(t, (ast.Tuple, ast.List)) else t.elts):
                if _root(x) in carried:
                    return True
    if isinstance(s, ast.Expr) and isinstance(s.value, ast.Call) and isinstance(s.value.func, ast.Attribute) and _root(s.value.func.value) in carried:
        return True
    return False


def _skip_edge(s, lab) -> bool:
    """is (statement, branch label) the `this line is blank or a comment` outcome?"""
    if not isinstance(s, ast.If) or lab not in (True, False):
        return False
    t, truth = s.test, lab
    while isinstance(t, ast.UnaryOp) and isinstance(t.op, ast.Not):
        t, truth = t.operand, not truth
    text = src(t)
    return truth and ("startswith('#')" in text or 'COMMENT.match(' in text)


def _named_key_edge(body, p) -> bool:
    """the last branch taken on the path is `<name> == '<literal>'` / `<name> in (<literals>)`, taken true"""
    for a_, b_ in reversed(list(zip(p, p[1:]))):
        s = body.stmt.get(a_)
        if isinstance(s, ast.If):
            labs = body.g[a_][b_].get('labels', {None})
            t = s.test
            return True in labs and isinstance(t, ast.Compare) and len(t.ops) == 1 and isinstance(t.left, ast.Name) and (
                (isinstance(t.ops[0], ast.Eq) and isinstance(t.comparators[0], ast.Constant) and isinstance(t.comparators[0].value, str)) or
                (isinstance(t.ops[0], ast.In) and isinstance(t.comparators[0], (ast.Tuple, ast.List, ast.Set)) and all(isinstance(e, ast.Constant) for e in t.comparators[0].elts)))
    return False


def r1(ctx: Ctx, f: FuncInfo, linevar: str) -> None:
    loop = _line_loop(ctx, f)
    body = CFG(loop.body, loop_body=True, opaque_loops=True)
    paths = body.paths(ENTRY, (CONT, BREAK, EXIT, RAISE), skip_exc=False)
    ctx.count('paths', len(paths))
    if len(paths) >= 20000:
        ctx.unknown('C17.R1', f, 'too many paths through the line loop body')
    carried = _carried_names(f, loop)
    # a local bound only to storage reachable from a carried name (`target = sections[-1].variables`) is a view of that storage
    for _pass in range(3):
        binds: Dict[str, List[ast.AST]] = {}
        for n in ast.walk(loop):
            if isinstance(n, ast.Assign):
                for t in n.targets:
                    if isinstance(t, ast.Name):
                        binds.setdefault(t.id, []).append(n.value)
        for name, vals in binds.items():
            if name not in carried and all(isinstance(v, (ast.Name, ast.Attribute, ast.Subscript)) and _root(v) in carried for v in vals):
                carried = carried | {name}
    silent = []
    for p in paths:
        if p[-1] != CONT:
            continue
        # the iteration ends normally: the line must have been consumed (something that outlives the iteration was recorded) or be blank / a comment.
        # Whether the iteration ends by `continue` or by running off the end of the body makes no difference.
        consumed = any(_is_effect(body.stmt.get(n), carried) for n in p if body.stmt.get(n) is not None)
        skipped = any(_skip_edge(body.stmt.get(a_), lab) for a_, b_ in zip(p, p[1:]) for lab in body.g[a_][b_].get('labels', {None}))
        if consumed or skipped:
            continue
        # a property recognised by name and deliberately dropped (`elif key == 'note': continue`) is a decision about that key, not a silent ignore
        last = body.stmt.get(p[-2]) if len(p) >= 2 else None
        if isinstance(last, ast.Continue) and _named_key_edge(body, p):
            continue
        silent.append(p)
    if silent:
        # describe the fall-through: the branch outcomes taken
        p = silent[0]
        conds = []
        for a, b in zip(p, p[1:]):
            s = body.stmt.get(a)
            if isinstance(s, ast.If):
                labs = body.g[a][b].get('labels', {None})
                lab = next(iter(labs))
                conds.append(f'{src(s.test)[:48]} = {lab}')
        ctx.fail('C17.R1', f, 'fall-through',
                 f'{len(silent)} path(s) through the line loop end without storing the line and without raising: a line that is neither blank, comment, header, assignment nor property '
                 f'is silently ignored; e.g. [{"; ".join(conds[-4:])}] (junk or a `match:` line before the first [header])', loop)
    else:
        ctx.ok('C17.R1', f, f'all {len(paths)} paths through the line loop body end in an explicit continue (line consumed) or raise', loop, 'fall-through')
    # the last rule / view is saved after the loop
    after = f.node.body[f.node.body.index(loop) + 1:]
    saves = [s for s in after if isinstance(s, ast.If) and ('current_rule' in src(s.test) or 'current_section' in src(s.test))]
    ok = bool(saves) and any(isinstance(n, ast.Call) and call_name(n) in ('_add_rule', 'append') for n in ast.walk(saves[0]))
    ctx.check(ok, 'C17.R1', f, 'final-item', 'the last rule / view of the file is saved after the loop', 'the last rule / view of the file is dropped')


def _validated_exprs(f: FuncInfo, fl) -> Set[str]:
    """names whose value is passed to parse_expression / parse in f"""
    out = set()
    for c in fl.calls():
        if call_name(c) in ('parse_expression', 'parse') and (dotted(c.func) or '').startswith('expr_parser.') and c.args:
            out.add(src(c.args[0]))
    return out


def r2(ctx: Ctx, mp: FuncInfo, ps: FuncInfo) -> None:
    proj = ctx.proj
    add = proj.func('merchant_engine.MerchantEngine._add_rule')
    afl = get_flow(proj, add)
    v_add = _validated_exprs(add, afl)
    for what, text in (('match', "rule_data['match_expr']"), ('let', 'expr'), ('field', 'expr')):
        ctx.check(text in v_add, 'C17.R2', add, f'validated:{what}', f'{what} expressions are parsed in _add_rule', f'{what} expressions are not validated when the rule is added')
    # failure of validation raises the loader's error
    hs = [h for h in ast.walk(add.node) if isinstance(h, ast.ExceptHandler)]
    ok = bool(hs) and all(any(isinstance(n, ast.Raise) and 'MerchantParseError' in src(n) for n in ast.walk(h)) for h in hs)
    ctx.check(ok, 'C17.R2', add, 'validated:raises', 'an invalid expression is re-raised as MerchantParseError with the line', 'an invalid expression does not reject the file')
    # the rule is built only after all validations
    cfg = afl.cfg
    build = [c for c in afl.calls('MerchantRule')]
    vcalls = [c for c in afl.calls() if call_name(c) == 'parse_expression']
    ok = bool(build) and all(cfg.dominates(afl.stmt_of(v), afl.stmt_of(build[0])) or any(isinstance(a, ast.For) for a in ancestors(v)) for v in vcalls)
    ctx.check(ok, 'C17.R2', add, 'validated:before-build', 'validation precedes construction of the rule', 'the rule is constructed before its expressions are validated')
    # top-level variables and transforms (parse)
    pfl = get_flow(proj, mp)
    v_parse = _validated_exprs(mp, pfl)
    stores = {'variable': None, 'transform': None}
    for n in all_nodes(mp.node):
        if isinstance(n, ast.Assign) and isinstance(n.targets[0], ast.Subscript) and src(n.targets[0].value) == 'self.variables':
            stores['variable'] = n
        if isinstance(n, ast.Call) and isinstance(n.func, ast.Attribute) and src(n.func) == 'self.transforms.append':
            stores['transform'] = n
    for what, node in stores.items():
        if node is None:
            ctx.unknown('C17.R2', mp, f'{what} store not found in parse()')
        rhs = 'rhs'
        st = pfl.stmt_of(node)
        validated = any(call_name(c) in ('parse_expression', 'parse') and c.args and src(c.args[0]) == rhs and pfl.cfg.dominates(pfl.stmt_of(c), st)
                        for c in pfl.calls())
        if validated:
            ctx.ok('C17.R2', mp, f'top-level {what} expressions are parsed before being stored', node, f'validated:{what}')
        else:
            ctx.fail('C17.R2', mp, f'validated:{what}',
                     f'top-level {what} expressions are stored without being parsed: `is_large = amount >` (or `field.x = regex_replace(`) is accepted by the loader and only fails, '
                     f'silently, at every evaluation', node)
    # {expr} tags
    tag_valid = False
    for f in (mp, add):
        for c in get_flow(proj, f).calls():
            if call_name(c) in ('parse_expression', 'parse') and c.args and ('tag' in src(c.args[0]).lower()):
                tag_valid = True
    if tag_valid:
        ctx.ok('C17.R2', add, '{expression} tags are parsed at load time', construct='validated:tag-expr')
    else:
        ctx.fail('C17.R2', add, 'validated:tag-expr', 'dynamic tags `{expression}` are kept as text and never parsed at load time: `tags: {field.}` is accepted and the tag is silently dropped for every transaction', add.node)
    # views
    sfl = get_flow(proj, ps)
    v_ps = _validated_exprs(ps, sfl)
    for what, text in (('filter', 'filter_expr'), ('view variable', 'var_expr')):
        ctx.check(text in v_ps, 'C17.R2', ps, f'validated:{what}', f'{what} expressions are parsed when the views file is read', f'{what} expressions are not validated at load time')
    hs = [h for h in ast.walk(ps.node) if isinstance(h, ast.ExceptHandler)]
    ok = bool(hs) and all(any(isinstance(n, ast.Raise) and 'SectionParseError' in src(n) for n in ast.walk(h)) for h in hs)
    ctx.check(ok, 'C17.R2', ps, 'validated:views-raise', 'an invalid view expression raises SectionParseError with the line', 'an invalid view expression does not reject the file')


def r3(ctx: Ctx) -> None:
    proj = ctx.proj
    cg = get_cg(proj)
    n = 0
    for f in proj.all_funcs():
        if f.module.short in ('merchant_engine', 'section_engine'):
            continue
        for t in [x for x in all_nodes(f.node) if isinstance(x, ast.Try)]:
            calls = [c for s in t.body for c in ast.walk(s) if isinstance(c, ast.Call) and call_name(c) in LOADER_CALLS]
            if not calls:
                continue
            for h in t.handlers:
                types = src(h.type) if h.type is not None else 'BaseException'
                catches_loader = h.type is None or any(k in types for k in ('Exception', 'MerchantParseError', 'SectionParseError', 'ValueError'))
                if not catches_loader:
                    continue
                if 'FileNotFoundError' == types:
                    continue
                n += 1
                reports = False
                for x in ast.walk(ast.Module(body=h.body, type_ignores=[])):
                    if isinstance(x, ast.Raise):
                        reports = True
                    if isinstance(x, ast.Call) and (call_name(x) in ('print', 'warn', 'warning', 'error', 'exit') or
                                                    (isinstance(x.func, ast.Attribute) and x.func.attr == 'append' and 'warning' in src(x.func.value).lower())
                                                    or (isinstance(x.func, ast.Attribute) and x.func.attr == 'append' and 'error' in src(x.func.value).lower())):
                        reports = True
                    if isinstance(x, ast.Assign) and any('error' in src(tg).lower() for tg in x.targets):
                        reports = True
                label = f'handler:{call_name(calls[0])}:{types[:30]}'
                if reports:
                    ctx.ok('C17.R3', f, f'except {types}: reported', h, label)
                else:
                    body = '; '.join(src(s)[:30] for s in h.body)
                    ctx.fail('C17.R3', f, label,
                             f'`except {types}: {body}` around {call_name(calls[0])}(): a rules / views file that fails to load is swallowed without any message — the command goes on as if the file '
                             f'contained no rules ("Loaded 0 rules", everything Unknown)', h)
    ctx.need(n >= 4, f'C17.R3: only {n} handlers around loader calls found')
    # a configured rules file that is not there is a file that cannot be loaded: the loader is called for it all the same (and reports the failure), it is
    # not skipped behind an existence test
    gar = proj.func('merchant_utils.get_all_rules')
    gfl = get_flow(proj, gar)
    loads = gfl.calls('load_merchants_file')
    if not loads:
        ctx.unknown('C17.R3', gar, 'get_all_rules no longer calls load_merchants_file')
    for c in loads:
        g = gfl.cfg.guard_literals(gfl.stmt_of(c))
        behind = sorted(t for t, tr in g if tr and any(k in t for k in ('os.path.exists(', 'os.path.isfile(', '.exists()', '.is_file()')))
        ctx.check(not behind, 'C17.R3', gar, 'missing-file-reported', 'a configured rules file is loaded (and its failure reported) whether or not it exists',
                  f'the rules file is only loaded under {behind}: a configured file that is missing is silently treated as "no rules" instead of being reported', c)
    # load_config records view-load errors in the warnings list: what it stores in config['_warnings'] must be that very list
    # (or be stored after the last append), otherwise the recorded error never reaches _print_deprecation_warnings
    lc = proj.func('config_loader.load_config')
    fl = get_flow(proj, lc)
    stores = [s_ for s_ in fl.cfg.stmts() if isinstance(s_, ast.Assign) and src(s_.targets[0]) == "config['_warnings']"]
    appends = [c for c in fl.calls('append') if src(c.func) == 'warnings.append']
    if not stores:
        ctx.fail('C17.R3', lc, 'warnings-published', "load_config never publishes its warnings (config['_warnings'])", lc.node)
    for st in stores:
        alias = isinstance(st.value, ast.Name) and st.value.id == 'warnings'
        later = [c for c in appends if fl.cfg.reachable_without(fl.cfg.nid(st), fl.cfg.nid(fl.stmt_of(c)), set()) and fl.cfg.nid(fl.stmt_of(c)) != fl.cfg.nid(st)]
        ok = alias or not later
        ctx.check(ok, 'C17.R3', lc, 'warnings-published', "config['_warnings'] is the list the later errors are appended to",
                  f"config['_warnings'] = {src(st.value)[:50]} stores a copy, but {len(later)} warning(s) are appended to `warnings` afterwards (e.g. 'Error loading views', line "
                  f"{later[0].lineno if later else 0}): a views file that fails to load is then reported nowhere and the budget silently has no views", st)
    # and the CLI prints them
    pw = proj.func('cli._print_deprecation_warnings')
    ok = any(isinstance(n_, ast.Call) and call_name(n_) == 'print' for n_ in ast.walk(pw.node)) and "'_warnings'" in src(pw.node)
    ctx.check(ok, 'C17.R3', pw, 'warnings-printed', 'recorded warnings are printed', '_print_deprecation_warnings does not print the recorded warnings')


def _skip_first(ctx: Ctx, f: FuncInfo, loop, comment_atom, blank_atom) -> None:
    """Blank and comment lines are skipped before anything else: every statement of the line loop that records something or raises
    runs only when the line is known to be neither (decided on the branch edges that dominate it, so the spelling of the skip does not matter)."""
    fl = get_flow(ctx.proj, f)
    carried = _carried_names(f, loop)
    sites = [s for s in fl.cfg.stmts() if any(a is loop for a in ancestors(s)) and (isinstance(s, ast.Raise) or (not isinstance(s, (ast.For, ast.While, ast.With, ast.Try, ast.If)) and _is_effect(s, carried)))]
    if len(sites) < 4:
        ctx.unknown('C17.R4', f, f'only {len(sites)} storing / raising statements found in the line loop')
    bad = []
    for st in sites:
        g = fl.cfg.guard_literals_within(st, loop)
        has_c = any(comment_atom[0] in t and tr == comment_atom[1] for t, tr in g)
        has_b = any(t == blank_atom[0] and tr == blank_atom[1] for t, tr in g)
        if not (has_c and has_b):
            bad.append(st)
    ctx.check(not bad, 'C17.R4', f, 'skip-blank-comment', f'blank and comment lines are skipped before anything else ({len(sites)} storing / raising statements are all behind the skip)',
              f'{src(bad[0])[:50] if bad else ""!r} can run for a blank or comment line: such a line changes the result', bad[0] if bad else loop)


def line_as_written(ctx: Ctx, rule: str, mp: FuncInfo, loop) -> None:
    """What the loader classifies and stores is the line as written, with surrounding blanks removed and nothing else: every binding of the
    working copy of the line (`stripped`) is `line.strip()`.  Cutting the line (inline comments, truncation) changes rule names, match
    expressions and values that legitimately contain the cut marker."""
    defs = [s for s in ast.walk(loop) if isinstance(s, (ast.Assign, ast.AugAssign, ast.AnnAssign)) and
            any(isinstance(t, ast.Name) and t.id == 'stripped' for t in (s.targets if isinstance(s, ast.Assign) else [s.target]))]
    bad = [s for s in defs if not (isinstance(s, ast.Assign) and src(s.value) in ('line.strip()', 'line.strip(" \\t\\r\\n")'))]
    ctx.check(bool(defs) and not bad, rule, mp, 'line-as-written', 'the line that is classified and stored is line.strip(), nothing cut out of it',
              f'{src(bad[0])[:70] if bad else ""!r} rewrites the line before it is classified: text after a `#` (or whatever is cut) disappears from rule names, match expressions and values '
              f'(`[Parking Lot #B7]` becomes `[Parking Lot`, which the loader rejects)', bad[0] if bad else loop)


def r4(ctx: Ctx, mp: FuncInfo, ps: FuncInfo) -> None:
    loop = _line_loop(ctx, mp)
    first = loop.body[0]
    ok = isinstance(first, ast.Assign) and src(first) == 'stripped = line.strip()'
    ctx.check(ok, 'C17.R4', mp, 'strip-first', 'each line is stripped first', f'line loop starts with {src(first)[:40]!r}', first)
    line_as_written(ctx, 'C17.R4', mp, loop)
    _skip_first(ctx, mp, loop, ("startswith('#')", False), ('stripped', True))
    # every classifier test uses `stripped`
    tests = [s for s in loop.body if isinstance(s, ast.If)]
    bad = [t for t in tests if any(isinstance(n, ast.Name) and n.id == 'line' for n in ast.walk(t.test))]
    ctx.check(not bad, 'C17.R4', mp, 'classify-stripped', 'header / assignment / property tests look at the stripped line', f'{src(bad[0].test)[:50] if bad else ""!r} looks at the raw line (indentation / line endings change the result)')
    text = src(loop)
    fl_ = get_flow(ctx.proj, mp)
    keytests = [t_ for t_ in ast.walk(loop) if isinstance(t_, ast.Compare) and isinstance(t_.left, ast.Name) and len(t_.ops) == 1 and isinstance(t_.ops[0], ast.Eq)
                and isinstance(t_.comparators[0], ast.Constant) and t_.comparators[0].value in ('match', 'category', 'let', 'tags')]
    from ._tables import table_of

    def slot_of(t_):
        """'match_expr' / 'category' when the store goes to that slot of the rule record, directly or through a constant key -> slot table"""
        if isinstance(t_.slice, ast.Constant):
            return t_.slice.value if t_.slice.value in ('match_expr', 'category') else None
        tb = table_of(t_.slice, mp.module, mp.cls)
        if tb is not None and 'match_expr' in tb[0].values():
            return 'match_expr'
        return None
    vstores = [s_ for s_ in ast.walk(loop) if isinstance(s_, ast.Assign) and isinstance(s_.targets[0], ast.Subscript) and slot_of(s_.targets[0]) and isinstance(s_.value, ast.Name)]
    if not keytests or not vstores:
        ctx.unknown('C17.R4', mp, 'the property dispatch (key == \'match\' …) / the stores of the property values were not found')
    k_ok = all({'call:strip', 'call:lower'} <= fl_.atoms(t_.left, t_) for t_ in keytests)
    v_ok = all('call:strip' in fl_.atoms(s_.value, s_) for s_ in vstores)
    ctx.check(k_ok and v_ok, 'C17.R4', mp, 'key-normalised', 'property keys are stripped and lower-cased, values stripped',
              'property key / value are not normalised' + ('' if k_ok else ' (the key compared with the property names is not stripped and lower-cased)') + ('' if v_ok else ' (a stored value is not stripped)'))
    # … and nothing else happens to a value on its way into the rule: it is cut out of the line and stripped, by string methods only.  A helper of
    # the package in between (inline-comment removal, unquoting, …) rewrites values that legitimately contain what it looks for
    PLAIN = {'strip', 'lstrip', 'rstrip', 'split', 'rsplit', 'partition', 'rpartition', 'splitlines', 'enumerate', 'group', 'groups', 'match', 'read_text', 'read'}
    for s_ in vstores:
        odd = sorted(a_[5:] for a_ in fl_.atoms(s_.value, s_) if a_.startswith('call:') and a_[5:] not in PLAIN)
        ctx.check(not odd, 'C17.R4', mp, f'value-as-written:{slot_of(s_.targets[0])}', 'the property value is the text after the colon, stripped',
                  f'{src(s_)!r}: the value passes through {odd} before it is stored: a match expression / name that contains what that step removes or rewrites '
                  f'(a `#`, a quote) is stored damaged and the rule is rejected or matches something else', s_)
    ctx.check("rule_name = stripped[1:-1].strip()" in text, 'C17.R4', mp, 'name-stripped', 'rule names are stripped', 'rule names keep surrounding blanks')
    ctx.check("content.split('\\n')" in src(mp.node), 'C17.R4', mp, 'lines', 'file is split on newlines (a trailing \\r is removed by strip)', 'unexpected line splitting')
    # views
    loop = _line_loop(ctx, ps)
    _skip_first(ctx, ps, loop, ('COMMENT.match(line)', False), ('BLANK.match(line)', False))
    for rx in ('FILTER_DECL', 'DESCRIPTION_DECL', 'VARIABLE_DECL'):
        calls = [c for c in ast.walk(loop) if isinstance(c, ast.Call) and src(c.func) == f'{rx}.match']
        pfl = get_flow(ctx.proj, ps)

        def stripped_line(e, at) -> bool:
            # `line.strip()` itself or a local holding it
            return any(leaf in ('loopvar:line', 'param:text') and 'call:strip' in ops for leaf, ops in pfl.leaf_paths(e, at)) and \
                all('call:strip' in ops for leaf, ops in pfl.leaf_paths(e, at) if leaf == 'loopvar:line')
        ok = bool(calls) and all(c.args and stripped_line(c.args[0], c) for c in calls)
        ctx.check(ok, 'C17.R4', ps, f'classify-stripped:{rx}', f'{rx} is matched against the stripped line', f'{rx} is matched against {[src(c.args[0]) for c in calls]}')
    ctx.check("header_match.group(1).strip()" in src(loop), 'C17.R4', ps, 'name-stripped', 'view names are stripped', 'view names keep surrounding blanks')


_MUTATORS = ('append', 'add', 'update', 'extend', 'insert', 'setdefault', 'pop', 'remove', 'clear')


def _is_fresh_value(v) -> bool:
    return isinstance(v, (ast.Dict, ast.List, ast.Set, ast.ListComp, ast.DictComp, ast.SetComp)) or \
        (isinstance(v, ast.Call) and isinstance(v.func, ast.Name) and v.func.id in ('dict', 'list', 'set', 'defaultdict', 'OrderedDict') and not v.args) or \
        (isinstance(v, ast.Call) and call_name(v) == 'deepcopy')


def _fresh_containers(ctx: Ctx, mp: FuncInfo) -> None:
    fl = get_flow(ctx.proj, mp)
    cfg = fl.cfg
    loop = _line_loop(ctx, mp)
    sites = []          # (record name, key, node)
    for n in ast.walk(loop):
        recv = None
        if isinstance(n, ast.Call) and isinstance(n.func, ast.Attribute) and n.func.attr in _MUTATORS:
            recv = n.func.value
        elif isinstance(n, (ast.Assign, ast.AugAssign)):
            for t in (n.targets if isinstance(n, ast.Assign) else [n.target]):
                if isinstance(t, ast.Subscript) and isinstance(t.value, ast.Subscript):
                    recv = t.value
        if isinstance(recv, ast.Subscript) and isinstance(recv.value, ast.Name) and isinstance(recv.slice, ast.Constant) and isinstance(recv.slice.value, str):
            sites.append((recv.value.id, recv.slice.value, n))
    checked = 0
    for rec, key, node in sites:
        st = fl.stmt_of(node)
        # the entry was given a fresh value for this section (`if k not in r: r[k] = []`)
        own = [s_ for s_ in ast.walk(loop) if isinstance(s_, ast.Assign) and any(isinstance(t, ast.Subscript) and isinstance(t.value, ast.Name) and t.value.id == rec
                                                                                 and isinstance(t.slice, ast.Constant) and t.slice.value == key for t in s_.targets)]
        if own and all(_is_fresh_value(s_.value) for s_ in own):
            checked += 1
            ctx.ok('C17.R5', mp, f"{rec}[{key!r}] is created for the section that uses it", node, f'fresh-container:{key}')
            continue
        verdicts = []
        for d in cfg.defs_reaching(st, rec):
            v = getattr(cfg.stmt.get(d), 'value', None) if d != 'param' else None
            if v is None or (isinstance(v, ast.Constant) and v.value is None):
                continue
            tmpl = None
            if isinstance(v, ast.Dict):
                ent = [val for k_, val in zip(v.keys, v.values) if isinstance(k_, ast.Constant) and k_.value == key]
                spread = [val for k_, val in zip(v.keys, v.values) if k_ is None]
                if ent:
                    verdicts.append(_is_fresh_value(ent[-1]) or None)
                    continue
                tmpl = spread[0] if spread else None
            elif isinstance(v, ast.Call) and isinstance(v.func, ast.Name) and v.func.id == 'dict' and v.args:
                kw = [k_.value for k_ in v.keywords if k_.arg == key]
                if kw:
                    verdicts.append(_is_fresh_value(kw[0]) or None)
                    continue
                tmpl = v.args[0]
            elif isinstance(v, ast.Call) and isinstance(v.func, ast.Attribute) and v.func.attr == 'copy' and not v.args:
                tmpl = v.func.value
            if isinstance(tmpl, ast.Name):
                # the template: where is it made, and does it hold a container under this key?
                tdefs = [s_ for s_ in ast.walk(mp.node) if isinstance(s_, (ast.Assign, ast.AnnAssign)) and any(isinstance(t, ast.Name) and t.id == tmpl.id
                         for t in (s_.targets if isinstance(s_, ast.Assign) else [s_.target]))]
                shared = False
                for td in tdefs:
                    tv = td.value
                    if isinstance(tv, ast.Dict):
                        ent = [val for k_, val in zip(tv.keys, tv.values) if isinstance(k_, ast.Constant) and k_.value == key]
                        if ent and _is_fresh_value(ent[-1]) and not any(a is loop for a in ancestors(td)):
                            shared = True
                verdicts.append(False if shared else None)
            else:
                verdicts.append(None)
        if any(v is False for v in verdicts):
            checked += 1
            ctx.fail('C17.R5', mp, f'fresh-container:{key}',
                     f"{src(node)[:60]!r} writes into {rec}[{key!r}], which every section's record shares with the template it was copied from (a one-level copy): "
                     f'a `{key}` line of one section ends up in the rules of all the others, so a section no longer yields exactly its stated properties', node)
        elif verdicts and all(v is True for v in verdicts):
            checked += 1
            ctx.ok('C17.R5', mp, f"{rec}[{key!r}] is created with the section's record", node, f'fresh-container:{key}')
    if not checked and sites:
        ctx.unknown('C17.R5', mp, 'cannot tell where the per-section containers (let_bindings / fields) are created')


def r5(ctx: Ctx, mp: FuncInfo, ps: FuncInfo) -> None:
    proj = ctx.proj
    add = proj.func('merchant_engine.MerchantEngine._add_rule')
    afl = get_flow(proj, add)
    cfg = afl.cfg
    build = afl.calls('MerchantRule')
    app = [c for c in afl.calls('append') if src(c.func) == 'self.rules.append']
    if not build or not app:
        ctx.unknown('C17.R5', add, 'rule construction / append not found')
    bst = afl.stmt_of(build[0])
    blits = cfg.guard_literals(bst)
    # (a) a rule without match: never reaches the construction
    ok = ("'match_expr' in rule_data", True) in blits or any(tr and t.replace(' ', '') in ("rule_data.get('match_expr')",) for t, tr in blits)
    ctx.check(ok, 'C17.R5', add, 'required:match', 'a rule without match raises before the rule is built', 'a rule without match is accepted', bst)
    # (b) … nor one with neither a category nor tags.  Decided by truth table over C = "category present and non-empty", T = "tags present and non-empty":
    # the conjunction of the guards that mention them must be equivalent to C or T, whichever way it is spelled (flags, De Morgan, .get()).
    def resolve(e):
        if isinstance(e, ast.Name):
            ds = [d for d in cfg.defs_reaching(bst, e.id) if d != 'param']
            if len(ds) == 1 and getattr(cfg.stmt[ds[0]], 'value', None) is not None:
                return cfg.stmt[ds[0]].value
        return e

    def fn(e):
        """boolean function of (C, T) denoted by e, or None"""
        e = resolve(e)
        t = src(e).replace(' ', '')
        for sym, key in (('C', 'category'), ('T', 'tags')):
            if t in (f"'{key}'inrule_dataandrule_data['{key}']", f"rule_data.get('{key}')", f"bool(rule_data.get('{key}'))", f"'{key}'inrule_dataandbool(rule_data['{key}'])",
                     f"rule_data['{key}']", f"bool(rule_data['{key}'])"):
                return lambda env, s_=sym: env[s_]
        if isinstance(e, ast.UnaryOp) and isinstance(e.op, ast.Not):
            f1 = fn(e.operand)
            return None if f1 is None else (lambda env: not f1(env))
        if isinstance(e, ast.BoolOp):
            fs = [fn(v) for v in e.values]
            if any(f_ is None for f_ in fs):
                return None
            return (lambda env: all(f_(env) for f_ in fs)) if isinstance(e.op, ast.And) else (lambda env: any(f_(env) for f_ in fs))
        return None
    rel = []
    for atom, truth in cfg.guard_atoms(bst):
        if any(isinstance(n, ast.Constant) and n.value in ('category', 'tags') for n in ast.walk(resolve(atom))) or \
                any(isinstance(n, ast.Name) and ('category' in n.id or 'tags' in n.id) for n in ast.walk(atom)):
            f_ = fn(atom)
            if f_ is None:
                ctx.unknown('C17.R5', add, f'guard {src(atom)[:50]!r} on category / tags is not a boolean combination of presence tests')
            rel.append((f_, truth))
    envs = [{'C': c, 'T': t} for c in (False, True) for t in (False, True)]
    table = [all(f_(env) == truth for f_, truth in rel) for env in envs] if rel else [True] * 4
    want = [env['C'] or env['T'] for env in envs]
    ctx.check(table == want, 'C17.R5', add, 'required:category-or-tags', 'a rule with neither a non-empty category nor non-empty tags raises before the rule is built',
              'a rule without category-or-tags is accepted' if any(t_ and not w for t_, w in zip(table, want)) else 'a rule that has a category or tags is rejected', bst)
    # one rule per section: _add_rule called at each header and after the loop, append exactly once
    in_loop = any(isinstance(a, (ast.For, ast.While)) for a in ancestors(app[0]))
    ctx.check(len(app) == 1 and not in_loop and cfg.dominates(bst, afl.stmt_of(app[0])), 'C17.R5', add, 'one-rule',
              'each section yields exactly one rule', 'the rule append is conditional or repeated')
    # every section yields a rule with exactly *its* properties: the containers a section's let: / field: / tags: lines are collected in belong to that
    # section alone.  A per-section record made as a one-level copy of a shared template (`dict(defaults, name=…)`, `defaults.copy()`, `{**defaults}`)
    # still holds the template's lists and dicts: what one section appends shows up in every other rule.
    _fresh_containers(ctx, mp)
    # an error in a section is reported at that section: the line handed to _add_rule is the remembered header line of the section being closed, never
    # the line the parser happens to be on (which is the *next* section's header)
    loop_ = _line_loop(ctx, mp)
    counter = loop_.target.elts[0].id if isinstance(loop_.target, ast.Tuple) and isinstance(loop_.target.elts[0], ast.Name) else None
    pfl_ = get_flow(proj, mp)
    closes = [c for c in pfl_.calls('_add_rule') if len(c.args) >= 2]
    if counter and closes:
        for k_, c in enumerate(closes):
            a = c.args[1]
            direct = any(isinstance(n, ast.Name) and n.id == counter for n in ast.walk(a))
            remembered = False
            if isinstance(a, ast.Name) and not direct:
                defs_ = [pfl_.cfg.stmt.get(d_) for d_ in pfl_.cfg.defs_reaching(pfl_.stmt_of(c), a.id) if d_ != 'param']
                remembered = bool(defs_) and all(isinstance(s_, ast.Assign) and (isinstance(s_.value, ast.Constant) or (isinstance(s_.value, ast.Name) and s_.value.id == counter))
                                                 for s_ in defs_)
            ctx.check(remembered and not direct, 'C17.R5', mp, f'error-line:close#{k_ + 1}', 'a section is closed with the line of its own header',
                      f'{src(c)[:60]!r}: the line number given for the section being closed is {"the current line (the following header)" if direct else "not the remembered header line"}: '
                      f'an error in a section is reported at the wrong line', c)
    # parse(): malformed arms raise.  Arms are recognised by the branch outcomes that lead to the raise, not by the message text.
    loop = _line_loop(ctx, mp)
    pfl = get_flow(proj, mp)
    raises = [(r, dict(pfl.cfg.guard_literals_within(r, loop))) for r in pfl.cfg.stmts() if isinstance(r, ast.Raise) and any(a is loop for a in ancestors(r))]

    def has_raise(pred):
        return any(pred(g) for _r, g in raises)
    def key_true(g, k):
        if g.get(f"key == '{k}'") is True:
            return True
        # arms merged under `key in ('let', 'field')`
        for t, tr in g.items():
            if tr is True and t.startswith('key in ') and f"'{k}'" in t:
                return True
        return False
    arms = {
        'bad-let': lambda g: key_true(g, 'let'),
        'bad-field': lambda g: key_true(g, 'field'),
        'bad-priority': lambda g: key_true(g, 'priority'),
        'unknown-key': lambda g: sum(1 for t, tr in g.items() if t.startswith('key ') and tr is False) >= 2 and not any(t.startswith('key ') and tr is True for t, tr in g.items()),
        'empty-name': lambda g: any(tr is False and t in ('rule_name',) for t, tr in g.items()) or any(tr is True and t.replace(' ', '') in ('notrule_name', "rule_name==''") for t, tr in g.items()),
        'junk-in-rule': lambda g: not any(t.startswith('key ') for t in g) and any("':' in stripped" in t and tr is False for t, tr in g.items()),
    }
    for what, pred in arms.items():
        ctx.check(has_raise(pred), 'C17.R5', mp, f'rejects:{what}', f'{what}: raises', f'{what} is no longer rejected', loop)
    # the order of a section's properties carries no meaning: whether a `key: value` line is accepted never depends on which other properties
    # of the section have been read so far
    for r_, g_ in raises:
        ks = [t[8:-1] for t, tr in g_.items() if tr is True and t.startswith("key == '")]
        if not ks:
            continue
        others = []
        for atom, _truth in pfl.cfg.guard_atoms(r_):
            if any(isinstance(n_, ast.Name) and n_.id == 'current_rule' for n_ in ast.walk(atom)):
                cs = [n_.value for n_ in ast.walk(atom) if isinstance(n_, ast.Constant) and isinstance(n_.value, str)]
                others += [c_ for c_ in cs if c_ not in (ks[0], 'let_bindings', 'fields', 'match_expr' if ks[0] == 'match' else ks[0])]
        ctx.check(not others, 'C17.R5', mp, f'order-free:{ks[0]}', f'`{ks[0]}:` is accepted or rejected on its own',
                  f'a `{ks[0]}:` line is rejected depending on whether {sorted(set(others))} has been read already: the same section loads with its properties in one order and is '
                  f'rejected in another', r_)
    # … and a section is never rejected because of *other* sections (a name already used, a limit on their number)
    araises = [r_ for r_ in afl.cfg.stmts() if isinstance(r_, ast.Raise)]
    for k_, r_ in enumerate(araises):
        dep = any(isinstance(n_, ast.Attribute) and src(n_) == 'self.rules' for atom, _t in afl.cfg.guard_atoms(r_) for n_ in ast.walk(atom)) or \
            any(isinstance(a_, (ast.For, ast.While)) and 'self.rules' in src(a_.iter if isinstance(a_, ast.For) else a_.test) for a_ in ancestors(r_))
        ctx.check(not dep, 'C17.R5', add, f'own-section-only:raise#{k_ + 1}', 'a section is judged by its own properties',
                  f'{src(r_)[:60]!r} rejects a section because of the sections read before it (e.g. a name used twice): every section must yield its rule, '
                  f'and two suggestions of `tally discover` that share a merchant name make the whole file unloadable', r_)
    # each known key stores into the like-named slot (directly, or through a constant key -> slot table)
    from ._tables import table_of
    mapping = {}
    for n in ast.walk(loop):
        if isinstance(n, ast.Assign) and len(n.targets) == 1 and isinstance(n.targets[0], ast.Subscript) and src(n.targets[0].value) == 'current_rule':
            g = dict(pfl.cfg.guard_literals_within(n, loop))
            sl = n.targets[0].slice
            if isinstance(sl, ast.Constant):
                for t, tr in g.items():
                    if tr is True and t.startswith("key == '"):
                        mapping.setdefault(t[8:-1], set()).add(sl.value)
            else:
                tb = table_of(sl, mp.module)
                if tb is not None and src(tb[1]) == 'key' and src(n.value) == 'value':
                    for k_, v_ in tb[0].items():
                        mapping.setdefault(k_, set()).add(v_)
    for key, slot in (('match', 'match_expr'), ('category', 'category'), ('subcategory', 'subcategory'), ('merchant', 'merchant'), ('tags', 'tags'), ('priority', 'priority')):
        ctx.check(mapping.get(key) == {slot}, 'C17.R5', mp, f'stores:{key}', f'{key}: stored as {slot}', f'property {key!r} is stored into {sorted(mapping.get(key, []))} (expected {slot!r})')
    build_kw = {k.arg: src(k.value) for k in build[0].keywords}
    want = {'name': "rule_data['name']", 'match_expr': "rule_data['match_expr']", 'category': "rule_data.get('category', '')", 'subcategory': "rule_data.get('subcategory', '')",
            'merchant': "rule_data.get('merchant', '')", 'tags': "rule_data.get('tags', set())", 'priority': "rule_data.get('priority', 50)"}
    bad = {k: build_kw.get(k) for k, v in want.items() if build_kw.get(k) != v}
    ctx.check(not bad, 'C17.R5', add, 'exact-properties', 'the rule carries exactly the stated properties', f'rule built with {bad}')
    # views
    sfl = get_flow(proj, ps)
    apps = [c for c in sfl.calls('append') if src(c.func) == 'sections.append']
    ok = len(apps) == 2
    for c in apps:
        # the append is reached only when the view's filter is non-empty: `if not view.filter_expr: raise` dominates it, whatever the block structure
        lits = sfl.cfg.guard_literals(sfl.stmt_of(c))
        arg = src(c.args[0]) if c.args else '?'
        has = (f'{arg}.filter_expr', True) in lits
        raises = [r for r in sfl.cfg.stmts() if isinstance(r, ast.Raise) and (f'{arg}.filter_expr', False) in sfl.cfg.guard_literals(r)]
        ok = ok and has and bool(raises)
    ctx.check(ok, 'C17.R5', ps, 'required:filter', 'a view without filter raises before it is added (both at the next header and at end of file)', 'a view without filter can be added')
    for what, msg in (('filter-outside', 'filter: found outside of a section'), ('description-outside', 'description: found outside of a section'), ('unknown-line', 'Unexpected content')):
        raises = [r for r in ast.walk(ps.node) if isinstance(r, ast.Raise) and msg in src(r)]
        ctx.check(bool(raises), 'C17.R5', ps, f'rejects:{what}', f'{what}: raises SectionParseError', f'{what} is no longer rejected')
