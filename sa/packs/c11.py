"""C11 — `tally up` honours every setting: wiring of settings into parsers, classifier and outputs."""
from __future__ import annotations

import ast
import re
from typing import Dict, List, Optional, Set

from ..callgraph import all_nodes, get_cg
from ..cfg import CFG, EXIT, RAISE
from ..core import Ctx
from ..flow import arg_of, bound_args, call_name, get_flow
from ..project import AnalysisError, FuncInfo, ancestors, dotted, parent, root_name, src

LEVEL = 'other'
EXAMPLE = 'config/settings.yaml.example'
# keys that are documentation of removed features or purely cosmetic
NOT_SETTINGS = {'title', 'home_locations', 'travel_labels', 'WA', 'OR', 'HI', 'GB'}


def check(ctx: Ctx) -> None:
    ctx.rule('C11.R1', 'setting table: every documented setting has a def-use chain from where it is read to the parameter that consumes it', floor=18)
    ctx.rule('C11.R2', 'per-source isolation: every per-source argument of the parse call derives from the current iteration\'s source', floor=5)
    ctx.rule('C11.R3', 'error paths keep going: inside the source loop nothing exits the command; missing file, unknown type and parse errors continue (and are reported unless --quiet)', floor=5)
    ctx.rule('C11.R4', 'parser siblings agree: every parser hands the same classification inputs to normalize_merchant', floor=2)
    ctx.rule('C11.R5', 'documented subset of consumed: every key shown in the shipped example settings is read somewhere', floor=8)
    run = ctx.proj.func('commands.run.cmd_run')
    fl = get_flow(ctx.proj, run)
    loop = _source_loop(ctx, run, fl)
    r1(ctx, run, fl, loop)
    r2(ctx, run, fl, loop)
    r3(ctx, run, fl, loop)
    r4(ctx)
    r5(ctx)


def _source_loop(ctx, run, fl):
    loops = [s for s in fl.cfg.stmts() if isinstance(s, ast.For) and any(isinstance(n, ast.Call) and call_name(n) == 'parse_generic_csv' for n in ast.walk(s))]
    if len(loops) != 1:
        ctx.unknown('C11.R2', run, f'{len(loops)} loops that call parse_generic_csv in cmd_run')
    return loops[0]


def _call(fl, name, within=None):
    cs = [c for c in fl.calls(name) if within is None or any(a is within for a in ancestors(c))]
    return cs


def r1(ctx: Ctx, run: FuncInfo, fl, loop) -> None:
    proj = ctx.proj
    svar = loop.target.id
    # ---- resolve_source_format: source settings -> FormatSpec
    rs = proj.func('config_loader.resolve_source_format')
    rfl = get_flow(proj, rs)
    pf = rfl.calls('parse_format_string')
    ok = len(pf) == 1 and 'key:source:format' in rfl.atoms(pf[0].args[0], pf[0]) and len(pf[0].args) > 1 and 'key:columns:description' in rfl.atoms(pf[0].args[1], pf[0]) \
        and 'key:source:columns' in rfl.atoms(pf[0].args[1], pf[0])
    ctx.check(ok, 'C11.R1', rs, 'format', "format -> parse_format_string(source['format'], columns.description)",
              'the format string / description template of the source do not reach parse_format_string', pf[0] if pf else None)
    # each source gets a FormatSpec of its own: the object whose attributes the per-source settings overwrite is the fresh result of
    # parse_format_string, never one that is also reachable from a table outliving the call (a cache would share one object between sources)
    ostores = [s for s in rfl.cfg.stmts() if isinstance(s, ast.Assign) and isinstance(s.targets[0], ast.Attribute) and src(s.targets[0].value) == 'format_spec']
    if ostores:
        leaves = rfl.leaf_paths(ostores[0].targets[0].value, ostores[0])
        shared = sorted({l for l, _ops in leaves if l.startswith('global:') and l[7:] in rs.module.globals_assigned})
        stored = [s for s in rfl.cfg.stmts() if isinstance(s, ast.Assign) and any(isinstance(t, ast.Subscript) and isinstance(t.value, ast.Name) and t.value.id in rs.module.globals_assigned
                                                                                   for t in s.targets)]
        # … nor in a table handed in by the caller (a per-run cache keyed by the format string shares the object just the same)
        for s_ in rfl.cfg.stmts():
            if isinstance(s_, ast.Assign):
                for t in s_.targets:
                    if isinstance(t, ast.Subscript) and isinstance(s_.value, ast.Name) and s_.value.id == 'format_spec' and root_name(t) in rs.params and root_name(t) != 'source':
                        stored.append(s_)
                if any(isinstance(t, ast.Name) and t.id == 'format_spec' for t in s_.targets) and isinstance(s_.value, ast.Subscript) and root_name(s_.value) in rs.params \
                        and root_name(s_.value) != 'source':
                    stored.append(s_)
        ctx.check(not shared and not stored, 'C11.R1', rs, 'spec-fresh', 'each source gets its own FormatSpec object',
                  f'the FormatSpec that the source\'s own settings are written into is kept in / read from the shared table {shared or [src(x.targets[0])[:40] for x in stored[:1]]}: '
                  f'sources with the same format string share one object, so one source\'s delimiter / has_header / negate_amount leaks onto the others', ostores[0])
    # a setting governs only what it names: resolving a source adds the private _… results to (the copy of) the source, it never fills in or changes a
    # user-facing setting from another one (`delimiter: ";"` implying a decimal comma, say)
    pub = []
    for n_ in ast.walk(rs.node):
        if isinstance(n_, ast.Assign):
            for t in n_.targets:
                if isinstance(t, ast.Subscript) and src(t.value) == 'source' and isinstance(t.slice, ast.Constant) and isinstance(t.slice.value, str) and not t.slice.value.startswith('_'):
                    pub.append((n_, t.slice.value))
        if isinstance(n_, ast.Call) and isinstance(n_.func, ast.Attribute) and src(n_.func.value) == 'source' and n_.func.attr in ('setdefault', 'update', 'pop') and n_.args:
            k_ = n_.args[0].value if isinstance(n_.args[0], ast.Constant) else '?'
            if not (isinstance(k_, str) and k_.startswith('_')):
                pub.append((n_, k_))
    ctx.check(not pub, 'C11.R1', rs, 'settings-not-derived', 'resolving a source only adds private _… keys; no setting is filled in from another one',
              f'{src(pub[0][0])[:60] if pub else ""!r} sets the user-facing setting {pub[0][1] if pub else ""!r} while resolving the source: one setting now changes what another one governs '
              f'(amounts of a `;`-delimited file with decimal points are read 100 times too large)', pub[0][0] if pub else None)
    for key in ('delimiter', 'has_header', 'negate_amount'):
        stores = [s for s in rfl.cfg.stmts() if isinstance(s, ast.Assign) and src(s.targets[0]) == f'format_spec.{key}']
        ok = len(stores) == 1 and src(stores[0].value) == f"source['{key}']" and (f"'{key}' in source", True) in rfl.cfg.guard_literals(stores[0])
        ctx.check(ok, 'C11.R1', rs, f'override:{key}', f"{key} -> format_spec.{key} when present", f'setting {key!r} does not override format_spec.{key}',
                  stores[0] if stores else None)
        # the parsed spec (with overrides) is what is stored
    st = [s for s in rfl.cfg.stmts() if isinstance(s, ast.Assign) and src(s.targets[0]) == "source['_format_spec']" and src(s.value) == 'format_spec']
    ctx.check(bool(st), 'C11.R1', rs, 'spec-stored', "source['_format_spec'] = the parsed spec", 'the parsed FormatSpec is not stored on the source')
    st = [s for s in rfl.cfg.stmts() if isinstance(s, ast.Assign) and src(s.targets[0]) == "source['_supplemental']"]
    ok = bool(st) and 'key:source:supplemental' in rfl.atoms(st[0].value, st[0])
    ctx.check(ok, 'C11.R1', rs, 'supplemental', "supplemental -> source['_supplemental']", 'the supplemental flag is not derived from the setting')
    ok = any(isinstance(s, ast.Assign) and src(s.targets[0]) == 'source' and src(s.value) == 'source.copy()' for s in rfl.cfg.stmts())
    ctx.check(ok, 'C11.R1', rs, 'source-copy', 'each source is resolved on its own copy', 'resolve_source_format mutates the shared source dict')
    # FormatSpec attributes are read by the parser
    pg = proj.func('parsers.parse_generic_csv')
    text = src(pg.node)
    for attr in ('has_header', 'negate_amount', 'abs_amount', 'date_format', 'date_column', 'amount_column', 'description_column', 'location_column', 'source_name'):
        ctx.check(f'format_spec.{attr}' in text, 'C11.R1', pg, f'spec-read:{attr}', f'parser reads format_spec.{attr}', f'parse_generic_csv never reads format_spec.{attr}')
    ctx.check("getattr(format_spec, 'delimiter', None)" in text or 'format_spec.delimiter' in text, 'C11.R1', pg, 'spec-read:delimiter', 'parser reads the delimiter',
              'parse_generic_csv never reads the delimiter')
    # ---- load_config: every source goes through resolve_source_format; rule_mode, merchants_file, views_file
    lc = proj.func('config_loader.load_config')
    lfl = get_flow(proj, lc)
    st = [s for s in lfl.cfg.stmts() if isinstance(s, ast.Assign) and src(s.targets[0]) == "config['data_sources']" and isinstance(s.value, ast.ListComp)]
    if not st:
        ctx.unknown('C11.R1', lc, "config['data_sources'] is not rebuilt by a list comprehension")
    it = st[0].value.generators[0].iter
    it_ok = src(it) == "config['data_sources']" or 'key:config:data_sources' in lfl.atoms(it, st[0])
    ok = call_name(st[0].value.elt) == 'resolve_source_format' and it_ok and not st[0].value.generators[0].ifs
    ctx.check(ok, 'C11.R1', lc, 'all-sources-resolved', 'every configured source is resolved, in order', 'not every data source passes resolve_source_format')

    from ._config import config_stores

    def stores_to(dst):
        return config_stores(lfl, dst)
    for key, dst in (('merchants_file', '_merchants_file'), ('views_file', 'sections')):
        stores = [(s_, v) for s_, v in stores_to(dst) if not (isinstance(v, ast.Constant) and v.value is None)]
        if not stores:
            ctx.unknown('C11.R1', lc, f"no store to config[{dst!r}] found in load_config")
        ok = any(f'key:config:{key}' in lfl.atoms(v, s_) for s_, v in stores)
        ctx.check(ok, 'C11.R1', lc, f'config:{key}', f"{key} -> config['{dst}']", f'{key} does not determine config[{dst!r}]')
    # legacy CSV discovered when merchants_file absent
    ok = any("const:'merchant_categories.csv'" in lfl.atoms(v, s_) for s_, v in stores_to('_merchants_file'))
    ctx.check(ok, 'C11.R1', lc, 'config:legacy-csv', 'config/merchant_categories.csv discovered when merchants_file is not set', 'legacy CSV rules are not discovered')

    # ---- cmd_run
    def arg_atoms(call, callee_qn, pname):
        callee = proj.func(callee_qn)
        a = arg_of(call, callee, pname)
        return (fl.atoms(a, call) if a is not None else None), a

    pc = _call(fl, 'parse_generic_csv', loop)
    if len(pc) != 1:
        ctx.unknown('C11.R1', run, f'{len(pc)} parse_generic_csv calls in the source loop')
    pc = pc[0]
    rows = [
        ('decimal_separator', f'key:{svar}:decimal_separator', 'decimal_separator -> parse_generic_csv(decimal_separator=)'),
        ('source_name', f'key:{svar}:name', 'name -> source_name='),
        ('format_spec', f'key:{svar}:_format_spec', '_format_spec -> format_spec'),
        ('transforms', 'call:get_transforms', 'merchants_file transforms -> transforms='),
        ('data_sources', 'call:load_supplemental_sources', 'supplemental rows -> data_sources='),
        ('rules', 'call:_check_merchant_migration', 'rules of the configured merchants file -> rules'),
        ('filepath', f'key:{svar}:file', 'file -> filepath'),
    ]
    for pname, want, text_ in rows:
        at, a = arg_atoms(pc, 'parsers.parse_generic_csv', pname)
        ctx.check(at is not None and want in at, 'C11.R1', run, f'wire:{pname}', text_,
                  f'parse_generic_csv({pname}=…) is {src(a) if a is not None else "omitted"!r}: the setting does not reach the parser', pc)
    # every candidate location of the source file lies under the budget: each definition of the path that can reach the parser is built from config_dir
    _at, a_fp = arg_atoms(pc, 'parsers.parse_generic_csv', 'filepath')
    if isinstance(a_fp, ast.Name):
        todo, seen_defs, outside = [(a_fp.id, fl.stmt_of(pc))], set(), []
        while todo:
            nm, at_stmt = todo.pop()
            for dn in fl.cfg.defs_reaching(at_stmt, nm):
                if dn == 'param' or dn in seen_defs:
                    continue
                seen_defs.add(dn)
                ds = fl.cfg.stmt[dn]
                v = getattr(ds, 'value', None)
                if v is None:
                    continue
                if any(isinstance(x, ast.Name) and x.id == nm for x in ast.walk(v)):
                    todo.append((nm, ds))           # filepath = normpath(filepath): follow the previous definition
                    continue
                # syntactic on purpose: `source` itself derives from load_config(config_dir), so full provenance would always mention config_dir
                names = {x.id for x in ast.walk(v) if isinstance(x, ast.Name)}
                via = set()
                for nm2 in names - {svar}:
                    for d2 in fl.cfg.defs_reaching(ds, nm2):
                        if d2 != 'param' and getattr(fl.cfg.stmt[d2], 'value', None) is not None:
                            via |= {x.id for x in ast.walk(fl.cfg.stmt[d2].value) if isinstance(x, ast.Name)}
                if 'config_dir' not in names and 'config_dir' not in via:
                    outside.append(ds)
        ctx.check(not outside, 'C11.R1', run, 'wire:filepath-under-budget', 'the source file is looked up relative to the budget directory only',
                  f'{src(outside[0])[:70] if outside else ""!r} looks the file up without config_dir (relative to the working directory): a missing source silently reads an unrelated file '
                  f'of the same name from wherever tally was started, and is no longer reported as missing', outside[0] if outside else None)
    from ._rows import crossed_arguments
    crossed = list(crossed_arguments(proj, ('commands.run', 'commands.explain', 'commands.discover', 'config_loader', 'parsers', 'cli')))
    for cf, cc, var, par in crossed:
        ctx.fail('C11.R1', cf, f'crossed-argument:{var}', f'{src(cc)[:70]!r} passes `{var}` by position into the parameter `{par}` although the callee has a parameter `{var}`: '
                 f'the setting reaches the wrong input', cc)
    if not crossed:
        ctx.ok('C11.R1', run, 'every positional argument of the loaders / parsers lands in the parameter of its own name', construct='crossed-argument:none')
    gt = fl.calls('get_transforms')
    ok = len(gt) == 1 and 'key:config:_merchants_file' in fl.atoms(gt[0].args[0], gt[0])
    ctx.check(ok, 'C11.R1', run, 'wire:transforms-file', 'transforms come from the configured merchants file', 'get_transforms is not given config[_merchants_file]', gt[0] if gt else None)
    mm = fl.calls('_check_merchant_migration')
    ok = len(mm) == 1 and src(mm[0].args[0]) == 'config' and src(mm[0].args[1]) == 'config_dir'
    ctx.check(ok, 'C11.R1', run, 'wire:rules', 'rules loaded through _check_merchant_migration(config, config_dir, …)', 'rules are not loaded from the configured file', mm[0] if mm else None)
    ls = fl.calls('load_supplemental_sources')
    ok = len(ls) == 1 and src(ls[0].args[0]) == 'config'
    ctx.check(ok, 'C11.R1', run, 'wire:supplemental', 'supplemental sources loaded from the configuration', 'supplemental sources are not loaded', ls[0] if ls else None)
    cm = proj.func('cli._check_merchant_migration')
    cfl = get_flow(proj, cm)
    for c in cfl.calls('get_all_rules'):
        if c.args:
            a = cfl.atoms(c.args[0], c)
            # the configured file, or the file the migration has just written into this budget's config directory
            ok = 'key:config:_merchants_file' in a or 'name:new_file' in a or ("const:'merchants.rules'" in a and 'param:config_dir' in a)
            ctx.check(ok, 'C11.R1', cm, f'wire:rules-path:{src(c.args[0])}', 'get_all_rules reads the configured merchants file', f'get_all_rules({src(c.args[0])}) does not read the configured file', c)
    # supplemental sources skipped, in both places
    # decided on the guards of the statement that collects / stores, so `if supplemental: continue` and `if not supplemental: <collect>` are the same
    coll = [n for n in ast.walk(loop) if isinstance(n, ast.Call) and isinstance(n.func, ast.Attribute) and n.func.attr in ('extend', 'append') and src(n.func.value) == 'all_txns']
    ok = bool(coll) and all(any(t.startswith(f"{svar}.get('_supplemental'") and not tr for t, tr in fl.cfg.guard_literals_within(fl.stmt_of(c), loop)) for c in coll)
    ctx.check(ok, 'C11.R1', run, 'wire:supplemental-skip', 'supplemental sources generate no transactions', 'supplemental sources are parsed as transaction sources', loop)
    lsf = proj.func('config_loader.load_supplemental_sources')
    lfl = get_flow(proj, lsf)
    stores = [s for s in lfl.cfg.stmts() if isinstance(s, ast.Assign) and isinstance(s.targets[0], ast.Subscript) and src(s.targets[0].value) == 'data_sources']
    ok = bool(stores) and all(any("get('_supplemental'" in t and tr for t, tr in lfl.cfg.guard_literals(st)) for st in stores)
    ctx.check(ok, 'C11.R1', lsf, 'wire:supplemental-only', 'only supplemental sources are loaded as query data', 'load_supplemental_sources does not filter on _supplemental')
    # supplemental rows are compared with the transaction in rule expressions (`r.date == txn.date`): the transaction's date is a `date`
    # (C05.R3), so the `date` column of a supplemental row has to be one too - a datetime never equals a date
    dstores = [s for s in lfl.cfg.stmts() if isinstance(s, ast.Assign) and isinstance(s.targets[0], ast.Subscript)
               and any(t == "field_name == 'date'" and tr for t, tr in lfl.cfg.guard_literals(s)) and not any(isinstance(a, ast.ExceptHandler) for a in ancestors(s))]
    if not dstores:
        ctx.unknown('C11.R1', lsf, "no store of the parsed `date` column found under `field_name == 'date'` in load_supplemental_sources")
    for s in dstores:
        ops = {o for _l, ops_ in lfl.leaf_paths(s.value, s) for o in ops_}
        ok = 'call:strptime' in ops and any(o in ('call:date', 'callq:date.date') or (o.startswith('callq:') and o.endswith('.date')) for o in ops)
        ctx.check(ok, 'C11.R1', lsf, 'supplemental:date-is-a-date', "a supplemental row's date is strptime(…, date_format).date()",
                  f'{src(s)[:80]!r}: the date column of a supplemental row is not reduced to a date: `r.date == txn.date` is never true for a datetime, '
                  f'so every rule that joins on the date silently stops matching', s)
    # views
    cb = fl.calls('classify_by_sections')
    ok = len(cb) == 1 and 'key:stats:by_merchant' in fl.atoms(cb[0].args[0], cb[0]) and 'key:config:sections' in fl.atoms(cb[0].args[1], cb[0])
    ctx.check(ok, 'C11.R1', run, 'wire:views', "views_file sections -> classify_by_sections(stats['by_merchant'], sections, …)", 'configured views do not reach classify_by_sections', cb[0] if cb else None)
    an = fl.calls('analyze_transactions')
    ok = len(an) == 1 and src(an[0].args[0]) == 'all_txns'
    ctx.check(ok, 'C11.R1', run, 'wire:analyze', 'all parsed transactions are analysed', 'analyze_transactions does not receive all parsed transactions', an[0] if an else None)
    # outputs
    for c in fl.calls('write_summary_file_vue'):
        kw = bound_args(proj, run, c)
        ok = 'currency_format' in kw and 'key:config:currency_format' in fl.atoms(kw['currency_format'], c) and 'year' in kw and 'key:config:year' in fl.atoms(kw['year'], c)
        ctx.check(ok, 'C11.R1', run, 'wire:html-format', 'currency_format and year -> HTML report', 'currency_format / year do not reach the HTML writer', c)
        a = fl.atoms(c.args[1], c) if len(c.args) > 1 else set()
        ok = 'key:config:output_dir' in a and 'key:config:html_filename' in a and any(x.startswith('attr:args.output') for x in a)
        ctx.check(ok, 'C11.R1', run, 'wire:output-path', 'output path = --output or output_dir/html_filename', f'output path derives from {sorted(x for x in a if x.startswith(("key:", "attr:")))}', c)
    for name in ('print_summary', 'print_sections_summary', 'export_markdown'):
        for c in fl.calls(name):
            kw = bound_args(proj, run, c)
            ok = 'currency_format' in kw and 'key:config:currency_format' in fl.atoms(kw['currency_format'], c)
            ctx.check(ok, 'C11.R1', run, f'wire:currency:{name}', f'currency_format -> {name}', f'{name} is not given the configured currency_format', c)
    lcall = fl.calls('load_config')
    ok = len(lcall) == 1 and 'attr:args.settings' in fl.atoms(lcall[0].args[1], lcall[0]) if lcall and len(lcall[0].args) > 1 else False
    ctx.check(ok, 'C11.R1', run, 'wire:settings-file', '--settings selects the settings file', 'the --settings argument does not reach load_config')


def r2(ctx: Ctx, run, fl, loop) -> None:
    svar = loop.target.id
    ctx.check(src(loop.iter) == 'data_sources' and 'key:config:data_sources' in fl.atoms(loop.iter, loop), 'C11.R2', run, 'loop', 'iterates the configured data sources in order',
              f'source loop iterates {src(loop.iter)!r}', loop)
    for name in ('parse_generic_csv', 'parse_amex', 'parse_boa'):
        for c in _call(fl, name, loop):
            a = fl.atoms(c.args[0], c)
            ok = f'key:{svar}:file' in a and not any(x.startswith('key:') and x.endswith(':file') and not x.startswith(f'key:{svar}:') for x in a)
            ctx.check(ok, 'C11.R2', run, f'file:{name}', f'{name} reads this source\'s file', f'{name} reads {src(c.args[0])!r} with provenance {sorted(x for x in a if x.startswith("key:"))}', c)
    ext = [n for n in ast.walk(loop) if isinstance(n, ast.Call) and isinstance(n.func, ast.Attribute) and n.func.attr in ('extend', 'append') and src(n.func.value) == 'all_txns']
    ok = len(ext) == 1 and src(ext[0].args[0]) == 'txns' and not fl.cfg.guard_literals_within(fl.stmt_of(ext[0]), loop) - _benign(fl, loop, svar)
    ctx.check(ok, 'C11.R2', run, 'collect', 'every successfully parsed source contributes all its transactions', f'all_txns collection is {[src(e) for e in ext]} under extra conditions', ext[0] if ext else loop)
    # txns defined in this iteration only
    if ext:
        defs = fl.cfg.defs_reaching(fl.stmt_of(ext[0]), 'txns')
        ok = bool(defs) and all(d != 'param' and any(a is loop for a in ancestors(fl.cfg.stmt[d])) and isinstance(fl.cfg.stmt[d].value, ast.Call) for d in defs)
        ctx.check(ok, 'C11.R2', run, 'collect-fresh', 'the collected list is the one parsed in this iteration', 'txns can carry over from a previous source')
    # parser type from this source
    pt = [s for s in ast.walk(loop) if isinstance(s, ast.Assign) and src(s.targets[0]) == 'parser_type']
    ok = bool(pt) and f'key:{svar}:_parser_type' in fl.atoms(pt[0].value, pt[0])
    ctx.check(ok, 'C11.R2', run, 'parser-type', 'parser chosen from this source\'s resolved type', 'parser type does not come from the current source')


def _benign(fl, loop, svar):
    """guards of the collection statement that are the error skips themselves (handled in R3)."""
    return {(t, tr) for t, tr in fl.cfg.guard_literals_within(loop.body[-1], loop)} | {(f"{svar}.get('_supplemental', False)", False), ('os.path.exists(filepath)', True)}


def r3(ctx: Ctx, run, fl, loop) -> None:
    exits = []
    for n in ast.walk(loop):
        if isinstance(n, (ast.Return, ast.Raise, ast.Break)):
            exits.append(n)
        if isinstance(n, ast.Call) and dotted(n.func) in ('sys.exit', 'exit', 'quit', 'os._exit'):
            exits.append(n)
    ctx.check(not exits, 'C11.R3', run, 'no-exit', 'no return / raise / break / sys.exit inside the source loop',
              f'{src(exits[0])[:40] if exits else ""!r} inside the source loop: one bad source ends the whole run', exits[0] if exits else None)
    parse_calls = [n for n in ast.walk(loop) if isinstance(n, ast.Call) and call_name(n) in ('parse_generic_csv', 'parse_amex', 'parse_boa')]
    tries = [s for s in ast.walk(loop) if isinstance(s, ast.Try) and any(any(a is s for a in ancestors(c)) and any(c in ast.walk(x) for x in s.body) for c in parse_calls)]
    if len(tries) != 1:
        if parse_calls and not tries:
            ctx.fail('C11.R3', run, 'parse-in-try', 'no parser call is inside a try: one unreadable file aborts the run', parse_calls[0])
            return
        ctx.unknown('C11.R3', run, f'{len(tries)} try statements around the parser calls in the source loop')
    t = tries[0]
    ok = all(any(a is t for a in ancestors(c)) and any(c in ast.walk(x) for x in t.body) for c in parse_calls)
    ctx.check(ok, 'C11.R3', run, 'parse-in-try', 'every parser call is inside the try', 'a parser call sits outside the try: its failure aborts the run')
    ext = [n for n in ast.walk(loop) if isinstance(n, ast.Call) and isinstance(n.func, ast.Attribute) and n.func.attr in ('extend', 'append') and src(n.func.value) == 'all_txns']
    if len(ext) != 1:
        # R2 `collect` has reported the shape; fall back to whatever statement (re)binds the collection inside the loop
        ext = ext or [n for n in ast.walk(loop) if isinstance(n, (ast.Assign, ast.AugAssign)) and 'all_txns' in {x.id for t in (n.targets if isinstance(n, ast.Assign) else [n.target]) for x in ast.walk(t) if isinstance(x, ast.Name)}]
        if not ext:
            ctx.need(False, 'C11.R3: no statement collects transactions (all_txns) in the source loop')
            return
    collect = fl.stmt_of(ext[0])
    cfg = fl.cfg

    def skips_source(st) -> bool:
        """after st, this iteration never collects transactions (the source is skipped) and the loop goes on"""
        return not cfg.same_iteration_reaches(loop, st, collect)
    broad = [h for h in t.handlers if h.type is None or src(h.type) in ('Exception', 'BaseException')]
    ok = bool(broad) and skips_source(broad[0].body[0])
    ctx.check(ok, 'C11.R3', run, 'handler', 'any parse failure -> continue with the next source', 'the parse handler is not a catch-all that continues', t)
    # reporting
    for label, pred in (('missing-file', lambda s: 'File not found' in src(s)), ('unknown-type', lambda s: 'Unknown parser type' in src(s)), ('parse-error', lambda s: 'Error parsing' in src(s))):
        prints = [n for n in ast.walk(loop) if isinstance(n, ast.Call) and call_name(n) == 'print' and pred(n)]
        if not prints:
            ctx.fail('C11.R3', run, f'report:{label}', f'{label}: the source is skipped without telling the user', loop)
            continue
        st = fl.stmt_of(prints[0])
        g = cfg.guard_literals_within(st, loop)
        ok = ('args.quiet', False) in g
        ctx.check(ok and skips_source(st), 'C11.R3', run, f'report:{label}', f'{label}: reported unless --quiet, then continue', f'{label}: message guarded by {sorted(g)} / the source is not skipped afterwards', prints[0])
    # the missing-file skip: transactions are collected only for a file that exists
    g = cfg.guard_literals_within(collect, loop)
    ok = any(t_.startswith('os.path.exists(') and tr for t_, tr in g)
    ctx.check(ok, 'C11.R3', run, 'missing-file-skip', 'a missing file skips only that source', 'a source whose file is missing is not skipped')


def r4(ctx: Ctx) -> None:
    proj = ctx.proj
    nm = proj.func('merchant_utils.normalize_merchant')
    ref = None
    feats = {}
    for qn in ('parsers.parse_generic_csv', 'parsers.parse_amex', 'parsers.parse_boa'):
        f = proj.func(qn)
        fl = get_flow(proj, f)
        cs = fl.calls('normalize_merchant')
        if len(cs) != 1:
            ctx.unknown('C11.R4', f, f'{len(cs)} normalize_merchant calls')
        given = set()
        for p in nm.params:
            if arg_of(cs[0], nm, p) is not None:
                given.add(p)
        feats[qn] = (f, cs[0], given)
    ref = feats['parsers.parse_generic_csv'][2]
    ctx.ok('C11.R4', feats['parsers.parse_generic_csv'][0], f'reference parser passes {sorted(ref)}', construct='sibling:generic')
    for qn in ('parsers.parse_amex', 'parsers.parse_boa'):
        f, c, given = feats[qn]
        missing = sorted(ref - given)
        # these two matter for classification: transforms (C01), data_sources (supplemental queries), field, location
        if missing:
            ctx.fail('C11.R4', f, 'sibling:classification-inputs',
                     f'{f.name} calls normalize_merchant without {missing}: for `type: {f.name[6:]}` sources field transforms are never applied, rules cannot query '
                     f'supplemental data and txn.location / field.* are empty, although the same settings are honoured for format-string sources', c)
        else:
            ctx.ok('C11.R4', f, 'passes the same classification inputs as the generic parser', c, 'sibling:classification-inputs')
    # and cmd_run hands them over
    run = proj.func('commands.run.cmd_run')
    rfl = get_flow(proj, run)
    for name in ('parse_amex', 'parse_boa'):
        for c in rfl.calls(name):
            kws = {k.arg for k in c.keywords}
            if feats[f'parsers.{name}'][2] >= ref:
                ctx.check({'transforms', 'data_sources'} <= kws, 'C11.R4', run, f'call:{name}', f'{name} receives transforms and data_sources', f'{name} is called without transforms/data_sources', c)


def r5(ctx: Ctx) -> None:
    proj = ctx.proj
    text = proj.read_text(EXAMPLE)
    keys: Dict[str, int] = {}
    for i, line in enumerate(text.splitlines(), 1):
        m = re.match(r'^\s*#?\s*(?:-\s+)?([A-Za-z_][A-Za-z0-9_]*):(\s|$)', line)
        if m and not re.match(r'^\s*#\s+[A-Z]', line):     # prose sentences start with a capital
            keys.setdefault(m.group(1), i)
    # also the starter settings shipped by `tally init`
    cli = proj.module('cli')
    for node in cli.globals_assigned.get('STARTER_SETTINGS', []):
        if isinstance(node.value, ast.Constant):
            for line in node.value.value.splitlines():
                m = re.match(r'^\s*#?\s*(?:-\s+)?([A-Za-z_][A-Za-z0-9_]*):(\s|$)', line)
                if m and not re.match(r'^\s*#\s+[A-Z]', line):
                    keys.setdefault(m.group(1), 0)
    # keys read anywhere in the package
    read: Set[str] = set()
    for f in proj.all_funcs():
        for n in all_nodes(f.node):
            if isinstance(n, ast.Call) and isinstance(n.func, ast.Attribute) and n.func.attr == 'get' and n.args and isinstance(n.args[0], ast.Constant) \
                    and isinstance(n.args[0].value, str):
                read.add(n.args[0].value)
            if isinstance(n, ast.Subscript) and isinstance(n.slice, ast.Constant) and isinstance(n.slice.value, str) and isinstance(n.ctx, ast.Load):
                read.add(n.slice.value)
            if isinstance(n, ast.Compare) and isinstance(n.left, ast.Constant) and isinstance(n.left.value, str) and any(isinstance(o, ast.In) for o in n.ops):
                pass
    n = 0
    for k, line in sorted(keys.items()):
        if k in NOT_SETTINGS:
            continue
        n += 1
        ctx.check(k in read, 'C11.R5', 'config/settings.yaml.example', f'documented:{k}', f'documented setting {k!r} is read by the code',
                  f'the shipped example documents the setting {k!r} (line {line}) but no code reads it: setting it has no effect '
                  + ('(the code reads `decimal_separator`)' if k == 'decimal' else ''))
    ctx.need(not (n < 8), f'C11.R5: only {n} documented keys found')
