"""C16 — explain and discover describe the same classification that up applies (sibling cross-check)."""
from __future__ import annotations

import ast
from typing import Dict, List, Optional, Set

from ..callgraph import all_nodes, get_cg
from ..core import Ctx
from ..flow import arg_of, call_name, get_flow
from ..project import AnalysisError, FuncInfo, ancestors, dotted, parent, src

LEVEL = 'other'
COMMANDS = {'up': 'commands.run.cmd_run', 'explain': 'commands.explain.cmd_explain', 'discover': 'commands.discover.cmd_discover'}


def _features(ctx: Ctx, f: FuncInfo) -> Dict[str, object]:
    proj = ctx.proj
    fl = get_flow(proj, f)
    feats: Dict[str, object] = {}
    loops = [s for s in fl.cfg.stmts() if isinstance(s, ast.For) and any(isinstance(n, ast.Call) and call_name(n) == 'parse_generic_csv' for n in ast.walk(s))]
    if len(loops) != 1:
        ctx.unknown('C16.R1', f, f'{len(loops)} source loops calling parse_generic_csv')
    loop = loops[0]
    svar = loop.target.id
    feats['_loop'] = loop
    # supplemental skip
    feats['skips-supplemental-sources'] = any(isinstance(s, ast.Continue) and any(t.startswith(f"{svar}.get('_supplemental'") and tr
                                                                                   for t, tr in fl.cfg.guard_literals_within(s, loop))
                                              for s in fl.cfg.stmts() if any(a is loop for a in ancestors(s)))
    feats['loads-supplemental-data'] = bool(fl.calls('load_supplemental_sources'))
    feats['loads-transforms'] = bool(fl.calls('get_transforms'))
    # rules
    rules_calls = fl.calls('get_all_rules') + fl.calls('_check_merchant_migration')
    feats['loads-rules'] = bool(rules_calls)
    mode_ok = True
    for c in fl.calls('get_all_rules') + fl.calls('get_transforms'):
        kw = {k.arg: k.value for k in c.keywords}
        if 'match_mode' not in kw or 'key:config:rule_mode' not in fl.atoms(kw['match_mode'], c):
            mode_ok = False
    feats['passes-rule-mode'] = mode_ok
    # parse call keywords and their provenance
    pc = [c for c in fl.calls('parse_generic_csv') if any(a is loop for a in ancestors(c))][0]
    callee = proj.func('parsers.parse_generic_csv')
    prov = {}
    for p in callee.params:
        a = arg_of(pc, callee, p)
        if a is None:
            continue
        at = fl.atoms(a, pc)
        if p == 'transforms':
            prov[p] = 'get_transforms(config._merchants_file)' if 'call:get_transforms' in at and 'key:config:_merchants_file' in at else f'other:{src(a)}'
        elif p == 'data_sources':
            prov[p] = 'load_supplemental_sources(config)' if 'call:load_supplemental_sources' in at else f'other:{src(a)}'
        elif p == 'decimal_separator':
            prov[p] = 'source.decimal_separator' if f'key:{svar}:decimal_separator' in at else f'other:{src(a)}'
        elif p == 'source_name':
            prov[p] = 'source.name' if f'key:{svar}:name' in at else f'other:{src(a)}'
        elif p == 'format_spec':
            prov[p] = 'source._format_spec' if f'key:{svar}:_format_spec' in at else f'other:{src(a)}'
        elif p == 'rules':
            prov[p] = 'rules of config._merchants_file' if ('call:get_all_rules' in at or 'call:_check_merchant_migration' in at) else f'other:{src(a)}'
        elif p == 'filepath':
            prov[p] = 'source.file' if f'key:{svar}:file' in at else f'other:{src(a)}'
    feats['parse-args'] = prov
    feats['_parse_call'] = pc
    # other parsers
    for name in ('parse_amex', 'parse_boa'):
        cs = [c for c in fl.calls(name) if any(a is loop for a in ancestors(c))]
        feats[f'{name}-args'] = tuple(sorted(k.arg for c in cs for k in c.keywords)) if cs else None
    # every source contributes
    feats['collects-all'] = any(isinstance(n, ast.Call) and isinstance(n.func, ast.Attribute) and n.func.attr == 'extend' and src(n.func.value) == 'all_txns' for n in ast.walk(loop))
    return feats


def check(ctx: Ctx) -> None:
    proj = ctx.proj
    ctx.rule('C16.R1', 'pipeline features agree: what `up` does when loading rules, transforms and supplemental data and when parsing each source, explain and discover do too', floor=12)
    ctx.rule('C16.R2', 'one decision procedure: the rule deciders reachable from explain / discover are the ones reachable from up', floor=2)
    ctx.rule('C16.R3', 'the Unknown contract: discover filters on the literal normalize_merchant returns for unmatched transactions', floor=2)
    fs = {k: proj.func(v) for k, v in COMMANDS.items()}
    feats = {k: _features(ctx, f) for k, f in fs.items()}
    ref = feats['up']
    keys = ['skips-supplemental-sources', 'loads-supplemental-data', 'loads-transforms', 'loads-rules', 'passes-rule-mode', 'collects-all', 'parse_amex-args', 'parse_boa-args']
    for cmd in ('explain', 'discover'):
        f = fs[cmd]
        ft = feats[cmd]
        for k in keys:
            same = ft[k] == ref[k]
            if same:
                ctx.ok('C16.R1', f, f'{k}: {ft[k]} (as up)', construct=f'feature:{k}')
            else:
                extra = ''
                if k == 'skips-supplemental-sources':
                    extra = ': rows of supplemental (query-only) files are parsed and listed as transactions'
                if k == 'loads-supplemental-data':
                    extra = ': rules that query supplemental data never match here'
                ctx.fail('C16.R1', f, f'feature:{k}', f'`tally {cmd}` differs from `tally up` in {k}: up={ref[k]}, {cmd}={ft[k]}{extra}', ft['_loop'])
        # parse_generic_csv arguments
        pa, ra = ft['parse-args'], ref['parse-args']
        for p in sorted(set(pa) | set(ra)):
            if pa.get(p) == ra.get(p):
                ctx.ok('C16.R1', f, f'parse_generic_csv({p}=…): {pa.get(p)} (as up)', construct=f'parse-arg:{p}')
            else:
                ctx.fail('C16.R1', f, f'parse-arg:{p}', f'`tally {cmd}` calls parse_generic_csv with {p}={pa.get(p)!r} while `tally up` passes {ra.get(p)!r}: '
                                                     f'the same statement row can classify differently', ft['_parse_call'])
    r2(ctx, fs)
    r3(ctx, fs)


def _deciders(ctx: Ctx) -> Set[str]:
    """Functions that contain a loop over rules which evaluates a match expression or searches the rule's pattern."""
    proj = ctx.proj
    out = set()
    for f in proj.all_funcs():
        for n in all_nodes(f.node):
            if isinstance(n, ast.For):
                body_calls = {call_name(c) for s in n.body for c in ast.walk(s) if isinstance(c, ast.Call)}
                it = src(n.iter)
                over_rules = 'rules' in it or 'rule' in (src(n.target))
                if over_rules and (body_calls & {'matches_transaction'} or ('search' in body_calls and 'pattern' in ' '.join(src(s) for s in n.body))):
                    out.add(f.qualname)
    return out


def r2(ctx: Ctx, fs) -> None:
    proj = ctx.proj
    cg = get_cg(proj)
    deciders = _deciders(ctx)
    if len(deciders) < 2:
        ctx.unknown('C16.R2', 'package', f'deciders found: {sorted(deciders)}')
    reach = {k: {d for d in deciders if d in cg.reachable(f)} for k, f in fs.items()}
    ref = reach['up']
    for cmd in ('explain', 'discover'):
        extra = sorted(d[6:] for d in reach[cmd] - ref)
        missing = sorted(d[6:] for d in ref - reach[cmd])
        if extra or missing:
            # which call pulls the extra decider in
            path = cg.path(fs[cmd], 'tally.' + extra[0]) if extra else []
            ctx.fail('C16.R2', fs[cmd], f'deciders:{",".join(extra) or "missing"}',
                     f'`tally {cmd}` reaches the rule decider(s) {extra} that `tally up` never uses' + (f' and misses {missing}' if missing else '') +
                     f' (call path {" -> ".join(p[6:] for p in path)}): a separate first-match loop without the "has a category" guard and with the pattern-sniffing dispatch — '
                     f'a tag-only rule placed first is reported as the match with an empty category, and `not contains("HULU")` is searched as a regex', fs[cmd].node)
        else:
            ctx.ok('C16.R2', fs[cmd], f'reaches exactly the deciders of up: {sorted(d[6:] for d in ref)}', construct='deciders:same')


def r3(ctx: Ctx, fs) -> None:
    proj = ctx.proj
    nm = proj.func('merchant_utils.normalize_merchant')
    lits = set()
    for r in ast.walk(nm.node):
        if isinstance(r, ast.Return) and isinstance(r.value, ast.Tuple) and len(r.value.elts) == 4 and isinstance(r.value.elts[1], ast.Constant):
            lits.add(r.value.elts[1].value)
    d = fs['discover']
    filt = [n for n in ast.walk(d.node) if isinstance(n, ast.Compare) and "get('category')" in src(n.left) and isinstance(n.comparators[0], ast.Constant)]
    if not filt:
        ctx.unknown('C16.R3', d, 'discover\'s Unknown filter not found')
    lit = filt[0].comparators[0].value
    ctx.check(lits == {lit} and isinstance(filt[0].ops[0], ast.Eq), 'C16.R3', d, 'unknown-literal', f'discover keeps category == {lit!r}, the literal normalize_merchant returns',
              f'discover filters on {lit!r} while normalize_merchant returns {sorted(lits)} for unmatched transactions', filt[0])
    # the filter is applied to every parsed transaction
    comp = parent(filt[0])
    ok = isinstance(comp, ast.comprehension) and src(comp.iter) == 'all_txns'
    ctx.check(ok, 'C16.R3', d, 'unknown-scope', 'every parsed transaction is considered', 'the Unknown filter is not applied to all parsed transactions', filt[0])
    # parsers copy the category normalize_merchant returned
    pg = proj.func('parsers.parse_generic_csv')
    fl = get_flow(proj, pg)
    dicts = [n for n in ast.walk(pg.node) if isinstance(n, ast.Dict) and any(isinstance(k, ast.Constant) and k.value == 'category' for k in n.keys)]
    ok = False
    if dicts:
        v = [v for k, v in zip(dicts[0].keys, dicts[0].values) if isinstance(k, ast.Constant) and k.value == 'category'][0]
        ok = 'call:normalize_merchant' in fl.atoms(v, dicts[0]) and 'unpack:1' in fl.atoms(v, dicts[0])
    ctx.check(ok, 'C16.R3', pg, 'category-copied', "transaction['category'] is the category normalize_merchant returned", "transaction['category'] is not the classifier's category")
