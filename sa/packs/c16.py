"""C16 — explain and discover describe the same classification that up applies (sibling cross-check)."""
from __future__ import annotations

import ast
from typing import Dict, List, Optional, Set

from ..callgraph import all_nodes, get_cg
from ..core import Ctx
from ..flow import arg_of, bound_args, call_name, get_flow
from ..project import AnalysisError, FuncInfo, ancestors, dotted, parent, src

LEVEL = 'other'
COMMANDS = {'up': 'commands.run.cmd_run', 'explain': 'commands.explain.cmd_explain', 'discover': 'commands.discover.cmd_discover'}


def _features(ctx: Ctx, f: FuncInfo) -> Dict[str, object]:
    proj = ctx.proj
    fl = get_flow(proj, f)
    feats: Dict[str, object] = {}
    loops = [s for s in fl.cfg.stmts() if isinstance(s, ast.For) and any(isinstance(n, ast.Call) and call_name(n) == 'parse_generic_csv' for n in ast.walk(s))]
    if len(loops) != 1:
        ctx.unknown('C16.R1', f, f'{len(loops)} source loops calling parse_generic_csv')
    loop = loops[0]
    svar = loop.target.id
    feats['_loop'] = loop
    # supplemental skip
    pcs = [c for c in fl.calls('parse_generic_csv') if any(a is loop for a in ancestors(c))]
    feats['skips-supplemental-sources'] = bool(pcs) and all(any(t.startswith(f"{svar}.get('_supplemental'") and not tr for t, tr in fl.cfg.guard_literals_within(fl.stmt_of(c), loop))
                                                           for c in pcs)
    feats['loads-supplemental-data'] = bool(fl.calls('load_supplemental_sources'))
    feats['loads-transforms'] = bool(fl.calls('get_transforms'))
    # rules
    rules_calls = fl.calls('get_all_rules') + fl.calls('_check_merchant_migration')
    feats['loads-rules'] = bool(rules_calls)
    mode_ok = True
    for c in fl.calls('get_all_rules') + fl.calls('get_transforms'):
        kw = bound_args(proj, f, c)
        if 'match_mode' not in kw or 'key:config:rule_mode' not in fl.atoms(kw['match_mode'], c):
            mode_ok = False
    feats['passes-rule-mode'] = mode_ok
    # parse call keywords and their provenance
    pc = [c for c in fl.calls('parse_generic_csv') if any(a is loop for a in ancestors(c))][0]
    callee = proj.func('parsers.parse_generic_csv')
    prov = {}
    for p in callee.params:
        a = arg_of(pc, callee, p)
        if a is None:
            continue
        at = fl.atoms(a, pc)
        if p == 'transforms':
            prov[p] = 'get_transforms(config._merchants_file)' if 'call:get_transforms' in at and 'key:config:_merchants_file' in at else f'other:{src(a)}'
        elif p == 'data_sources':
            prov[p] = 'load_supplemental_sources(config)' if 'call:load_supplemental_sources' in at else f'other:{src(a)}'
        elif p == 'decimal_separator':
            prov[p] = 'source.decimal_separator' if f'key:{svar}:decimal_separator' in at else f'other:{src(a)}'
        elif p == 'source_name':
            prov[p] = 'source.name' if f'key:{svar}:name' in at else f'other:{src(a)}'
        elif p == 'format_spec':
            prov[p] = 'source._format_spec' if f'key:{svar}:_format_spec' in at else f'other:{src(a)}'
        elif p == 'rules':
            prov[p] = 'rules of config._merchants_file' if ('call:get_all_rules' in at or 'call:_check_merchant_migration' in at) else f'other:{src(a)}'
        elif p == 'filepath':
            prov[p] = 'source.file' if f'key:{svar}:file' in at else f'other:{src(a)}'
    feats['parse-args'] = prov
    feats['_parse_call'] = pc
    # other parsers
    for name in ('parse_amex', 'parse_boa'):
        cs = [c for c in fl.calls(name) if any(a is loop for a in ancestors(c))]
        feats[f'{name}-args'] = tuple(sorted({k for c in cs for k in bound_args(proj, f, c)} - {'filepath', 'rules'})) if cs else None
    # every source contributes
    # is the list of parsed transactions reordered / filtered before it is analysed or listed?
    reorder = []
    for n in ast.walk(f.node):
        if isinstance(n, ast.Call) and isinstance(n.func, ast.Attribute) and n.func.attr in ('sort', 'reverse') and src(n.func.value) == 'all_txns':
            reorder.append(src(n)[:40])
        if isinstance(n, ast.Assign) and src(n.targets[0]) == 'all_txns' and isinstance(n.value, ast.Call) and call_name(n.value) in ('sorted', 'reversed', 'list', 'set') \
                and any(isinstance(x, ast.Name) and x.id == 'all_txns' for x in ast.walk(n.value)):
            reorder.append(src(n)[:40])
    feats['reorders-transactions'] = tuple(reorder)
    feats['collects-all'] = any(isinstance(n, ast.Call) and isinstance(n.func, ast.Attribute) and n.func.attr == 'extend' and src(n.func.value) == 'all_txns' for n in ast.walk(loop))
    return feats


def check(ctx: Ctx) -> None:
    proj = ctx.proj
    ctx.rule('C16.R1', 'pipeline features agree: what `up` does when loading rules, transforms and supplemental data and when parsing each source, explain and discover do too', floor=12)
    ctx.rule('C16.R2', 'one decision procedure: the rule deciders reachable from explain / discover are the ones reachable from up', floor=2)
    ctx.rule('C16.R4', 'explain_description applies the transforms to the very transaction it then matches (as normalize_merchant does)', floor=2)
    ctx.rule('C16.R3', 'the Unknown contract: discover filters on the literal normalize_merchant returns for unmatched transactions', floor=2)
    # the three commands look at the same rules because one place decides which rules file a budget has: load_config.  A command (or a helper only
    # one of them calls) that re-decides it sees rules the others do not.
    writers = []
    for f_ in proj.all_funcs():
        if f_.short.startswith('config_loader.'):
            continue
        for n_ in ast.walk(f_.node):
            if isinstance(n_, ast.Assign):
                for t in n_.targets:
                    for x in ([t] if not isinstance(t, ast.Tuple) else t.elts):
                        if isinstance(x, ast.Subscript) and isinstance(x.slice, ast.Constant) and x.slice.value in ('_merchants_file', '_merchants_format') \
                                and isinstance(x.value, ast.Name) and x.value.id == 'config':
                            writers.append((f_, n_, x.slice.value))
    for f_, n_, k_ in writers:
        ctx.fail('C16.R1', f_, f'rules-discovery:{k_}', f'{src(n_)[:60]!r}: {f_.short} decides the rules file by itself; `tally up` goes through it and `explain` / `discover` do not '
                 f'(or the other way round), so they report on rules the run does not apply', n_)
    if not writers:
        ctx.ok('C16.R1', proj.func('config_loader.load_config'), "config['_merchants_file'] is decided by load_config only", construct='rules-discovery:single')
    # what explain is asked about is what it explains: the description and the amount typed on the command line reach explain_description unchanged
    ex = proj.func(COMMANDS['explain'])
    efl = get_flow(proj, ex)
    ed_ = proj.func('merchant_utils.explain_description')
    for c in efl.calls('explain_description'):
        a_ = arg_of(c, ed_, 'amount')
        if a_ is None:
            continue
        ops = {o for _l, os_ in efl.leaf_paths(a_, c) for o in os_}
        changed = sorted(o for o in ops if o in ('call:abs', 'op:neg', 'call:round', 'call:int', 'op:*', 'op:-', 'op:+', 'op:/'))
        from_args = any(l.startswith('param:args') or 'attr:args.amount' in os_ or "const:'amount'" == l for l, os_ in efl.leaf_paths(a_, c))
        ctx.check(from_args and not changed, 'C16.R4', ex, 'explain-amount-as-given', 'the --amount given to explain is the amount matched',
                  f'explain_description(amount={src(a_)}) went through {changed}: a rule with `amount < 0` (refunds, deposits) is decided differently by `tally explain` than by `tally up`', c)
    # `tally explain <name>`: the merchant `up` reported under exactly that name is the one explained.  A merchant found by folding the case or
    # by substring may only be shown when no merchant has the name as typed (two merchants may differ in letter case only: IKEA / Ikea).
    pm = [c for c in efl.calls('_print_merchant_explanation') if c.args]
    if not pm:
        ctx.unknown('C16.R4', ex, 'cmd_explain no longer calls _print_merchant_explanation')
    qloops = [a for c in pm for a in ancestors(c) if isinstance(a, ast.For) and isinstance(a.target, ast.Name) and 'merchant_names' in src(a.iter)]
    if not qloops:
        ctx.unknown('C16.R4', ex, 'the loop over the merchant names given on the command line was not found')
    q = qloops[0].target.id

    def origins(e, at, depth=0):
        """where the merchant name handed to the printer was chosen: [(statement, expression)], following loop variables, locals and one-element lists"""
        if depth > 4:
            return [(at, e)]
        if isinstance(e, ast.Name) and e.id != q:
            for a in ancestors(at):
                if isinstance(a, ast.For) and isinstance(a.target, ast.Name) and a.target.id == e.id and a is not qloops[0]:
                    return origins(a.iter, a, depth + 1)
            out = []
            if efl.cfg.has(at):
                for d in efl.cfg.defs_reaching(efl.stmt_of(at), e.id):
                    st = efl.cfg.stmt.get(d) if d != 'param' else None
                    if not isinstance(st, ast.Assign) or len(st.targets) != 1:
                        return [(at, e)]
                    t, v = st.targets[0], st.value
                    if isinstance(t, ast.Tuple) and isinstance(v, ast.Tuple) and len(t.elts) == len(v.elts):
                        hit = [v.elts[i] for i, x in enumerate(t.elts) if isinstance(x, ast.Name) and x.id == e.id]
                        if len(hit) != 1:
                            return [(at, e)]
                        v = hit[0]
                    elif not (isinstance(t, ast.Name) and t.id == e.id):
                        return [(at, e)]
                    out += origins(v, st, depth + 1)
            return out or [(at, e)]
        if isinstance(e, (ast.List, ast.Tuple)) and len(e.elts) == 1:
            return origins(e.elts[0], at, depth + 1)
        return [(at, e)]
    for c in pm:
        if not any(a is qloops[0] for a in ancestors(c)):
            continue
        bad = None
        for st, v in origins(c.args[0], c):
            g = efl.cfg.guard_literals(efl.stmt_of(st)) | efl.cfg.guard_literals(efl.stmt_of(c))
            exact_hit = (f'{q} in all_merchants', True) in g
            exact_miss = (f'{q} in all_merchants', False) in g
            is_q = isinstance(v, ast.Name) and v.id == q
            ops = {o for _l, os_ in efl.leaf_paths(v, st) for o in os_}
            folded = bool(ops & {'call:lower', 'call:upper', 'call:casefold'}) or not is_q
            if not ((exact_hit and is_q) or exact_miss or not folded):
                bad = v
        ctx.check(bad is None, 'C16.R4', ex, f'explain-exact-name-first:{src(c.args[0])[:30]}', 'a merchant found by a looser match is shown only when no merchant has the name as typed',
                  f'_print_merchant_explanation({src(c.args[0])}, …) can show {src(bad) if bad is not None else ""!r}, chosen without `{q} in all_merchants` having been tried and failed: when two '
                  f'merchants differ in letter case only, `tally explain` shows the classification of the other one, not the one `tally up` reported under that name', c)
    fs = {k: proj.func(v) for k, v in COMMANDS.items()}
    feats = {k: _features(ctx, f) for k, f in fs.items()}
    # supplemental data is loaded under the same conditions as in `up` (there: always) - rules reach it through let: bindings and field expressions too,
    # so "no match expression names it" is no reason to leave it out
    def load_guards(f_):
        fl_ = get_flow(proj, f_)
        cs = fl_.calls('load_supplemental_sources')
        return [sorted(fl_.cfg.guard_literals(fl_.stmt_of(c))) for c in cs], cs
    up_g, _c = load_guards(fs['up'])
    for cmd in ('explain', 'discover'):
        g_, cs_ = load_guards(fs[cmd])
        if up_g and g_:
            extra = [x for x in g_[0] if x not in up_g[0] and not x[0].startswith(('args.', 'not args.'))]
            ctx.check(not extra, 'C16.R1', fs[cmd], 'supplemental-loaded-alike', 'supplemental sources are loaded whenever `up` loads them',
                      f'{cmd} loads the supplemental sources only under {extra}: rules that query them through let: / field: then never match in {cmd}, although they do in `up`', cs_[0])
    ref = feats['up']
    keys = ['skips-supplemental-sources', 'loads-supplemental-data', 'loads-transforms', 'loads-rules', 'passes-rule-mode', 'collects-all', 'reorders-transactions', 'parse_amex-args', 'parse_boa-args']
    for cmd in ('explain', 'discover'):
        f = fs[cmd]
        ft = feats[cmd]
        for k in keys:
            same = ft[k] == ref[k]
            if same:
                ctx.ok('C16.R1', f, f'{k}: {ft[k]} (as up)', construct=f'feature:{k}')
            else:
                extra = ''
                if k == 'skips-supplemental-sources':
                    extra = ': rows of supplemental (query-only) files are parsed and listed as transactions'
                if k == 'loads-supplemental-data':
                    extra = ': rules that query supplemental data never match here'
                if k == 'reorders-transactions':
                    extra = ': analyze_transactions is order-sensitive for a merchant fed by two rules (category of the last payment, pattern of the first), so the reported category / rule differ from `tally up`'
                ctx.fail('C16.R1', f, f'feature:{k}', f'`tally {cmd}` differs from `tally up` in {k}: up={ref[k]}, {cmd}={ft[k]}{extra}', ft['_loop'])
        # parse_generic_csv arguments
        pa, ra = ft['parse-args'], ref['parse-args']
        for p in sorted(set(pa) | set(ra)):
            if pa.get(p) == ra.get(p):
                ctx.ok('C16.R1', f, f'parse_generic_csv({p}=…): {pa.get(p)} (as up)', construct=f'parse-arg:{p}')
            else:
                ctx.fail('C16.R1', f, f'parse-arg:{p}', f'`tally {cmd}` calls parse_generic_csv with {p}={pa.get(p)!r} while `tally up` passes {ra.get(p)!r}: '
                                                     f'the same statement row can classify differently', ft['_parse_call'])
    r2(ctx, fs)
    r3(ctx, fs)
    r3_totals_uncut(ctx)
    r4(ctx)


def _deciders(ctx: Ctx) -> Set[str]:
    """Functions that contain a loop over rules which evaluates a match expression or searches the rule's pattern."""
    proj = ctx.proj
    out = set()
    for f in proj.all_funcs():
        for n in all_nodes(f.node):
            if isinstance(n, ast.For):
                body_calls = {call_name(c) for s in n.body for c in ast.walk(s) if isinstance(c, ast.Call)}
                it = src(n.iter)
                over_rules = 'rules' in it or 'rule' in (src(n.target))
                if over_rules and (body_calls & {'matches_transaction'} or ('search' in body_calls and 'pattern' in ' '.join(src(s) for s in n.body))):
                    out.add(f.qualname)
    return out


def r2(ctx: Ctx, fs) -> None:
    proj = ctx.proj
    cg = get_cg(proj)
    deciders = _deciders(ctx)
    if len(deciders) < 2:
        ctx.unknown('C16.R2', 'package', f'deciders found: {sorted(deciders)}')
    reach = {k: {d for d in deciders if d in cg.reachable(f)} for k, f in fs.items()}
    ref = reach['up']
    for cmd in ('explain', 'discover'):
        extra = sorted(d[6:] for d in reach[cmd] - ref)
        missing = sorted(d[6:] for d in ref - reach[cmd])
        if extra or missing:
            # which call pulls the extra decider in
            path = cg.path(fs[cmd], 'tally.' + extra[0]) if extra else []
            ctx.fail('C16.R2', fs[cmd], f'deciders:{",".join(extra) or "missing"}',
                     f'`tally {cmd}` reaches the rule decider(s) {extra} that `tally up` never uses' + (f' and misses {missing}' if missing else '') +
                     f' (call path {" -> ".join(p[6:] for p in path)}): a separate first-match loop without the "has a category" guard and with the pattern-sniffing dispatch — '
                     f'a tag-only rule placed first is reported as the match with an empty category, and `not contains("HULU")` is searched as a regex', fs[cmd].node)
        else:
            ctx.ok('C16.R2', fs[cmd], f'reaches exactly the deciders of up: {sorted(d[6:] for d in ref)}', construct='deciders:same')


def r3_totals_uncut(ctx: Ctx) -> None:
    """discover's summary line speaks about *all* unknown transactions: neither the count nor the sum is taken over a list that was cut to --limit"""
    proj = ctx.proj
    f = proj.func(COMMANDS['discover'])
    fl = get_flow(proj, f)
    n = 0
    for c in ast.walk(f.node):
        if isinstance(c, ast.Call) and isinstance(c.func, ast.Name) and c.func.id == 'print' and 'Total unknown' in src(c):
            for hole in [x for x in ast.walk(c) if isinstance(x, ast.FormattedValue)]:
                at_ = fl.atoms(hole.value, c)
                if not ({'name:unknown_txns', 'name:desc_stats', 'name:all_txns'} & at_):
                    continue
                n += 1
                cut = sorted(a for a in at_ if a in ('op:slice', 'name:limit') or a.startswith('attr:args.limit'))
                ctx.check(not cut, 'C16.R3', f, f'total:{src(hole.value)[:24]}', f'{src(hole.value)[:40]} ranges over all unknown transactions',
                          f'{src(hole.value)[:50]!r} in the "Total unknown" line is computed from a list cut to the display limit ({cut}): discover reports fewer / less than `tally up` leaves Unknown', hole)
    if n == 0:
        ctx.unknown('C16.R3', f, 'the "Total unknown" summary line of cmd_discover was not found')


def r3(ctx: Ctx, fs) -> None:
    proj = ctx.proj
    nm = proj.func('merchant_utils.normalize_merchant')
    lits = set()
    for r in ast.walk(nm.node):
        if isinstance(r, ast.Return) and isinstance(r.value, ast.Tuple) and len(r.value.elts) == 4 and isinstance(r.value.elts[1], ast.Constant):
            lits.add(r.value.elts[1].value)
    d = fs['discover']
    filt = [n for n in ast.walk(d.node) if isinstance(n, ast.Compare) and "get('category')" in src(n.left) and isinstance(n.comparators[0], ast.Constant)]
    if not filt:
        # the selection of the transactions to list: a comprehension over all parsed transactions with a condition
        sel = [n for n in ast.walk(d.node) if isinstance(n, ast.ListComp) and len(n.generators) == 1 and src(n.generators[0].iter) == 'all_txns' and n.generators[0].ifs]
        if sel:
            ctx.fail('C16.R3', d, 'unknown-literal', f'discover selects `{src(sel[0].generators[0].ifs[0])}` instead of category == "Unknown": transactions that `tally up` leaves Unknown but that '
                                                     f'carry tags or transform info (a tag-only rule matched, or a field transform ran) disappear from the list', sel[0])
            return
        ctx.unknown('C16.R3', d, 'discover\'s Unknown filter not found')
    lit = filt[0].comparators[0].value
    ctx.check(lits == {lit} and isinstance(filt[0].ops[0], ast.Eq), 'C16.R3', d, 'unknown-literal', f'discover keeps category == {lit!r}, the literal normalize_merchant returns',
              f'discover filters on {lit!r} while normalize_merchant returns {sorted(lits)} for unmatched transactions', filt[0])
    # the filter is applied to every parsed transaction
    comp = parent(filt[0])
    ok = isinstance(comp, ast.comprehension) and src(comp.iter) == 'all_txns'
    ctx.check(ok, 'C16.R3', d, 'unknown-scope', 'every parsed transaction is considered', 'the Unknown filter is not applied to all parsed transactions', filt[0])
    # parsers copy the category normalize_merchant returned
    pg = proj.func('parsers.parse_generic_csv')
    fl = get_flow(proj, pg)
    dicts = [n for n in ast.walk(pg.node) if isinstance(n, ast.Dict) and any(isinstance(k, ast.Constant) and k.value == 'category' for k in n.keys)]
    ok = False
    if dicts:
        v = [v for k, v in zip(dicts[0].keys, dicts[0].values) if isinstance(k, ast.Constant) and k.value == 'category'][0]
        ok = 'call:normalize_merchant' in fl.atoms(v, dicts[0]) and 'unpack:1' in fl.atoms(v, dicts[0])
    ctx.check(ok, 'C16.R3', pg, 'category-copied', "transaction['category'] is the category normalize_merchant returned", "transaction['category'] is not the classifier's category")


def r4(ctx: Ctx) -> None:
    proj = ctx.proj
    ed = proj.func('merchant_utils.explain_description')
    fl = get_flow(proj, ed)
    # the inline modifiers of a legacy rule ([amount>200], [month=12]) are consulted under the same condition by explain as by the classifier
    nm = proj.func('merchant_utils.normalize_merchant')
    nfl = get_flow(proj, nm)

    def modifier_guards(f_, fl_):
        """what is known to hold when check_all_conditions is evaluated: the guards of its statement, the operands in front of it in a short-circuit
        `a and call` / `a or call`, and - for a guard that is a flag - what the flag was computed from"""
        from ..cfg import conj_atoms
        out = []
        for c in fl_.calls('check_all_conditions'):
            st = fl_.stmt_of(c)
            atoms = list(fl_.cfg.guard_atoms(st))
            child = c
            for a_ in ancestors(c):
                if isinstance(a_, ast.stmt):
                    break
                if isinstance(a_, ast.BoolOp):
                    idx = next((i_ for i_, v_ in enumerate(a_.values) if v_ is child), 0)
                    for v_ in a_.values[:idx]:
                        atoms += conj_atoms(v_, isinstance(a_.op, ast.And))
                child = a_
            flat = []
            for at_, tr_ in atoms:
                if isinstance(at_, ast.Name):
                    ds_ = [d_ for d_ in fl_.cfg.defs_reaching(st, at_.id) if d_ != 'param']
                    v_ = getattr(fl_.cfg.stmt.get(ds_[0]), 'value', None) if len(ds_) == 1 else None
                    if v_ is not None and not isinstance(v_, ast.Constant):
                        flat += conj_atoms(v_, tr_)
                        continue
                flat.append((at_, tr_))
            g_ = frozenset((src(at_).replace(' ', ''), tr_) for at_, tr_ in flat if 'parsed' in src(at_))
            out.append((g_, ' and '.join(sorted(('' if tr else 'not ') + t for t, tr in g_))))
        return out
    ga, gb = modifier_guards(nm, nfl), modifier_guards(ed, fl)
    if ga and gb:
        ctx.check(set(ga) == set(gb), 'C16.R4', ed, 'modifiers-consulted-alike', 'explain checks a rule\'s inline modifiers whenever the classifier does',
                  f'explain_description consults the inline modifiers under {sorted(t for _g, t in gb)}, normalize_merchant under {sorted(t for _g, t in ga)}: a rule with a single '
                  f'kind of modifier is unconditional for `tally explain` and conditional for `tally up`', fl.calls('check_all_conditions')[0])
    elif ga or gb:
        ctx.unknown('C16.R4', ed, 'check_all_conditions is called by only one of normalize_merchant / explain_description')
    # … and a legacy pattern is searched with the same flags by both
    def search_flags(fl_):
        return sorted({' | '.join(sorted(src(a_) for a_ in c.args[2:])) + ''.join(f' {k.arg}={src(k.value)}' for k in c.keywords)
                       for c in fl_.calls('search') if dotted(c.func) == 're.search'})
    fa, fb = search_flags(nfl), search_flags(fl)
    if fa and fb:
        ctx.check(fa == fb, 'C16.R4', ed, 'legacy-regex-flags', f'legacy patterns are searched with {fa} by both', f'explain_description searches legacy patterns with flags {fb}, '
                  f'normalize_merchant with {fa}: a lower-case CSV pattern matches for `tally up` and not for `tally explain`')
    at_calls = fl.calls('apply_transforms')
    m_calls = fl.calls('matches_transaction')
    if not at_calls or not m_calls:
        ctx.unknown('C16.R4', ed, 'apply_transforms / matches_transaction calls not found in explain_description')
    tgt = at_calls[0].args[0]
    ok_obj = isinstance(tgt, ast.Name)
    tname = tgt.id if ok_obj else src(tgt)
    ctx.check(ok_obj, 'C16.R4', ed, 'transform-target', f'transforms are applied in place to {tname}',
              f'apply_transforms({src(tgt)[:40]}, …) transforms a temporary object', at_calls[0])
    for c in m_calls:
        a = c.args[1] if len(c.args) > 1 else None
        ok = a is not None and isinstance(a, ast.Name) and a.id == tname
        ctx.check(ok, 'C16.R4', ed, 'matched-object', f'expression rules are matched against the transformed {tname}',
                  f'expression rules are matched against {src(a) if a is not None else None!r} while the transforms were applied to {src(tgt)[:40]!r}: explain reports the result for the '
                  f'untransformed description, `tally up` classifies the transformed one', c)
    # the regex branch searches the transformed description
    searches = [c for c in fl.calls('search') if dotted(c.func) == 're.search']
    for c in searches:
        a = fl.atoms(c.args[1], c) if len(c.args) > 1 else set()
        ok = f'key:{tname}:description' in a or any(x.startswith('key:') and x.endswith(':description') and 'call:apply_transforms' in a for x in a)
        ok = ok or 'name:transformed_desc' in a
        src_ok = False
        for dn in fl.cfg.defs_reaching(fl.stmt_of(c), 'transformed_desc') if 'name:transformed_desc' in a else []:
            if dn != 'param':
                v = getattr(fl.cfg.stmt[dn], 'value', None)
                if v is not None and (f'key:{tname}:description' in fl.atoms(v, fl.cfg.stmt[dn]) or 'call:apply_transforms' in fl.atoms(v, fl.cfg.stmt[dn])):
                    src_ok = True
        ctx.check(ok and (src_ok or 'name:transformed_desc' not in a), 'C16.R4', ed, 'regex-target', 'regex rules search the transformed description',
                  f're.search target {src(c.args[1]) if len(c.args) > 1 else None!r} does not derive from the transformed transaction', c)
