"""Constant lookup tables (module- or class-level dict / tuple literals) that code dispatches through."""
from __future__ import annotations

import ast
from typing import Dict, Optional


def const_dict(mi, name: str, cls=None) -> Optional[Dict]:
    """{key: value} of a module-level (or class-level, when `cls` is given) dict literal whose keys and values are constants."""
    bodies = [mi.tree.body]
    if cls is not None:
        bodies.insert(0, cls.node.body)
    for body in bodies:
        for n in body:
            tgt = None
            if isinstance(n, ast.Assign) and len(n.targets) == 1 and isinstance(n.targets[0], ast.Name):
                tgt, val = n.targets[0].id, n.value
            elif isinstance(n, ast.AnnAssign) and isinstance(n.target, ast.Name) and n.value is not None:
                tgt, val = n.target.id, n.value
            if tgt == name and isinstance(val, ast.Dict) and all(isinstance(k, ast.Constant) for k in val.keys) and all(isinstance(v, ast.Constant) for v in val.values):
                return {k.value: v.value for k, v in zip(val.keys, val.values)}
    return None


def table_of(e, mi, cls=None):
    """If e is TABLE[x] / TABLE.get(x[, d]) / self.TABLE[x] / self.TABLE.get(x) for a constant dict TABLE: (table dict, key expr); else None."""
    def base_name(b):
        if isinstance(b, ast.Name):
            return b.id
        if isinstance(b, ast.Attribute) and isinstance(b.value, ast.Name) and b.value.id in ('self', 'cls'):
            return b.attr
        return None
    if isinstance(e, ast.Subscript):
        nm = base_name(e.value)
        if nm:
            d = const_dict(mi, nm, cls)
            if d is not None:
                return d, e.slice
    if isinstance(e, ast.Call) and isinstance(e.func, ast.Attribute) and e.func.attr == 'get' and e.args:
        nm = base_name(e.func.value)
        if nm:
            d = const_dict(mi, nm, cls)
            if d is not None:
                return d, e.args[0]
    return None


def const_collection(e, mi, cls=None):
    """Elements of a constant collection: a tuple / list / set literal of constants, frozenset(<such>) / set(<such>) / tuple(<such>), or a
    module- / class-level name (also via self. / cls.) bound once to one.  A constant dict counts by its keys.  None if not constant."""
    def lit(v):
        if isinstance(v, (ast.Tuple, ast.List, ast.Set)) and all(isinstance(x, ast.Constant) for x in v.elts):
            return [x.value for x in v.elts]
        if isinstance(v, ast.Call) and isinstance(v.func, ast.Name) and v.func.id in ('frozenset', 'set', 'tuple', 'list') and len(v.args) == 1 and not v.keywords:
            return lit(v.args[0])
        if isinstance(v, ast.Dict) and all(isinstance(k, ast.Constant) for k in v.keys):
            return [k.value for k in v.keys]
        return None
    direct = lit(e)
    if direct is not None:
        return direct
    name = None
    if isinstance(e, ast.Name):
        name = e.id
    elif isinstance(e, ast.Attribute) and isinstance(e.value, ast.Name) and e.value.id in ('self', 'cls'):
        name = e.attr
    if name is None:
        return None
    bodies = [mi.tree.body]
    if cls is not None:
        bodies.insert(0, cls.node.body)
    for body in bodies:
        for n in body:
            if isinstance(n, ast.Assign) and len(n.targets) == 1 and isinstance(n.targets[0], ast.Name) and n.targets[0].id == name:
                return lit(n.value)
            if isinstance(n, ast.AnnAssign) and isinstance(n.target, ast.Name) and n.target.id == name and n.value is not None:
                return lit(n.value)
    return None
