"""Constant lookup tables (module- or class-level dict / tuple literals) that code dispatches through."""
from __future__ import annotations

import ast
from typing import Dict, Optional


def const_dict(mi, name: str, cls=None) -> Optional[Dict]:
    """{key: value} of a module-level (or class-level, when `cls` is given) dict literal whose keys and values are constants."""
    bodies = [mi.tree.body]
    if cls is not None:
        bodies.insert(0, cls.node.body)
    for body in bodies:
        for n in body:
            tgt = None
            if isinstance(n, ast.Assign) and len(n.targets) == 1 and isinstance(n.targets[0], ast.Name):
                tgt, val = n.targets[0].id, n.value
            elif isinstance(n, ast.AnnAssign) and isinstance(n.target, ast.Name) and n.value is not None:
                tgt, val = n.target.id, n.value
            if tgt == name and isinstance(val, ast.Dict) and all(isinstance(k, ast.Constant) for k in val.keys) and all(isinstance(v, ast.Constant) for v in val.values):
                return {k.value: v.value for k, v in zip(val.keys, val.values)}
    return None


def table_of(e, mi, cls=None):
    """If e is TABLE[x] / TABLE.get(x[, d]) / self.TABLE[x] / self.TABLE.get(x) for a constant dict TABLE: (table dict, key expr); else None."""
    def base_name(b):
        if isinstance(b, ast.Name):
            return b.id
        if isinstance(b, ast.Attribute) and isinstance(b.value, ast.Name) and b.value.id in ('self', 'cls'):
            return b.attr
        return None
    if isinstance(e, ast.Subscript):
        nm = base_name(e.value)
        if nm:
            d = const_dict(mi, nm, cls)
            if d is not None:
                return d, e.slice
    if isinstance(e, ast.Call) and isinstance(e.func, ast.Attribute) and e.func.attr == 'get' and e.args:
        nm = base_name(e.func.value)
        if nm:
            d = const_dict(mi, nm, cls)
            if d is not None:
                return d, e.args[0]
    return None


def const_collection(e, mi, cls=None):
    """Elements of a constant collection: a tuple / list / set literal of constants, frozenset(<such>) / set(<such>) / tuple(<such>), or a
    module- / class-level name (also via self. / cls.) bound once to one.  A constant dict counts by its keys.  None if not constant."""
    def lit(v):
        if isinstance(v, (ast.Tuple, ast.List, ast.Set)) and all(isinstance(x, ast.Constant) for x in v.elts):
            return [x.value for x in v.elts]
        if isinstance(v, ast.Call) and isinstance(v.func, ast.Name) and v.func.id in ('frozenset', 'set', 'tuple', 'list') and len(v.args) == 1 and not v.keywords:
            return lit(v.args[0])
        if isinstance(v, ast.Dict) and all(isinstance(k, ast.Constant) for k in v.keys):
            return [k.value for k in v.keys]
        return None
    direct = lit(e)
    if direct is not None:
        return direct
    name = None
    if isinstance(e, ast.Name):
        name = e.id
    elif isinstance(e, ast.Attribute) and isinstance(e.value, ast.Name) and e.value.id in ('self', 'cls'):
        name = e.attr
    if name is None:
        return None
    bodies = [mi.tree.body]
    if cls is not None:
        bodies.insert(0, cls.node.body)
    for body in bodies:
        for n in body:
            if isinstance(n, ast.Assign) and len(n.targets) == 1 and isinstance(n.targets[0], ast.Name) and n.targets[0].id == name:
                return lit(n.value)
            if isinstance(n, ast.AnnAssign) and isinstance(n.target, ast.Name) and n.target.id == name and n.value is not None:
                return lit(n.value)
    return None


def method_table(e, mi, cls):
    """If e is TABLE[x] / TABLE.get(x) / self.TABLE… for a class-level dict literal whose keys are constants and whose values are all plain
    references to functions defined in the same class body: ({key: method name}, key expr); else None."""
    if cls is None:
        return None
    name, key = None, None
    b = e
    if isinstance(e, ast.Subscript):
        b, key = e.value, e.slice
    elif isinstance(e, ast.Call) and isinstance(e.func, ast.Attribute) and e.func.attr == 'get' and e.args:
        b, key = e.func.value, e.args[0]
    else:
        return None
    if isinstance(b, ast.Name):
        name = b.id
    elif isinstance(b, ast.Attribute) and isinstance(b.value, ast.Name) and b.value.id in ('self', 'cls'):
        name = b.attr
    if name is None:
        return None
    for n in cls.node.body:
        tgt, val = None, None
        if isinstance(n, ast.Assign) and len(n.targets) == 1 and isinstance(n.targets[0], ast.Name):
            tgt, val = n.targets[0].id, n.value
        elif isinstance(n, ast.AnnAssign) and isinstance(n.target, ast.Name) and n.value is not None:
            tgt, val = n.target.id, n.value
        if tgt == name and isinstance(val, ast.Dict) and val.keys and all(isinstance(k, ast.Constant) for k in val.keys) \
                and all(isinstance(v, ast.Name) and v.id in cls.methods for v in val.values):
            return {k.value: v.id for k, v in zip(val.keys, val.values)}, key
    return None


def module_value(mi, name: str):
    """the expression a module-level name is bound to (bound exactly once), or None"""
    found = []
    for n in mi.tree.body:
        if isinstance(n, ast.Assign) and len(n.targets) == 1 and isinstance(n.targets[0], ast.Name) and n.targets[0].id == name:
            found.append(n.value)
        elif isinstance(n, ast.AnnAssign) and isinstance(n.target, ast.Name) and n.target.id == name and n.value is not None:
            found.append(n.value)
    return found[0] if len(found) == 1 else None


def fold_str(e, mi, env=None, depth=0):
    """The string a constant expression denotes, computed from the source text alone (nothing of the analysed program is run): literals,
    `a + b`, f-strings of foldable parts, module-level names bound once, `re.escape(<foldable>)`, `<sep>.join(<elt> for v in <constant
    collection>)` / `.join([<constants>])`, `.upper()/.lower()`.  None when the expression is not of that kind."""
    import re as _re
    env = env or {}
    if depth > 6:
        return None
    if isinstance(e, ast.Constant):
        return e.value if isinstance(e.value, str) else None
    if isinstance(e, ast.Name):
        if e.id in env:
            return env[e.id]
        v = module_value(mi, e.id)
        return fold_str(v, mi, env, depth + 1) if v is not None else None
    if isinstance(e, ast.BinOp) and isinstance(e.op, ast.Add):
        a, b = fold_str(e.left, mi, env, depth + 1), fold_str(e.right, mi, env, depth + 1)
        return a + b if a is not None and b is not None else None
    if isinstance(e, ast.JoinedStr):
        out = ''
        for v in e.values:
            if isinstance(v, ast.FormattedValue):
                if v.conversion != -1 or v.format_spec is not None:
                    return None
                p = fold_str(v.value, mi, env, depth + 1)
            else:
                p = fold_str(v, mi, env, depth + 1)
            if p is None:
                return None
            out += p
        return out
    if isinstance(e, ast.Call) and isinstance(e.func, ast.Attribute) and not e.keywords:
        f = e.func
        if isinstance(f.value, ast.Name) and f.value.id == 're' and f.attr == 'escape' and len(e.args) == 1:
            a = fold_str(e.args[0], mi, env, depth + 1)
            return _re.escape(a) if a is not None else None
        if f.attr in ('upper', 'lower', 'strip') and not e.args:
            a = fold_str(f.value, mi, env, depth + 1)
            return getattr(a, f.attr)() if a is not None else None
        if f.attr == 'join' and len(e.args) == 1:
            sep = fold_str(f.value, mi, env, depth + 1)
            arg = e.args[0]
            if sep is None:
                return None
            if isinstance(arg, (ast.GeneratorExp, ast.ListComp)) and len(arg.generators) == 1 and not arg.generators[0].ifs and isinstance(arg.generators[0].target, ast.Name):
                items = const_collection(arg.generators[0].iter, mi)
                if items is None or not all(isinstance(x, str) for x in items):
                    return None
                parts = [fold_str(arg.elt, mi, dict(env, **{arg.generators[0].target.id: x}), depth + 1) for x in items]
            else:
                items = const_collection(arg, mi)
                parts = list(items) if items is not None and all(isinstance(x, str) for x in items) else [None]
            return sep.join(parts) if all(p is not None for p in parts) else None
    return None
