"""C20 — commands never alter or overwrite the user's statements, rules or settings."""
from __future__ import annotations

import ast
from typing import Dict, List, Optional, Set

from ..callgraph import all_nodes, get_cg
from ..core import Ctx
from ..effects import Effect, effects_in, inventory
from ..flow import arg_of, bound_args, call_name, get_flow
from ..project import AnalysisError, FuncInfo, ancestors, dotted, parent, src

LEVEL = 'other'
READ_ONLY_COMMANDS = {
    'up': 'commands.run.cmd_run',
    'explain': 'commands.explain.cmd_explain',
    'discover': 'commands.discover.cmd_discover',
    'diag': 'commands.diag.cmd_diag',
    'inspect': 'commands.inspect.cmd_inspect',
}
# sanctioned writers per command: function -> kinds
ALLOWED = {
    'up': {
        'commands.run.cmd_run': {'mkdir'},                               # the output directory
        'report.write_summary_file_vue': {'write'},                      # the report files
        'cli._migrate_csv_to_rules': {'write', 'append', 'move'},        # only behind --migrate / an interactive "y" (R3)
    },
    'explain': {}, 'discover': {}, 'diag': {}, 'inspect': {},
}


def check(ctx: Ctx) -> None:
    ctx.rule('C20.R1', 'who may write: the write / delete / move / process / network sinks reachable from up, explain, discover, diag and inspect are a subset of the sanctioned writers', floor=5)
    ctx.rule('C20.R2', 'output confinement: every path written by write_summary_file_vue derives from its filepath parameter, which cmd_run derives from --output or output_dir', floor=5)
    ctx.rule('C20.R3', 'migration is opt-in: _migrate_csv_to_rules is called from `up` only under --migrate or an interactive "y"', floor=3)
    ctx.rule('C20.R4', 'init never clobbers: every file init writes is created only when absent; settings.yaml is only appended to, once; migration only when the CSV exists and merchants.rules does not', floor=8)
    ctx.rule('C20.R5', 'backup kept: the migration moves the original CSV to a new name next to it, never deletes it', floor=2)
    _self_test(ctx)
    r1(ctx)
    r2(ctx)
    r3(ctx)
    r4(ctx)
    r5(ctx)
    r2_budget_root(ctx)


def r2_budget_root(ctx: Ctx) -> None:
    """The budget folder is the parent of the config directory; output and data paths are resolved under it.  A --config given with a trailing slash
    or as a relative path has no reliable parent until it is made absolute: every command normalises it before anything is derived from it."""
    proj = ctx.proj
    n = 0
    for short in ('commands.run.cmd_run', 'commands.explain.cmd_explain', 'commands.discover.cmd_discover', 'commands.diag.cmd_diag'):
        f = proj.funcs.get(f'tally.{short}') or (proj.func(short) if short.rsplit('.', 1)[0] in {m.short for m in proj.modules.values()} else None)
        if f is None:
            continue
        fl = get_flow(proj, f)
        for s in fl.cfg.stmts():
            if isinstance(s, ast.Assign) and len(s.targets) == 1 and isinstance(s.targets[0], ast.Name) and s.targets[0].id == 'config_dir':
                at_ = fl.atoms(s.value, s)
                if not any(a.startswith('attr:args.config') for a in at_):
                    continue
                n += 1
                ok = bool({'call:abspath', 'call:realpath', 'call:resolve'} & at_)
                ctx.check(ok, 'C20.R2', f, 'config-dir-absolute', 'the --config directory is made absolute before its parent is taken as the budget folder',
                          f'{src(s)[:50]!r}: the directory is used as typed; `--config budget/config/` then has `budget/config` as its parent and the report is written to '
                          f'budget/config/output instead of the configured output location', s)
    ctx.need(n >= 2, f'C20.R2: only {n} commands found that take their config directory from --config')


def _self_test(ctx: Ctx) -> None:
    """Positive control: the sink detector must recognise the known writers."""
    proj = ctx.proj
    inv = inventory(proj)
    need = {'tally.cli.init_config', 'tally.cli._migrate_csv_to_rules', 'tally.report.write_summary_file_vue'}
    if not need <= set(inv):
        raise AnalysisError(f'C20 self-test: effect inventory misses known writers {sorted(need - set(inv))}')


def r1(ctx: Ctx) -> None:
    proj = ctx.proj
    cg = get_cg(proj)
    inv = inventory(proj)
    ctx.count('sinks', sum(len(v) for v in inv.values()))
    ctx.notes.append(f'call graph: {cg.resolved}/{cg.total} call sites resolved ({cg.rate():.3%}); unresolved: {cg.unresolved[:5]}')
    if cg.rate() < 0.97:
        raise AnalysisError(f'call resolution rate {cg.rate():.3f} below the measured pinned-tree rate (0.999): reachability would be unsound')
    for cmd, qn in READ_ONLY_COMMANDS.items():
        f = proj.func(qn)
        reach = cg.reachable(f)
        allowed = ALLOWED[cmd]
        n_bad = 0
        for q, effs in sorted(inv.items()):
            if q not in reach:
                continue
            short = q[6:]
            for e in effs:
                if e.kind == 'temp':
                    continue
                ok = short in allowed and e.kind in allowed[short]
                if ok:
                    ctx.ok('C20.R1', f, f'{short}: {e.label} (sanctioned writer)', e.node, f'{cmd}:{short}:{e.kind}')
                else:
                    n_bad += 1
                    path = cg.path(f, q)
                    ctx.fail('C20.R1', f, f'{cmd}:{short}:{e.label}',
                             f'`tally {cmd}` can reach {e.label} in {short} (line {e.node.lineno}) via {" -> ".join(p[6:] for p in path)}: '
                             f'a command that must leave the budget untouched writes / deletes / spawns', e.node, path=path)
        if n_bad == 0 and not allowed:
            ctx.ok('C20.R1', f, f'`tally {cmd}`: no write / delete / move / process / network sink among {len(reach)} reachable functions', construct=f'{cmd}:no-sinks')


def r2(ctx: Ctx) -> None:
    proj = ctx.proj
    ws = proj.func('report.write_summary_file_vue')
    fl = get_flow(proj, ws)
    for e in effects_in(ws):
        a = fl.atoms(e.path, e.node)
        ok = 'param:filepath' in a and not (a & {'param:stats', 'param:sources', 'param:year', 'param:currency_format'})
        # file names next to the report are literals
        consts = sorted(x for x in a if x.startswith("const:'") and x.endswith("'") and '.' in x)
        ctx.check(ok, 'C20.R2', ws, f'path:{src(e.path)[:24]}', f'{e.label}: path derives from the filepath parameter only {consts}',
                  f'{e.label}: path has provenance {sorted(x for x in a if x.startswith(("param:", "global:")))}', e.node)
    run = proj.func('commands.run.cmd_run')
    rfl = get_flow(proj, run)
    for c in rfl.calls('write_summary_file_vue'):
        a = rfl.atoms(c.args[1], c)
        ok = 'attr:args.output' in a and 'key:config:output_dir' in a and 'key:config:html_filename' in a and 'name:config_dir' in a
        foreign = [x for x in a if (x.startswith('key:') and (x.split(':')[1] == 'source' or x.split(':')[-1] in ('file', 'name', 'data_sources')))
                   or x in ('name:data_sources', 'name:source')]
        ctx.check(ok and not foreign, 'C20.R2', run, 'output-path', 'report path = --output, else <budget>/<output_dir>/<html_filename>',
                  f'report path derives from {sorted(x for x in a if x.startswith(("attr:", "key:")))}', c)
    mk = [e for e in effects_in(run) if e.kind == 'mkdir']
    for e in mk:
        a = rfl.atoms(e.path, e.node)
        ctx.check('key:config:output_dir' in a, 'C20.R2', run, 'mkdir', 'the only directory created is the output directory', f'{e.label} creates {src(e.path)!r}', e.node)
    # the report path is never a data / rules / settings file: it is joined under output_dir or given explicitly
    outs = [s for s in rfl.cfg.stmts() if isinstance(s, ast.Assign) and src(s.targets[0]) == 'output_path']
    ok = len(outs) == 2 and any(src(s.value) == 'args.output' for s in outs) and any('os.path.join(output_dir' in src(s.value) for s in outs)
    ctx.check(ok, 'C20.R2', run, 'output-path-defs', 'output_path has exactly the two documented sources', f'output_path is defined as {[src(s.value) for s in outs]}')


def r3(ctx: Ctx) -> None:
    proj = ctx.proj
    cm = proj.func('cli._check_merchant_migration')
    fl = get_flow(proj, cm)
    calls = fl.calls('_migrate_csv_to_rules')
    if len(calls) != 1:
        ctx.unknown('C20.R3', cm, f'{len(calls)} migration calls in _check_merchant_migration')
    c = calls[0]
    st = fl.stmt_of(c)
    g = fl.cfg.guard_literals(st)
    ok = ('should_migrate', True) in g and ("merchants_format == 'csv'", True) in g
    ctx.check(ok, 'C20.R3', cm, 'guard', 'the migration call is under `should_migrate` (and only for CSV rules)', f'migration is called under {sorted(g)}', c)
    # every definition of should_migrate: the migrate parameter, or the interactive answer == 'y', or False
    defs = [s for s in fl.cfg.stmts() if isinstance(s, ast.Assign) and src(s.targets[0]) == 'should_migrate']
    def consent(e, at, depth=0):
        """(is an accepted source of consent, the statement that reads the prompt answer or None).  Accepted: the `migrate` parameter, False,
        `<answer> == 'y'` where the answer comes from input(), or a local every definition of which is accepted."""
        if isinstance(e, ast.Constant) and e.value is False:
            return True, None
        if isinstance(e, ast.Name) and e.id == 'migrate' and 'param' in fl.cfg.defs_reaching(at, 'migrate'):
            return True, None
        if isinstance(e, ast.Compare) and len(e.ops) == 1 and isinstance(e.ops[0], ast.Eq) and isinstance(e.comparators[0], ast.Constant) and e.comparators[0].value in ('y', 'yes'):
            return ('call:input' in fl.atoms(e.left, at)), at
        if isinstance(e, ast.Name) and depth < 3:
            ds = [d for d in fl.cfg.defs_reaching(at, e.id) if d != 'param']
            if not ds:
                return False, None
            prompt_at = None
            for d in ds:
                v_ = getattr(fl.cfg.stmt[d], 'value', None)
                ok_, p_ = consent(v_, fl.cfg.stmt[d], depth + 1) if v_ is not None else (False, None)
                if not ok_:
                    return False, None
                prompt_at = prompt_at or p_
            return True, prompt_at
        return False, None
    for s in defs:
        v = src(s.value).replace(' ', '')
        ok, prompt_at = consent(s.value, s)
        ctx.check(ok, 'C20.R3', cm, f'def:{v[:20]}', f'should_migrate = {src(s.value)}', f'should_migrate = {src(s.value)!r}: migration no longer requires --migrate or an explicit "y"', s)
        if prompt_at is not None:
            gi = fl.cfg.guard_literals(prompt_at)
            ctx.check(('is_interactive', True) in gi, 'C20.R3', cm, 'interactive-only', 'the prompt is only shown on an interactive terminal', 'the prompt answer is used outside interactive mode', s)
    ii = [s for s in fl.cfg.stmts() if isinstance(s, ast.Assign) and src(s.targets[0]) == 'is_interactive']
    ok = bool(ii) and 'sys.stdout.isatty()' in src(ii[0].value) and 'not migrate' in src(ii[0].value)
    ctx.check(ok, 'C20.R3', cm, 'interactive-def', 'interactive = a tty and no --migrate', f'is_interactive = {src(ii[0].value) if ii else None!r}')
    # the flag comes from the command line
    run = proj.func('commands.run.cmd_run')
    rfl = get_flow(proj, run)
    for mc in rfl.calls('_check_merchant_migration'):
        a = arg_of(mc, cm, 'migrate')
        ok = a is not None and src(a).replace(' ', '') == "getattr(args,'migrate',False)"
        ctx.check(ok, 'C20.R3', run, 'flag', "migrate = getattr(args, 'migrate', False)", f'migrate argument is {src(a) if a is not None else None!r}', mc)
    # no other caller of the migration in the read-only commands
    cg = get_cg(proj)
    mg = proj.func('cli._migrate_csv_to_rules')
    callers = sorted({c_.short for c_, _n in cg.callers(mg)})
    ctx.check(set(callers) <= {'cli._check_merchant_migration', 'commands.init.cmd_init'}, 'C20.R3', mg, 'callers', f'migration is called only from {callers}',
              f'migration is also called from {sorted(set(callers) - {"cli._check_merchant_migration", "commands.init.cmd_init"})}')


def r4(ctx: Ctx) -> None:
    proj = ctx.proj
    ic = proj.func('cli.init_config')
    fl = get_flow(proj, ic)
    n = 0
    for e in effects_in(ic):
        if e.kind == 'mkdir':
            ok = any(k.arg == 'exist_ok' and isinstance(k.value, ast.Constant) and k.value.value is True for k in e.node.keywords)
            ctx.check(ok, 'C20.R4', ic, f'mkdir:{src(e.path)}', f'{e.label} with exist_ok (keeps an existing directory)', f'{e.label} without exist_ok', e.node)
            continue
        n += 1
        p = src(e.path)
        g = fl.cfg.guard_literals(fl.stmt_of(e.node))
        ok = any(t.replace(' ', '') == f'notos.path.exists({p})' and tr for t, tr in g) or any(t.replace(' ', '') == f'os.path.exists({p})' and not tr for t, tr in g)
        ctx.check(ok and e.kind == 'write', 'C20.R4', ic, f'create:{p}', f'{p} is written only if it does not exist',
                  f'{e.label} is not guarded by `not os.path.exists({p})`: `tally init` in an existing budget overwrites the user\'s file', e.node)
    ctx.need(n >= 2, f'C20.R4: only {n} file creations found in init_config')
    ci = proj.func('commands.init.cmd_init')
    cfl = get_flow(proj, ci)
    for e in effects_in(ci):
        g = cfl.cfg.guard_literals(cfl.stmt_of(e.node))
        ok = e.kind == 'append' and any("'views_file:' in" in t and not tr for t, tr in g) and any('os.path.exists(settings_path)' in t and tr for t, tr in g)
        ctx.check(ok, 'C20.R4', ci, f'settings:{e.kind}', 'settings.yaml only gains appended lines, once', f'{e.label} under {sorted(g)}', e.node)
    mc = cfl.calls('_migrate_csv_to_rules')
    for c in mc:
        g = cfl.cfg.guard_literals(cfl.stmt_of(c))
        # the third condition "the CSV really contains rules" may be a flag or a call that looks into the CSV
        has_rules = ('has_rules', True) in g or any(tr and t.endswith('(old_csv)') and not t.startswith('os.path.') for t, tr in g)
        ok = ('os.path.exists(old_csv)', True) in g and ('os.path.exists(new_rules)', False) in g and has_rules
        ctx.check(ok, 'C20.R4', ci, 'init-migration', 'init migrates only when the CSV exists (with rules) and merchants.rules does not', f'init migration under {sorted(g)}', c)
        kw = {k: src(v) for k, v in bound_args(proj, ci, c).items()}
        ctx.check(kw.get('backup') == 'True', 'C20.R4', ci, 'init-migration-backup', 'with backup=True', f'init migration called with {kw}', c)
    # old_csv / new_rules are the files in the target config dir
    for var, name in (('old_csv', 'merchant_categories.csv'), ('new_rules', 'merchants.rules')):
        ds = [s for s in cfl.cfg.stmts() if isinstance(s, ast.Assign) and src(s.targets[0]) == var]
        ok = bool(ds) and name in src(ds[0].value) and 'config_dir' in src(ds[0].value)
        ctx.check(ok, 'C20.R4', ci, f'path:{var}', f'{var} = config_dir/{name}', f'{var} = {src(ds[0].value) if ds else None!r}')
    # the migration writes merchants.rules only where none exists (init) / only on request (up) – and settings by append
    mg = proj.func('cli._migrate_csv_to_rules')
    for e in effects_in(mg):
        if e.kind == 'append':
            ctx.ok('C20.R4', mg, f'{e.label}: settings.yaml appended', e.node, 'migration:settings-append')
        if e.kind == 'write':
            a = get_flow(proj, mg).atoms(e.path, e.node)
            ctx.check("const:'merchants.rules'" in a and 'param:config_dir' in a, 'C20.R4', mg, 'migration:target', 'the migration writes config_dir/merchants.rules only', f'{e.label} writes {src(e.path)!r}', e.node)


def r5(ctx: Ctx) -> None:
    proj = ctx.proj
    mg = proj.func('cli._migrate_csv_to_rules')
    fl = get_flow(proj, mg)
    effs = effects_in(mg)
    dels = [e for e in effs if e.kind == 'delete']
    ctx.check(not dels, 'C20.R5', mg, 'no-delete', 'the migration deletes nothing', f'{[e.label for e in dels]}: the original rules are removed instead of kept as a backup', dels[0].node if dels else None)
    moves = [e for e in effs if e.kind == 'move']
    if not moves:
        ctx.fail('C20.R5', mg, 'backup', 'the CSV is neither moved nor kept (no backup step)', mg.node)
    for e in moves:
        d = src(e.dest) if e.dest is not None else ''
        # the backup is the CSV's own path with a .bak suffix (whatever else is appended to keep an older backup): by provenance, not by text
        da = fl.atoms(e.dest, e.node) if e.dest is not None else set()
        ok = e.dest is not None and 'param:csv_file' in da and any(a.startswith('const:') and '.bak' in a for a in da) and 'param:csv_file' in fl.atoms(e.path, e.node)
        ctx.check(ok, 'C20.R5', mg, 'backup', f'original kept as {d}', f'{e.label} -> {d!r}: the original rules are not kept next to the new file', e.node)
        g = fl.cfg.guard_literals(fl.stmt_of(e.node))
        ctx.check(('backup', True) in g, 'C20.R5', mg, 'backup-flag', 'moved only when backup is requested (callers pass backup=True)', f'move under {sorted(g)}', e.node)
