"""C15 — an interrupted or failing migration never loses rules or strands the budget.

The ordered effect sequence of each migration function is extracted along its CFG and checked against the typestate of
what load_config can discover (merchants_file setting first, else config/merchant_categories.csv, else nothing).
"""
from __future__ import annotations

import ast
from typing import Dict, List, Optional, Set

from ..callgraph import all_nodes
from ..cfg import CFG, ENTRY, EXIT
from ..core import Ctx
from ..effects import Effect, effects_in
from ..flow import call_name, get_flow
from ..project import AnalysisError, FuncInfo, ancestors, dotted, parent, src

LEVEL = 'other'


def check(ctx: Ctx) -> None:
    ctx.rule('C15.R1', 'pointer before destroy: the CSV is moved away only after the settings reference the new rules file (or load_config finds it by itself)', floor=2)
    ctx.rule('C15.R2', 'nothing that can fail follows the destructive step inside the migration (a failure there leaves the budget without discoverable rules)', floor=1)
    ctx.rule('C15.R3', 'no overwrite by move: the destination of every move / rename is tested for non-existence on a dominating path', floor=3)
    ctx.rule('C15.R4', 'the schema marker is written after every move of the layout migration', floor=1)
    ctx.rule('C15.R5', 'settings.yaml is only ever appended to outside init_config\'s not-exists guard', floor=3)
    proj = ctx.proj
    mg = proj.func('cli._migrate_csv_to_rules')
    r1_r2(ctx, mg)
    r3(ctx)
    r6_no_delete(ctx)
    r2_fallback_on_failure(ctx)
    r4(ctx)
    r5(ctx)


def _discovery_order(ctx: Ctx) -> None:
    """load_config: merchants_file setting first, else config/merchant_categories.csv, else nothing; never config/merchants.rules by itself."""
    proj = ctx.proj
    lc = proj.func('config_loader.load_config')
    from ._config import config_stores
    lfl = get_flow(proj, lc)
    stores = [(g, v) for g, v in config_stores(lfl, '_merchants_file') if not (isinstance(v, ast.Constant) and v.value is None)]
    if not stores:
        ctx.unknown('C15.R1', lc, "no store to config['_merchants_file'] found in load_config")
    setting_first = csv_else = False
    for g, v in stores:
        lits = dict(lfl.cfg.guard_literals(g))
        at = lfl.atoms(v, g)
        if lits.get('merchants_file') is True and 'key:config:merchants_file' in at:
            setting_first = True
        if lits.get('merchants_file') is False and "const:'merchant_categories.csv'" in at:
            csv_else = True
    ctx.check(setting_first and csv_else, 'C15.R1', lc, 'discovery-order', 'rules are discovered from the merchants_file setting, else from config/merchant_categories.csv',
              'load_config no longer discovers rules as (setting, else legacy CSV): the typestate model of the migration check does not apply')
    auto = any(isinstance(n, ast.Constant) and n.value == 'merchants.rules' for n in ast.walk(lc.node))
    if auto:
        # the new file is authoritative as soon as it exists: then it must never exist half-written
        # (otherwise a crash during the migration's first write leaves a budget that classifies with a truncated rule set while the complete CSV is still there)
        mg = proj.func('cli._migrate_csv_to_rules')
        fl = get_flow(proj, mg)
        direct = [e for e in effects_in(mg) if e.kind == 'write' and "const:'merchants.rules'" in fl.atoms(e.path, e.node)]
        atomic = any(e.kind == 'move' and e.dest is not None and "const:'merchants.rules'" in fl.atoms(e.dest, e.node) for e in effects_in(mg))
        if direct and not atomic:
            ctx.fail('C15.R1', lc, 'discoverable-before-complete',
                     'load_config now prefers config/merchants.rules whenever the file exists, but the migration creates that file by writing it in place (open(..., "w")): '
                     'interrupted during that write, the budget classifies with an empty / truncated merchants.rules although the complete CSV is still on disk, and re-running does not '
                     'repair it (the format is seen as new; init skips the migration because the file exists)', direct[0].node)
        else:
            ctx.ok('C15.R1', lc, 'auto-discovered merchants.rules is created atomically (temp file + rename)', construct='discoverable-before-complete')
    return auto


def r1_r2(ctx: Ctx, mg: FuncInfo) -> None:
    proj = ctx.proj
    auto_discovers_new = _discovery_order(ctx)
    fl = get_flow(proj, mg)
    cfg = fl.cfg
    effs = effects_in(mg)
    writes = [e for e in effs if e.kind == 'write' and 'merchants.rules' in ''.join(sorted(fl.atoms(e.path, e.node)))]
    moves = [e for e in effs if e.kind in ('move', 'delete') and 'param:csv_file' in fl.atoms(e.path, e.node)]
    appends = [e for e in effs if e.kind in ('append', 'write') and "const:'settings.yaml'" in fl.atoms(e.path, e.node)]
    if not writes or not moves:
        ctx.unknown('C15.R1', mg, f'effects of the migration not recognised: {[e.label for e in effs]}')
    if not appends and not auto_discovers_new:
        ctx.fail('C15.R1', mg, 'settings-pointer', 'the migration never makes the new rules file discoverable (no merchants_file entry is written)', mg.node)
        return
    w, mv = writes[0], moves[0]
    nid = lambda e: cfg.nid(fl.stmt_of(e.node))
    # write before move
    ok = cfg.dominates(nid(w), nid(mv))
    ctx.check(ok, 'C15.R1', mg, 'order:write-before-move', 'the new rules file is written before the CSV is moved away', 'the CSV can be moved away before merchants.rules exists', mv.node)
    # no settings append reachable after the move (i.e. the pointer is in place when the CSV disappears)
    later = [a for a in appends if cfg.reachable_without(nid(mv), nid(a), set())]
    if later and not auto_discovers_new:
        a = later[0]
        ctx.fail('C15.R1', mg, 'order:pointer-before-destroy',
                 f'effect order is write merchants.rules (line {w.node.lineno}) -> move CSV to .bak (line {mv.node.lineno}) -> append merchants_file to settings.yaml (line {a.node.lineno}). '
                 f'Interrupted (or failing) between the last two, the budget has neither the CSV nor a settings entry: load_config discovers no rules, every transaction becomes Unknown, '
                 f'and re-running does not repair it (init/up only migrate when the CSV exists)', mv.node)
    else:
        ctx.ok('C15.R1', mg, 'the settings entry is in place before the CSV is moved away', mv.node, 'order:pointer-before-destroy')
    # R2: fallible effects after the destructive step
    after = [e for e in effs if e is not mv and cfg.reachable_without(nid(mv), nid(e), set()) and nid(e) != nid(mv)]
    reads_after = []
    for n in all_nodes(mg.node):
        if isinstance(n, ast.Call) and isinstance(n.func, ast.Name) and n.func.id == 'open' and fl.cfg.has(n):
            s = cfg.nid(fl.stmt_of(n))
            if s != nid(mv) and cfg.reachable_without(nid(mv), s, set()):
                reads_after.append(n)
    if after or reads_after:
        what = [e.label for e in after] + [f'open@{n.lineno}' for n in reads_after if all(n is not e.node for e in after)]
        ctx.fail('C15.R2', mg, 'fallible-after-destroy',
                 f'{what} can raise OSError after the CSV has been moved: the broad handler returns False and _check_merchant_migration goes on with get_all_rules(<moved csv path>) '
                 f'-> zero rules while the user\'s rules still exist on disk as .bak', mv.node)
    else:
        ctx.ok('C15.R2', mg, 'the move is the last fallible effect of the migration', mv.node, 'fallible-after-destroy')
    # on failure the caller keeps using the CSV: only sound if the CSV is still there, i.e. R2
    cm = proj.func('cli._check_merchant_migration')
    ok = any(isinstance(n, ast.If) and isinstance(n.test, ast.Call) and call_name(n.test) == '_migrate_csv_to_rules' for n in ast.walk(cm.node))
    ctx.check(ok, 'C15.R2', cm, 'caller-checks-result', 'the caller uses the new file only when the migration reports success', 'the caller ignores the migration result')
    # the settings append does not duplicate
    for a in appends:
        g = cfg.guard_literals(fl.stmt_of(a.node))
        ok = any("'merchants_file:' in" in t and not tr for t, tr in g) and a.kind == 'append'
        ctx.check(ok, 'C15.R1', mg, 'pointer:idempotent', 'merchants_file is appended only when absent', f'settings update {a.label} under {sorted(g)}', a.node)
    # the handler reports failure
    rets = [r for r in ast.walk(mg.node) if isinstance(r, ast.Return) and isinstance(r.value, ast.Constant)]
    ok = any(r.value.value is False and any(isinstance(a, ast.ExceptHandler) for a in ancestors(r)) for r in rets) and any(r.value.value is True for r in rets)
    ctx.check(ok, 'C15.R2', mg, 'reports-failure', 'failure is reported to the caller (returns False)', 'migration failure is not reported')


def r3(ctx: Ctx) -> None:
    proj = ctx.proj
    n = 0
    for qn in ('cli._migrate_csv_to_rules', 'cli.migrate_v0_to_v1'):
        f = proj.func(qn)
        fl = get_flow(proj, f)
        for e in effects_in(f):
            if e.kind != 'move' or e.dest is None:
                continue
            n += 1
            st = fl.stmt_of(e.node)
            # a directory relocated entry by entry is, between two entries, half here and half there
            walked = sorted(a for a in fl.atoms(e.path, e.node) if a in ('call:listdir', 'call:scandir', 'call:iterdir', 'call:glob', 'call:walk', 'call:rglob'))
            if walked:
                ctx.fail('C15.R3', f, f'piecewise:{src(e.path)[:30]}',
                         f'shutil.move({src(e.path)}, …) moves the entries of a directory one at a time ({walked[0][5:]}): after an interruption or a failing move both the old and the new '
                         f'directory exist with part of the files each; the next command picks one of them and classifies with an empty rule set while the rules are on disk in the other', e.node)
            g = fl.cfg.guard_literals(st)
            dst = src(e.dest)
            names = {dst}
            ok = any((t.replace(' ', '') in (f'os.path.exists({dst})'.replace(' ', ''), f'os.path.lexists({dst})'.replace(' ', ''), f'os.path.isdir({dst})'.replace(' ', '')) and not tr)
                     or (t.replace(' ', '') == f'notos.path.exists({dst})'.replace(' ', '') and tr) for t, tr in g)
            if not ok and isinstance(e.dest, ast.Name):
                # the destination was *chosen* as the first name that does not exist: `next(p for p in candidates if not os.path.exists(p))`
                ds_ = [fl.cfg.stmt.get(d_) for d_ in fl.cfg.defs_reaching(st, e.dest.id) if d_ != 'param']
                def first_free(v_):
                    if not (isinstance(v_, ast.Call) and call_name(v_) == 'next' and v_.args and isinstance(v_.args[0], ast.GeneratorExp) and len(v_.args) == 1):
                        return False
                    ge = v_.args[0]
                    var = ge.elt.id if isinstance(ge.elt, ast.Name) else None
                    tests = [src(c_).replace(' ', '') for g_ in ge.generators for c_ in g_.ifs]
                    return var is not None and any(t_ in (f'notos.path.exists({var})', f'notos.path.lexists({var})') for t_ in tests)
                ok = bool(ds_) and all(isinstance(s_, ast.Assign) and first_free(s_.value) for s_ in ds_)
            label = f'move:{src(e.path)[:24]}->{dst[:24]}'
            if ok:
                ctx.ok('C15.R3', f, f'{label}: destination tested for non-existence', e.node, label)
            else:
                ctx.fail('C15.R3', f, label,
                         f'shutil.move({src(e.path)}, {dst}) without testing that {dst} does not exist: an existing file is silently overwritten (a previous .bak backup is lost) and an existing '
                         f'directory makes shutil.move nest the source inside it (config -> tally/config/config)', e.node)
    ctx.need(not (n < 3), f'C15.R3: only {n} moves found')


def r2_fallback_on_failure(ctx: Ctx) -> None:
    """A migration that failed (I/O error while writing merchants.rules) leaves the run on the CSV rules: the freshly written file is only read back
    where `_migrate_csv_to_rules(…)` is known to have returned true."""
    proj = ctx.proj
    f = proj.func('cli._check_merchant_migration')
    fl = get_flow(proj, f)
    mig = [c for c in fl.calls('_migrate_csv_to_rules')]
    if not mig:
        ctx.unknown('C15.R2', f, '_check_merchant_migration no longer calls _migrate_csv_to_rules')
    flags = {src(c) for c in mig}
    for c in mig:
        st = fl.stmt_of(c)
        if isinstance(st, ast.Assign) and len(st.targets) == 1 and isinstance(st.targets[0], ast.Name) and st.value is c:
            flags.add(st.targets[0].id)
    n = 0
    for c in fl.calls('get_all_rules'):
        if not c.args:
            continue
        at_ = fl.atoms(c.args[0], c)
        if "const:'merchants.rules'" not in at_ or 'key:config:_merchants_file' in at_:
            continue
        if not any(fl.cfg.reachable_without(fl.cfg.nid(fl.stmt_of(m)), fl.cfg.nid(fl.stmt_of(c)), set()) for m in mig):
            continue
        n += 1
        g = fl.cfg.guard_literals(fl.stmt_of(c))
        ok = any(tr and t in flags for t, tr in g)
        ctx.check(ok, 'C15.R2', f, 'read-back-after-success', 'the migrated file is read back only after a successful migration',
                  f'{src(c)[:60]!r} is reached whether or not the migration succeeded (guards {sorted(g)}): when writing merchants.rules fails, the run classifies with an '
                  f'empty rule set although merchant_categories.csv is untouched', c)
    if n == 0:
        ctx.unknown('C15.R2', f, 'no read-back of the freshly migrated merchants.rules found after the migration call')


def r6_no_delete(ctx: Ctx) -> None:
    proj = ctx.proj
    for qn in ('cli.migrate_v0_to_v1', 'cli.run_migrations'):
        f = proj.func(qn)
        dels = [e for e in effects_in(f) if e.kind == 'delete']
        copies = [e for e in effects_in(f) if e.api in ('shutil.copytree', 'shutil.copy', 'shutil.copy2', 'shutil.copyfile')]
        if dels:
            ctx.fail('C15.R3', f, f'delete:{dels[0].api}',
                     f'{dels[0].label} (line {dels[0].node.lineno})' + (f' after {copies[0].api}' if copies else '') + ': the layout migration removes user files instead of renaming them; a crash or an '
                     f'unlink error during the delete leaves a stump ./config next to the complete ./tally/config, find_config_dir prefers the stump, and re-running fails because the target exists', dels[0].node)
        else:
            ctx.ok('C15.R3', f, 'the layout migration only moves (renames) directories, it deletes nothing', construct='delete:none')


def r4(ctx: Ctx) -> None:
    proj = ctx.proj
    f = proj.func('cli.migrate_v0_to_v1')
    fl = get_flow(proj, f)
    cfg = fl.cfg
    effs = effects_in(f)
    marker = [e for e in effs if e.kind == 'write' and 'schema' in src(e.path)]
    moves = [e for e in effs if e.kind == 'move']
    if not marker or not moves:
        ctx.unknown('C15.R4', f, 'schema marker write / moves not found')
    nid = lambda e: cfg.nid(fl.stmt_of(e.node))
    bad = [m for m in moves if cfg.reachable_without(nid(marker[0]), nid(m), set())]
    ctx.check(not bad, 'C15.R4', f, 'marker-last', 'no move is reachable after the schema marker has been written',
              'a move can still happen after the marker says the migration is complete', marker[0].node)
    # marker inside the new config dir
    # marker inside the new config dir: its path is built from everything the destination of the config move is built from
    param = f.node.args.args[0].arg
    cmoves = [m for m in effs if isinstance(m.node, ast.Call) and len(m.node.args) >= 2 and (dotted(m.node.func) or '').startswith('shutil.')
              and f'param:{param}' in fl.atoms(m.node.args[0], m.node)]
    if len(cmoves) != 1:
        ctx.unknown('C15.R4', f, f'{len(cmoves)} moves of the old config directory')
    strip = lambda at: {a for a in at if not a.startswith('name:')}
    dest = strip(fl.atoms(cmoves[0].node.args[1], cmoves[0].node))
    ok = bool(dest) and dest <= strip(fl.atoms(marker[0].path, marker[0].node))
    ctx.check(ok, 'C15.R4', f, 'marker-location', 'marker is written into the new config directory', 'marker is not written into the migrated config directory')


def r5(ctx: Ctx) -> None:
    proj = ctx.proj
    n = 0
    for f in proj.all_funcs():
        fl = None
        for e in effects_in(f):
            if e.path is None:
                continue
            fl = fl or get_flow(proj, f)
            at = fl.atoms(e.path, e.node)
            if "const:'settings.yaml'" not in at and not any(x.startswith("const:") and 'settings' in x and 'yaml' in x for x in at):
                continue
            n += 1
            st = fl.stmt_of(e.node)
            g = fl.cfg.guard_literals(st)
            p = src(e.path)
            fresh_only = any(t.replace(' ', '') == f'notos.path.exists({p})'.replace(' ', '') and tr for t, tr in g) or \
                any(t.replace(' ', '') == f'os.path.exists({p})'.replace(' ', '') and not tr for t, tr in g)
            if e.kind == 'append':
                ctx.ok('C15.R5', f, f'{e.label}: append only', e.node, f'settings:{e.kind}')
            elif e.kind == 'write' and fresh_only:
                ctx.ok('C15.R5', f, f'{e.label}: created only when it does not exist', e.node, f'settings:{e.kind}')
            else:
                ctx.fail('C15.R5', f, f'settings:{e.kind}', f'{e.label} rewrites / removes an existing settings.yaml (user settings and comments are lost if interrupted)', e.node)
    ctx.need(not (n < 3), f'C15.R5: only {n} settings.yaml write sites found')
