"""C14 — migrating merchant_categories.csv to merchants.rules preserves classification."""
from __future__ import annotations

import ast
import copy
import re
from typing import Dict, List, Optional, Set, Tuple

from ..callgraph import all_nodes
from ..cfg import conj_atoms
from ..core import Ctx
from ..flow import call_name, get_flow
from ..project import AnalysisError, FuncInfo, ancestors, dotted, parent, src

LEVEL = 'other'
CONVERTERS = ['merchant_engine.csv_rule_to_merchant_rule', 'merchant_engine.csv_to_merchants_content']


def fparts(js: ast.JoinedStr) -> List[Tuple[str, object]]:
    out = []
    for v in js.values:
        if isinstance(v, ast.Constant):
            out.append(('const', v.value))
        elif isinstance(v, ast.FormattedValue):
            out.append(('hole', v.value))
    return out


def holes_in_quotes(js: ast.JoinedStr) -> List[Tuple[ast.AST, bool]]:
    """(hole expression, is it inside a double-quoted literal of the generated text)"""
    out = []
    inside = False
    for kind, v in fparts(js):
        if kind == 'const':
            for i, ch in enumerate(v):
                if ch == '"' and (i == 0 or v[i - 1] != '\\'):
                    inside = not inside
        else:
            out.append((v, inside))
    return out


def escapes_for_string_literal(proj, f: FuncInfo, fl, e, at) -> Tuple[bool, str]:
    """Does the value of e pass a sanitiser that escapes backslash and double quote (in that order)?"""
    # direct: x.replace('\\', '\\\\').replace('"', '\\"')  or a helper whose body does so, or repr()/json.dumps
    def chain_ok(expr) -> bool:
        reps = []
        cur = expr
        while isinstance(cur, ast.Call) and isinstance(cur.func, ast.Attribute) and cur.func.attr == 'replace' and len(cur.args) == 2:
            reps.append(cur)
            cur = cur.func.value
        reps = list(reversed(reps))
        pairs = [(a.args[0].value, a.args[1].value) for a in reps if isinstance(a.args[0], ast.Constant) and isinstance(a.args[1], ast.Constant)]
        has_bs = ('\\', '\\\\') in pairs
        has_q = ('"', '\\"') in pairs
        if has_bs and has_q:
            return pairs.index(('\\', '\\\\')) < pairs.index(('"', '\\"'))
        return False

    if chain_ok(e):
        return True, ''
    if isinstance(e, ast.Call) and isinstance(e.func, ast.Name):
        r = proj.resolve_name(f.module, e.func.id)
        if r and r[0] == 'func':
            g = r[1]
            rets = [x for x in ast.walk(g.node) if isinstance(x, ast.Return) and x.value is not None]
            if rets and all(chain_ok(x.value) for x in rets):
                return True, ''
            return False, f'helper {g.name}() does not escape backslash then double quote'
    if isinstance(e, ast.Name) and fl.cfg.has(at):
        defs = fl.cfg.defs_reaching(fl.stmt_of(at), e.id)
        vals = []
        for d in defs:
            if d == 'param':
                return False, f'{e.id} is used as received'
            s = fl.cfg.stmt[d]
            v = getattr(s, 'value', None)
            if isinstance(s, ast.Assign) and isinstance(s.targets[0], ast.Name) and v is not None:
                vals.append((v, s))
            else:
                return False, f'{e.id} comes from {src(s)[:50]!r} unescaped'
        oks = [escapes_for_string_literal(proj, f, fl, v, s) for v, s in vals]
        if oks and all(o[0] for o in oks):
            return True, ''
        return False, (oks[0][1] if oks else 'no definition')
    return False, f'{src(e)[:40]!r} is interpolated without escaping \\ and "'


def check(ctx: Ctx) -> None:
    proj = ctx.proj
    ctx.rule('C14.R1', 'literal-context escaping: a value interpolated inside "…" of generated rule text is escaped for a string literal (backslash, then double quote)', floor=2)
    ctx.rule('C14.R2', 'operator tables agree: every operator modifier_parser can produce is handled by the legacy evaluator and rendered as a condition by the converter', floor=10)
    ctx.rule('C14.R3', 'per-operator meaning agrees between the legacy evaluator branch and the emitted expression', floor=8)
    ctx.rule('C14.R4', 'writer within reader domain: whatever the CSV loader accepts is expressible in a .rules file the loader accepts', floor=2)
    ctx.rule('C14.R6', 'one generated block per CSV rule, in order: the rule loops of the converters have no skip, and the block header is emitted exactly once on every path', floor=2)
    ctx.rule('C14.R5', 'the two converters build the same match expression; migration and load_csv_as_engine use them', floor=3)
    r1(ctx)
    ops = r2(ctx)
    r3(ctx, ops)
    r4(ctx)
    r4_encoding(ctx)
    r3_values_verbatim(ctx)
    r5(ctx)
    r6(ctx)


def r1(ctx: Ctx) -> None:
    proj = ctx.proj
    n = 0
    for qn in CONVERTERS + ['merchant_engine._modifier_to_expr']:
        f = proj.func(qn)
        fl = get_flow(proj, f)
        for js in [x for x in all_nodes(f.node) if isinstance(x, ast.JoinedStr)]:
            for hole, inside in holes_in_quotes(js):
                if not inside:
                    continue
                n += 1
                a = fl.atoms(hole, js)
                if 'call:isoformat' in a:
                    ctx.ok('C14.R1', f, f'date literal {src(hole)} (isoformat: digits and dashes only)', js, f'hole:{src(hole)[:30]}')
                    continue
                ok, why = escapes_for_string_literal(proj, f, fl, hole, js)
                ctx.check(ok, 'C14.R1', f, f'hole:{src(hole)[:30]}', f'{src(hole)} is escaped for the string literal it is written into',
                          f'{src(js)[:50]!r}: {why}. The generated match expression is read back as a Python string literal, so `\\bUBER\\b` becomes backspace-UBER-backspace, '
                          f'`(A)\\1` changes meaning and a pattern containing `"` makes the generated file unloadable', js)
    ctx.need(not (n < 2), f'C14.R1: only {n} quoted interpolation sites found')


def _constructed_operators(proj) -> Dict[str, Set[str]]:
    mp = proj.module('modifier_parser')
    out = {'AmountCondition': set(), 'DateCondition': set()}
    for f in [x for x in proj.all_funcs() if x.module is mp]:
        for n in all_nodes(f.node):
            if isinstance(n, ast.Call) and call_name(n) in out:
                for kw in n.keywords:
                    if kw.arg == 'operator' and isinstance(kw.value, ast.Constant):
                        out[call_name(n)].add(kw.value.value)
    return out


def _branch_table(f: FuncInfo, subject: str) -> Dict[str, ast.AST]:
    """literal -> first statement of the branch `if <subject> == literal`"""
    out = {}
    for n in ast.walk(f.node):
        if isinstance(n, ast.If) and isinstance(n.test, ast.Compare) and src(n.test.left) == subject and len(n.test.ops) == 1 \
                and isinstance(n.test.ops[0], ast.Eq) and isinstance(n.test.comparators[0], ast.Constant):
            out[n.test.comparators[0].value] = n
    # … or a dispatch on a constant table of comparison functions:  cmp = TABLE.get(<subject>) ; return cmp(a, b)   with TABLE = {'>': operator.gt, …}
    from ._tables import module_value
    OPS = {'gt': ast.Gt, 'ge': ast.GtE, 'lt': ast.Lt, 'le': ast.LtE, 'eq': ast.Eq, 'ne': ast.NotEq}
    for st in ast.walk(f.node):
        if not (isinstance(st, ast.Assign) and len(st.targets) == 1 and isinstance(st.targets[0], ast.Name)):
            continue
        v = st.value
        key = tbl = None
        if isinstance(v, ast.Call) and isinstance(v.func, ast.Attribute) and v.func.attr == 'get' and isinstance(v.func.value, ast.Name) and v.args:
            tbl, key = v.func.value.id, v.args[0]
        elif isinstance(v, ast.Subscript) and isinstance(v.value, ast.Name):
            tbl, key = v.value.id, v.slice
        if tbl is None or src(key) != subject:
            continue
        tv = module_value(f.module, tbl)
        if not isinstance(tv, ast.Dict):
            continue
        calls = [c for c in ast.walk(f.node) if isinstance(c, ast.Call) and isinstance(c.func, ast.Name) and c.func.id == st.targets[0].id and len(c.args) == 2]
        rets = [r for r in ast.walk(f.node) if isinstance(r, ast.Return) and r.value is not None and any(r.value is c for c in calls)]
        if not rets:
            continue
        a, b = rets[0].value.args
        for k_, fn_ in zip(tv.keys, tv.values):
            name = fn_.attr if isinstance(fn_, ast.Attribute) else fn_.id if isinstance(fn_, ast.Name) else None
            if isinstance(k_, ast.Constant) and name in OPS and k_.value not in out:
                cmp_ = ast.Compare(left=a, ops=[OPS[name]()], comparators=[b])
                ret_ = ast.copy_location(ast.Return(value=ast.copy_location(cmp_, rets[0].value)), rets[0])
                syn = ast.If(test=ast.Compare(left=key, ops=[ast.Eq()], comparators=[k_]), body=[ret_], orelse=[])
                out[k_.value] = ast.fix_missing_locations(ast.copy_location(syn, rets[0]))
    return out


def r2(ctx: Ctx):
    proj = ctx.proj
    made = _constructed_operators(proj)
    if len(made['AmountCondition']) < 5 or len(made['DateCondition']) < 3:
        ctx.unknown('C14.R2', 'modifier_parser', f'operators constructed: {made}')
    ea = proj.func('modifier_parser.evaluate_amount_condition')
    ed = proj.func('modifier_parser.evaluate_date_condition')
    ta = _branch_table(ea, 'condition.operator')
    td = _branch_table(ed, 'condition.operator')
    conv = proj.func('merchant_engine._modifier_to_expr')
    # converter: two loops, each with an if/elif chain on cond.operator, possibly a generic else
    loops = [s for s in conv.node.body if isinstance(s, ast.For)]
    tables = {}
    for lp in loops:
        kind = 'AmountCondition' if 'amount_conditions' in src(lp.iter) else 'DateCondition' if 'date_conditions' in src(lp.iter) else None
        if kind is None:
            continue
        if isinstance(lp.target, ast.Name) and lp.target.id != 'cond':
            # the rules below are written on a loop variable called `cond`
            lp = copy.deepcopy(lp)
            var = lp.target.id
            for n in ast.walk(lp):
                if isinstance(n, ast.Name) and n.id == var:
                    n.id = 'cond'
        branches = {}
        generic = None
        cur = lp.body[0] if lp.body and isinstance(lp.body[0], ast.If) else None
        while isinstance(cur, ast.If):
            t = cur.test
            if isinstance(t, ast.Compare) and src(t.left) == 'cond.operator' and isinstance(t.comparators[0], ast.Constant):
                branches[t.comparators[0].value] = cur.body
            if len(cur.orelse) == 1 and isinstance(cur.orelse[0], ast.If):
                cur = cur.orelse[0]
            else:
                generic = cur.orelse or None
                cur = None
        tables[kind] = (branches, generic)
    if set(tables) != {'AmountCondition', 'DateCondition'}:
        ctx.unknown('C14.R2', conv, 'converter loops over amount_conditions / date_conditions not found')
    for kind, ev, evf in (('AmountCondition', ta, ea), ('DateCondition', td, ed)):
        branches, generic = tables[kind]
        for op in sorted(made[kind]):
            ctx.check(op in ev, 'C14.R2', evf, f'evaluator:{kind}:{op}', f'legacy evaluator handles {op!r}', f'operator {op!r} is produced by the parser but not handled by {evf.name} (always False)')
            body = branches.get(op) or generic
            if body is None:
                ctx.fail('C14.R2', conv, f'converter:{kind}:{op}', f'operator {op!r} is produced by the CSV parser but not rendered by _modifier_to_expr: the condition is silently dropped', conv.node)
                continue
            texts = [n for s in body for n in ast.walk(s) if isinstance(n, ast.JoinedStr)]
            as_comment = any(fparts(js) and fparts(js)[0][0] == 'const' and fparts(js)[0][1].lstrip().startswith('#') for js in texts)
            if as_comment or not texts:
                ctx.fail('C14.R2', conv, f'converter:{kind}:{op}',
                         f'operator {op!r} is rendered as a comment ({src(texts[0])[:50] if texts else "nothing"!r}), not as a condition: a rule `X[date:last30days]` loses its date restriction '
                         f'after migration, and combined with another modifier the generated `… and # Note…` does not even load', body[0])
            else:
                ctx.ok('C14.R2', conv, f'{op!r} rendered as {src(texts[0])[:50]}', body[0], f'converter:{kind}:{op}')
    return tables


# --- R3: meaning ------------------------------------------------------------
def _template_term(js: ast.JoinedStr):
    """Replace holes by symbols and parse the resulting expression text."""
    text = ''
    syms = {}
    for kind, v in fparts(js):
        if kind == 'const':
            text += v
        else:
            s = src(v)
            name = s.replace('cond.', '').replace('.isoformat()', '').replace('.', '_')
            syms[name] = s
            text += f'H_{name}'
    text = text.replace('"', '')
    try:
        return ast.parse(text, mode='eval').body, syms
    except SyntaxError:
        return None, syms


def _norm_cmp(e, subj_names: Set[str]):
    """normalise a comparison / conjunction into a frozenset of (op, lhs, rhs) triples with the subject on the left"""
    out = set()

    def sym(x):
        s = src(x)
        s = s.replace('condition.', '').replace('cond.', '').replace('H_', '')
        s = s.replace('txn_date.month', 'month').replace('txn_date', 'date')
        return s

    def add(op, a, b):
        flip = {ast.Gt: ast.Lt, ast.Lt: ast.Gt, ast.GtE: ast.LtE, ast.LtE: ast.GtE, ast.Eq: ast.Eq, ast.NotEq: ast.NotEq}
        if sym(b) in subj_names and sym(a) not in subj_names:
            a, b, op = b, a, flip[type(op)]()
        out.add((type(op).__name__, sym(a), sym(b)))

    def walk(x):
        if isinstance(x, ast.BoolOp) and isinstance(x.op, ast.And):
            for v in x.values:
                walk(v)
        elif isinstance(x, ast.Compare):
            left = x.left
            for op, c in zip(x.ops, x.comparators):
                add(op, left, c)
                left = c
        else:
            out.add(('expr', src(x), ''))
    walk(e)
    return frozenset(out)


def r3(ctx: Ctx, tables) -> None:
    proj = ctx.proj
    conv = proj.func('merchant_engine._modifier_to_expr')
    for kind, evq, subj in (('AmountCondition', 'modifier_parser.evaluate_amount_condition', {'amount'}),
                            ('DateCondition', 'modifier_parser.evaluate_date_condition', {'date', 'month'})):
        evf = proj.func(evq)
        ev = _branch_table(evf, 'condition.operator')
        branches, generic = tables[kind]
        made = _constructed_operators(proj)[kind]
        for op in sorted(made):
            evb = ev.get(op)
            body = branches.get(op) or generic
            if evb is None or body is None:
                continue
            rets = [r for r in ast.walk(evb.body[0] if len(evb.body) == 1 else ast.Module(body=evb.body, type_ignores=[])) if isinstance(r, ast.Return)]
            if not rets:
                rets = [r for s in evb.body for r in ast.walk(s) if isinstance(r, ast.Return)]
            texts = [n for s in body for n in ast.walk(s) if isinstance(n, ast.JoinedStr)]
            if not rets or not texts:
                continue
            tmpl, syms = _template_term(texts[0])
            want = _norm_cmp(rets[-1].value, subj)
            if tmpl is None and not (body is generic and op not in branches):
                continue       # reported by R2 (comment)
            got = _norm_cmp(tmpl, subj) if tmpl is not None else frozenset()
            if body is generic and op not in branches:
                # generic arm passes the operator text through: `amount {cond.operator} {cond.value}`
                passthrough = any(src(h) == 'cond.operator' for k, h in fparts(texts[0]) if k == 'hole')
                same = want == frozenset({({'>': 'Gt', '>=': 'GtE', '<': 'Lt', '<=': 'LtE'}.get(op, '?'), 'amount', 'value')})
                ctx.check(passthrough and same, 'C14.R3', conv, f'meaning:{kind}:{op}', f'{op!r}: emitted `amount {op} value`, evaluator `{src(rets[-1].value)}`',
                          f'{op!r}: evaluator computes `{src(rets[-1].value)}` but the converter emits {src(texts[0])[:50]!r}', body[0])
                continue
            ctx.check(want == got, 'C14.R3', conv, f'meaning:{kind}:{op}', f'{op!r}: emitted {src(texts[0])[:50]} means `{src(rets[-1].value)}`',
                      f'{op!r}: the CSV matcher evaluates `{src(rets[-1].value)}` but the generated rule says {src(texts[0])[:60]!r} '
                      f'({sorted(want)} vs {sorted(got)}): e.g. COSTCO[amount=50] matches 50.004 in the CSV and not after migration', body[0])
    # conditions are AND-ed on both sides
    rets = [r for r in ast.walk(conv.node) if isinstance(r, ast.Return) and isinstance(r.value, ast.Call)]
    ok = any(src(r.value).replace(' ', '') == "'and'.join(conditions)" or src(r.value) == "' and '.join(conditions)" for r in rets)
    ctx.check(ok, 'C14.R3', conv, 'conjunction', 'modifier conditions are joined with `and` (legacy: all must hold)', 'modifier conditions are not AND-ed')
    cac = proj.func('modifier_parser.check_all_conditions')
    # every evaluate_*_condition call must be *required*: its being false leads to `return False`, directly (`if not ev(…): return False` in a loop)
    # or through all(… and ev(…) for …) whose value is required in the same sense or returned
    def returns_false(body):
        return bool(body) and isinstance(body[-1], ast.Return) and isinstance(body[-1].value, ast.Constant) and body[-1].value.value is False

    def required(e, depth=0) -> Optional[bool]:
        """True: e false => the function returns False; False: recognised position, but not required; None: position not recognised"""
        verdict = None
        for n in ast.walk(cac.node):
            if isinstance(n, ast.If) and any(x is e for x in ast.walk(n.test)):
                if returns_false(n.body) and any(a is e and tr for a, tr in conj_atoms(n.test, False)):
                    return True
                verdict = False
            elif isinstance(n, ast.Return) and n.value is not None and any(x is e for x in ast.walk(n.value)):
                if any(a is e and tr for a, tr in conj_atoms(n.value, True)):
                    return True
                verdict = False
            elif isinstance(n, (ast.GeneratorExp, ast.ListComp)) and any(x is e for x in ast.walk(n.elt)):
                holder = parent(n)
                if isinstance(holder, ast.Call) and call_name(holder) == 'all' and any(a is e and tr for a, tr in conj_atoms(n.elt, True)) and depth < 3:
                    return required(holder, depth + 1)
                verdict = False
            elif isinstance(n, ast.Assign) and n.value is e and len(n.targets) == 1 and isinstance(n.targets[0], ast.Name) and depth < 3:
                uses = [x for x in ast.walk(cac.node) if isinstance(x, ast.Name) and x.id == n.targets[0].id and isinstance(x.ctx, ast.Load)]
                vs = [required(u, depth + 1) for u in uses]
                return True if uses and all(v is True for v in vs) else (None if any(v is None for v in vs) or not uses else False)
        return verdict
    evs = [c for c in ast.walk(cac.node) if isinstance(c, ast.Call) and call_name(c) in ('evaluate_amount_condition', 'evaluate_date_condition')]
    if {call_name(c) for c in evs} != {'evaluate_amount_condition', 'evaluate_date_condition'}:
        ctx.unknown('C14.R3', cac, 'check_all_conditions does not call both condition evaluators any more')
    verdicts = [required(c) for c in evs]
    if any(v is None for v in verdicts) and not any(v is False for v in verdicts):
        ctx.unknown('C14.R3', cac, 'an evaluate_*_condition call sits in a position the rule does not know (not an if test, a return value or an all(…))')
    ctx.check(all(v is True for v in verdicts), 'C14.R3', cac, 'legacy-conjunction', 'legacy check: every amount and date condition must hold',
              'legacy check_all_conditions is not a conjunction: an evaluate_*_condition result that is false does not lead to `return False`')
    # the regex part: searched, case-insensitively, on both sides
    nm = proj.func('merchant_utils.normalize_merchant')
    legacy = [c for c in ast.walk(nm.node) if isinstance(c, ast.Call) and dotted(c.func) == 're.search']
    ok = bool(legacy) and all('re.IGNORECASE' in src(c) and src(c.args[0]) == 'pattern' for c in legacy)
    ctx.check(ok, 'C14.R3', nm, 'regex:legacy', 'legacy: re.search(pattern, description, IGNORECASE)', f'legacy matcher is {[src(c) for c in legacy]}')
    for qn in CONVERTERS:
        f = proj.func(qn)
        js = [x for x in all_nodes(f.node) if isinstance(x, ast.JoinedStr) and any(k == 'const' and v.startswith('regex(') for k, v in fparts(x))]
        ctx.check(len(js) == 1, 'C14.R3', f, 'regex:emitted', 'pattern is emitted as regex("…") (search, case-insensitive)', f'{f.name} does not emit the pattern through regex()')


def r4(ctx: Ctx) -> None:
    proj = ctx.proj
    f = proj.func('merchant_engine.csv_to_merchants_content')
    fl = get_flow(proj, f)
    # what the reader rejects
    parse = proj.func('merchant_engine.MerchantEngine.parse')
    add = proj.func('merchant_engine.MerchantEngine._add_rule')
    rejects_empty_name = any(isinstance(n, ast.Raise) and 'Empty rule name' in src(n) for n in ast.walk(parse.node))
    rejects_no_cat = any(isinstance(n, ast.Raise) and "must have 'category:' or 'tags:'" in src(n) for n in ast.walk(add.node))
    # what the CSV reader admits
    lm = proj.func('merchant_utils.load_merchant_rules')
    admits_empty = not any(isinstance(n, ast.If) and ('Merchant' in src(n.test) or 'Category' in src(n.test)) for n in ast.walk(lm.node))
    # does the writer guard?
    headers = [js for js in all_nodes(f.node) if isinstance(js, ast.JoinedStr) and fparts(js) and fparts(js)[0] == ('const', '[')]
    if not headers:
        ctx.unknown('C14.R4', f, 'rule header emission not found')
    hole = [v for k, v in fparts(headers[0]) if k == 'hole'][0]
    g = fl.cfg.guard_literals(fl.stmt_of(headers[0]))
    name_guard = any(src(hole) in t for t, tr in g) or any(isinstance(n, ast.If) and src(hole) in src(n.test) for n in ast.walk(f.node))
    if rejects_empty_name and admits_empty and not name_guard:
        ctx.fail('C14.R4', f, 'domain:empty-merchant', 'the CSV loader accepts a row with an empty Merchant cell, the converter writes `[]`, and the .rules loader rejects the whole generated file '
                                                   '("Empty rule name"): the budget ends up with zero rules', headers[0])
    else:
        ctx.ok('C14.R4', f, 'empty merchant names are handled before emission (or not admitted / not rejected)', construct='domain:empty-merchant')
    cat_lines = [js for js in all_nodes(f.node) if isinstance(js, ast.JoinedStr) and fparts(js) and fparts(js)[0] == ('const', 'category: ')]
    cat_guard = bool(cat_lines) and (any('category' in t for t, tr in fl.cfg.guard_literals(fl.stmt_of(cat_lines[0])))
                                     or any(isinstance(n, ast.If) and 'category' in src(n.test) and 'tags' in src(n.test) for n in ast.walk(f.node)))
    if rejects_no_cat and admits_empty and not cat_guard:
        ctx.fail('C14.R4', f, 'domain:empty-category', 'a CSV row with an empty Category and no tags is accepted by the CSV loader (it simply never categorizes), but the generated block '
                                                   '`category: ` without tags is rejected by the .rules loader, which makes the whole file unloadable', cat_lines[0] if cat_lines else f.node)
    else:
        ctx.ok('C14.R4', f, 'rows without category and tags are handled before emission', construct='domain:empty-category')


def r3_values_verbatim(ctx: Ctx) -> None:
    """The thresholds of a legacy modifier are written into the generated expression with their full value: a format spec (`:g`, `:.2f`) or a
    rounding call on the way changes the number the migrated rule compares with."""
    conv = ctx.proj.func('merchant_engine._modifier_to_expr')
    fl = get_flow(ctx.proj, conv)
    n = 0
    for js in [x for x in all_nodes(conv.node) if isinstance(x, ast.JoinedStr)]:
        for v in js.values:
            if not isinstance(v, ast.FormattedValue) or not any(isinstance(a, ast.Attribute) and a.attr in ('value', 'min_value', 'max_value', 'month') for a in ast.walk(v.value)):
                continue
            n += 1
            lossy = v.format_spec is not None or any(isinstance(c, ast.Call) and call_name(c) in ('round', 'int', 'format') for c in ast.walk(v.value))
            ctx.check(not lossy, 'C14.R3', conv, f'verbatim:{src(v.value)[:30]}', f'{src(v.value)} is written as it is',
                      f'{src(v.value)!r} is written through a format spec / rounding: thresholds with more digits than that keeps ([amount=12450.75]) migrate to another number', js)
    if n == 0:
        ctx.unknown('C14.R3', conv, 'no threshold holes found in the f-strings of _modifier_to_expr')


def r4_encoding(ctx: Ctx) -> None:
    """The generated file is written in the encoding it is read back in: every open(…, 'w' / 'a') of the migration names the loader's encoding
    (a bare open() uses the locale's, and a merchant called Café then either fails to write or is read back as mojibake)."""
    proj = ctx.proj
    f = proj.func('cli._migrate_csv_to_rules')
    n = 0
    for c in ast.walk(f.node):
        if isinstance(c, ast.Call) and isinstance(c.func, ast.Name) and c.func.id == 'open' and len(c.args) >= 2 and isinstance(c.args[1], ast.Constant) \
                and isinstance(c.args[1].value, str) and ('w' in c.args[1].value or 'a' in c.args[1].value) and 'b' not in c.args[1].value:
            n += 1
            enc = [k.value for k in c.keywords if k.arg == 'encoding']
            ok = bool(enc) and isinstance(enc[0], ast.Constant) and str(enc[0].value).lower().replace('_', '-') in ('utf-8', 'utf8')
            ctx.check(ok, 'C14.R4', f, f'encoding:{src(c.args[0])[:24]}', f'{src(c)[:50]} names utf-8', f'{src(c)[:60]!r} does not name the encoding the loader reads with (utf-8): '
                      f'non-ASCII merchant or category names fail to migrate, or load differently, on a machine whose default encoding is not UTF-8', c)
    if n == 0:
        ctx.unknown('C14.R4', f, 'no text-mode open(…, "w"/"a") found in the migration')


def r5(ctx: Ctx) -> None:
    proj = ctx.proj
    shapes = {}
    for qn in CONVERTERS:
        f = proj.func(qn)
        js = [x for x in all_nodes(f.node) if isinstance(x, ast.JoinedStr) and any(k == 'const' and v.startswith('regex(') for k, v in fparts(x))]
        mod = [c for c in ast.walk(f.node) if isinstance(c, ast.Call) and call_name(c) == '_modifier_to_expr']
        joins = [c for c in ast.walk(f.node) if isinstance(c, ast.Call) and src(c.func) == "' and '.join"]
        # `x if parts else 'true'`, or the same thing written as a statement
        default = [n for n in ast.walk(f.node) if (isinstance(n, ast.IfExp) and isinstance(n.orelse, ast.Constant) and n.orelse.value == 'true')
                   or (isinstance(n, (ast.Assign, ast.Return)) and isinstance(n.value, ast.Constant) and n.value.value == 'true')]
        tmpl = ''.join(v if k == 'const' else '{}' for k, v in fparts(js[0])) if js else None
        shapes[qn] = (tmpl, bool(mod), bool(joins), bool(default))
    a, b = shapes[CONVERTERS[0]], shapes[CONVERTERS[1]]
    f0 = proj.func(CONVERTERS[0])
    ctx.check(a == b and a[0] == 'regex("{}")', 'C14.R5', f0, 'sibling-shape', 'both converters: regex("…") and modifiers joined by `and`, `true` when empty',
              f'converters build different expressions: {a} vs {b}')
    # consumers
    mg = proj.func('cli._migrate_csv_to_rules')
    ok = any(call_name(c) == 'csv_to_merchants_content' for c in ast.walk(mg.node) if isinstance(c, ast.Call)) and \
        any(call_name(c) == 'load_merchant_rules' for c in ast.walk(mg.node) if isinstance(c, ast.Call))
    ctx.check(ok, 'C14.R5', mg, 'consumer:migration', 'migration writes csv_to_merchants_content(load_merchant_rules(csv))', 'migration does not convert the loaded CSV rules')
    # … and converts *all* of them: the converter's argument is the loader's result itself, not a list rebuilt (filtered, de-duplicated, sorted) from it
    mfl = get_flow(proj, mg)
    for c in mfl.calls('csv_to_merchants_content'):
        a0 = c.args[0] if c.args else None
        direct = False
        if isinstance(a0, ast.Call) and call_name(a0) == 'load_merchant_rules':
            direct = True
        elif isinstance(a0, ast.Name):
            defs = mfl.cfg.defs_reaching(mfl.stmt_of(c), a0.id)
            direct = bool(defs) and all(d != 'param' and isinstance(mfl.cfg.stmt[d], ast.Assign) and isinstance(mfl.cfg.stmt[d].value, ast.Call)
                                        and call_name(mfl.cfg.stmt[d].value) == 'load_merchant_rules' for d in defs)
        ctx.check(direct, 'C14.R5', mg, 'consumer:all-rows', 'every loaded CSV rule is handed to the converter',
                  f'csv_to_merchants_content receives {src(a0) if a0 is not None else None!r}, a list rebuilt from the loaded rules: rows can be dropped or reordered before conversion '
                  f'(rows that differ only in modifiers or tags look like duplicates), so the migrated file classifies differently', c)
    le = proj.func('merchant_engine.load_csv_as_engine')
    ok = any(call_name(c) == 'csv_to_rules' for c in ast.walk(le.node) if isinstance(c, ast.Call))
    ctx.check(ok, 'C14.R5', le, 'consumer:engine', 'load_csv_as_engine converts through csv_to_rules', 'load_csv_as_engine does not use the converter')
    # tags, merchant, category, subcategory carried over
    f1 = proj.func(CONVERTERS[1])
    lines = [''.join(v if k == 'const' else '{' + src(v) + '}' for k, v in fparts(js)) for js in all_nodes(f1.node) if isinstance(js, ast.JoinedStr)]
    need = ['[{merchant}]', 'match: {match_expr}', 'category: {category}', 'subcategory: {subcategory}']
    ok = all(n in lines for n in need) and any(l.startswith('tags: ') for l in lines)
    ctx.check(ok, 'C14.R5', f1, 'fields-carried', 'merchant, match, category, subcategory and tags are written for every rule', f'generated block lines are {lines}')


def r6(ctx: Ctx) -> None:
    from ..cfg import CFG, ENTRY, CONT, BREAK, EXIT, RAISE
    proj = ctx.proj
    for qn, marker in (('merchant_engine.csv_to_merchants_content', 'lines.append'), ('merchant_engine.csv_to_rules', 'rules.append')):
        f = proj.func(qn)
        loops = [s for s in f.node.body if isinstance(s, ast.For) and src(s.iter) == f.params[0]]
        if len(loops) != 1:
            ctx.unknown('C14.R6', f, f'{len(loops)} loops over {f.params[0]}')
        lp = loops[0]
        body = CFG(lp.body, loop_body=True, opaque_loops=True)
        paths = [p for p in body.paths(ENTRY, (CONT, BREAK, EXIT)) if p[-1] != RAISE]
        ctx.count('paths', len(paths))
        # the statement that emits the rule: the header line / the rules.append
        def emits(st):
            if not (isinstance(st, ast.Expr) and isinstance(st.value, ast.Call) and src(st.value.func) == marker):
                return False
            if marker == 'lines.append':
                a = st.value.args[0]
                return isinstance(a, ast.JoinedStr) and fparts(a) and fparts(a)[0] == ('const', '[')
            return True
        ids = {body.nid(st) for st in body.stmts() if emits(st)}
        skips = [st for st in body.stmts() if isinstance(st, (ast.Continue, ast.Break, ast.Return))]
        counts = {sum(1 for n in p if n in ids) for p in paths}
        ok = bool(ids) and counts == {1} and not skips
        why = []
        if skips:
            g = body.guard_literals(skips[0])
            why.append(f'`{type(skips[0]).__name__.lower()}` under {sorted(t for t, tr in g)[:2]}')
        if counts != {1}:
            why.append(f'the rule is emitted {sorted(counts)} times depending on the path')
        ctx.check(ok, 'C14.R6', f, 'one-block-per-rule', f'every CSV rule yields exactly one {"block" if marker == "lines.append" else "MerchantRule"}, in order',
                  f'{"; ".join(why)}: some CSV rows produce no rule in the generated file (e.g. rows that differ only in their [amount]/[date] modifiers look identical once the modifiers are '
                  f'stripped from the pattern), so transactions they matched become Unknown after migration', skips[0] if skips else lp)
