"""Obligations, known-findings filter, evidence and exit codes."""
from __future__ import annotations

import ast
import json
import os
import time
import traceback
from dataclasses import dataclass, field, asdict
from typing import Any, Callable, Dict, List, Optional

from .project import AnalysisError, FuncInfo, Project, src

VERIF = os.path.dirname(os.path.dirname(os.path.abspath(__file__)))
EVIDENCE_DIR = os.path.join(VERIF, 'evidence')
REPLAY_DIR = os.path.join(EVIDENCE_DIR, 'replay')
KNOWN = os.path.join(VERIF, 'known_findings.json')


@dataclass
class Obligation:
    rule: str
    site: str
    status: str          # 'ok' | 'fail'
    detail: str
    construct: str = ''
    file: str = ''
    line: int = 0
    path: List[str] = field(default_factory=list)

    @property
    def key(self) -> str:
        return f'{self.rule}|{self.site}|{self.construct}'


class Ctx:
    """What a rule pack sees: the project, and a sink for obligations."""

    def __init__(self, proj: Project, pid: str, tier: str = 'quick'):
        self.proj = proj
        self.pid = pid
        self.tier = tier
        self.obligations: List[Obligation] = []
        self.floors: Dict[str, int] = {}
        self.rules: Dict[str, str] = {}
        self.analysed: Dict[str, Any] = {'functions': set(), 'call_sites': 0, 'paths': 0}
        self.notes: List[str] = []
        self.soft_errors: List[str] = []

    # -- declarations
    def rule(self, rid: str, text: str, floor: int = 1) -> None:
        self.rules[rid] = text
        self.floors[rid] = floor

    def saw(self, fi) -> None:
        self.analysed['functions'].add(fi.short if isinstance(fi, FuncInfo) else str(fi))

    def count(self, key: str, n: int = 1) -> None:
        self.analysed[key] = self.analysed.get(key, 0) + n

    # -- results
    def _loc(self, where, node):
        file, line = '', 0
        if isinstance(where, FuncInfo):
            file = where.module.relpath
            line = where.lineno
        if node is not None and hasattr(node, 'lineno'):
            line = node.lineno
        return file, line

    def ok(self, rule: str, where, detail: str, node=None, construct: str = '') -> None:
        site = where.short if isinstance(where, FuncInfo) else str(where)
        file, line = self._loc(where, node)
        if isinstance(where, FuncInfo):
            self.saw(where)
        self.obligations.append(Obligation(rule, site, 'ok', detail, construct, file, line))

    def fail(self, rule: str, where, construct: str, detail: str, node=None, path=None, file: str = '') -> None:
        site = where.short if isinstance(where, FuncInfo) else str(where)
        f, line = self._loc(where, node)
        if isinstance(where, FuncInfo):
            self.saw(where)
        self.obligations.append(Obligation(rule, site, 'fail', detail, construct, file or f, line, list(path or [])))

    def check(self, cond: bool, rule: str, where, construct: str, ok_detail: str, fail_detail: str, node=None) -> bool:
        if cond:
            self.ok(rule, where, ok_detail, node, construct)
        else:
            self.fail(rule, where, construct, fail_detail, node)
        return cond

    def need(self, cond: bool, msg: str) -> None:
        """Soft instance floor: an analysis error unless a new violation is being reported anyway."""
        if not cond:
            self.soft_errors.append(msg)

    def unknown(self, rule: str, where, what: str, node=None):
        """A code shape none of the rule's idioms covers: exit 2, never exit 1."""
        site = where.short if isinstance(where, FuncInfo) else str(where)
        file, line = self._loc(where, node)
        raise AnalysisError(f'rule {rule} at {file}:{line} {site}: unrecognised shape: {what} '
                            f'(extend the idiom table of {rule})')


def load_known() -> List[dict]:
    if not os.path.exists(KNOWN):
        return []
    with open(KNOWN) as f:
        return json.load(f).get('findings', [])


def run_pack(pid: str, tier: str, check: Callable[[Ctx], None], *, proj: Optional[Project] = None,
             quiet: bool = False) -> Dict[str, Any]:
    """Run one rule pack; returns a result dict (no I/O besides reading the repo)."""
    t0 = time.time()
    res: Dict[str, Any] = {'pid': pid, 'tier': tier, 'error': None, 'floor_error': None}
    ctx = None
    try:
        proj = proj or Project()
        ctx = Ctx(proj, pid, tier)
        try:
            check(ctx)
        except AnalysisError as e:
            # A rule could not bind ("unrecognised shape").  What the rules that ran before it positively found wrong stays wrong: if there is a
            # failing obligation that is not a listed finding, the run reports it (and notes that the analysis stopped early); only when nothing
            # was found is the outcome "analysis broken".  Instance floors are not judged on a run that did not finish.
            open_keys = {k['key'] for k in load_known() if k.get('property') == pid and k.get('status') == 'open'}
            if not any(o.status == 'fail' and o.key not in open_keys for o in ctx.obligations):
                raise
            res['partial_error'] = str(e)
            ctx.notes.append(f'analysis stopped early, after the violation(s) reported here had been established: {e}')
            res['ctx'] = ctx
            res['wall_s'] = time.time() - t0
            return res
        if proj.renamed:
            done = [f'{rel}:{q} ' + ','.join(f'{o}->{n}' for o, n in m.items() if o != '#params') for rel, per in sorted(proj.renamed.items()) for q, m in sorted(per.items())]
            ctx.notes.append('local names alpha-converted to the reference vocabulary before analysis (sa/canon.py): ' + '; '.join(done)[:1500])
        floor_errors = []
        for rid, floor in ctx.floors.items():
            n = sum(1 for o in ctx.obligations if o.rule == rid)
            if n < floor:
                floor_errors.append(f'rule {rid}: {n} instances analysed, floor is {floor} '
                                    f'(the rule no longer binds to the code it was confirmed on)')
        res['floor_error'] = '; '.join(floor_errors + ctx.soft_errors) or None
        res['ctx'] = ctx
    except AnalysisError as e:
        res['error'] = str(e)
    except Exception as e:   # a checker bug is an analysis error, never a violation
        res['error'] = f'internal: {type(e).__name__}: {e}\n' + traceback.format_exc()
    res['wall_s'] = time.time() - t0
    return res


def classify(pid: str, ctx: Ctx):
    known = [k for k in load_known() if k.get('property') == pid]
    open_keys = {k['key']: k for k in known if k.get('status') == 'open'}
    fails = [o for o in ctx.obligations if o.status == 'fail']
    known_hits, new = [], []
    for o in fails:
        if o.key in open_keys:
            known_hits.append((o, open_keys[o.key]))
        else:
            new.append(o)
    return known_hits, new


def write_evidence(pid: str, tier: str, seed: int, level: str, ctx: Optional[Ctx], wall_s: float,
                   extra: Optional[dict] = None, error: Optional[str] = None) -> str:
    os.makedirs(EVIDENCE_DIR, exist_ok=True)
    path = os.path.join(EVIDENCE_DIR, f'{pid}.json')
    cov: Dict[str, Any] = {}
    if ctx is not None:
        obs = ctx.obligations
        n_ok = sum(1 for o in obs if o.status == 'ok')
        sites = {(o.rule, o.site, o.construct) for o in obs}
        samples = []
        seen_rules = set()
        for o in obs:
            if o.rule in seen_rules and o.status == 'ok':
                continue
            seen_rules.add(o.rule)
            samples.append({'rule': o.rule, 'site': o.site, 'file': o.file, 'line': o.line,
                            'status': o.status, 'construct': o.construct, 'detail': o.detail})
        known_hits, new = classify(pid, ctx)
        cov = {
            'explanation': (f'Static analysis of /repo source (ast + CFG/dominators/control dependence + def-use; nothing executed). '
                            f'{len(obs)} obligations over {len(ctx.analysed["functions"])} functions; '
                            f'{n_ok} discharged, {len(known_hits)} known findings, {len(new)} new violations.'),
            'evaluations': len(obs),
            'distinct_nontrivial': len(sites),
            'rule': 'one evaluation = one obligation (rule instance bound to a code site); distinct = distinct (rule, function, construct) triples; every obligation inspects real code, vacuous rules are rejected by per-rule instance floors',
            'obligations': len(obs),
            'discharged': n_ok,
            'known_findings': [o.key for o, _ in known_hits],
            'violations': [o.key for o in new],
            'rules': ctx.rules,
            'floors': ctx.floors,
            'per_rule': {r: {'ok': sum(1 for o in obs if o.rule == r and o.status == 'ok'),
                             'fail': sum(1 for o in obs if o.rule == r and o.status == 'fail')}
                         for r in ctx.rules},
            'functions_analysed': sorted(ctx.analysed['functions']),
            'call_sites': ctx.analysed.get('call_sites', 0),
            'paths': ctx.analysed.get('paths', 0),
            'notes': ctx.notes,
            'samples': samples[:60],
            'checker_cmd': f'./check {pid} --tier {tier}',
            'trusted_base': ['CPython ast module', 'networkx dominators', 'lexical name resolution (no monkey-patching)',
                             'documented behaviour of C-level library functions'],
            'exhaustive': True,
        }
    else:
        cov = {'explanation': f'analysis error: {error}', 'evaluations': 0, 'distinct_nontrivial': 0,
               'rule': 'n/a', 'samples': [{'error': error}]}
    if extra:
        cov.update(extra)
    ev = {'property_id': pid, 'tier': tier, 'seed': seed, 'level': level, 'coverage': cov,
          'wall_s': round(wall_s, 3), 'repo_root': (ctx.proj.root if ctx else os.environ.get('TALLY_REPO', '/repo'))}
    with open(path, 'w') as f:
        json.dump(ev, f, indent=1, sort_keys=True, default=str)
    return path


def write_replay(pid: str, k: int, o: Obligation) -> str:
    os.makedirs(REPLAY_DIR, exist_ok=True)
    path = os.path.join(REPLAY_DIR, f'{pid}-{k}.json')
    with open(path, 'w') as f:
        json.dump({'property': pid, **asdict(o), 'key': o.key}, f, indent=1)
    return path
