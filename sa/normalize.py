"""Behaviour-preserving normal form applied by the loader before any rule runs.

Two local rewrites (a third, N3, is implemented but kept off: the guard-shaped rules reason over the CFG instead), each an equivalence of Python semantics for the programs it is applied to, so that a rule written for
one spelling also sees the other:

  N1  `t = e` immediately followed by `return t`           ->  `return e`
        (t a plain local not referenced from a nested scope; the assignment reaches nothing but that return)
  N2  `x = x <op> e`  (x a plain local name)                ->  `x <op>= e`
        (for the numbers and strings the accumulators of this code base hold, the two are the same operation)
  N4  `x: T = e` on a plain local inside a function        ->  `x = e`        (the annotation of a local is never evaluated)
  N5  `if c: ... <jump>` with an else arm                   ->  the else arm follows the if (no else after return/raise/continue/break)
  N8  a new local bound once to an access path and only read afterwards (`entry = table[key]`) -> its reads are the path again
  N13 a local bound once to a *new* record type built from plain names and read only field by field -> the names themselves
  N11 a loop over a small literal table of constants is unrolled;  N12 getattr(o, 'name') / setattr(o, 'name', v) with a literal name are attribute access
  N10 `x = []` + a loop whose whole body appends to x (optionally under ifs / nested single-statement loops) -> the list / set / dict comprehension
  N9  a new local bound once and read once, in the next statement, before any other call of it -> the expression moves back to the read
  N6  `f(a, y=b)` where y is the next positional parameter of the project function f  ->  `f(a, b)`   (done in Project, needs name resolution)
  N3  a loop body ending in `if not c: <rest>` (no else)    ->  `if c: continue` followed by <rest>
        and a loop body ending in `if c: <rest>` (no else, <rest> longer than one statement and containing no `continue`-free
        fall-through difference)                              ->  `if not c: continue` followed by <rest>

Positions are kept (every moved node keeps its own line), nothing is reordered, and no statement with an effect is added or removed.
"""
from __future__ import annotations

import ast
import os
from typing import Dict, List, Optional

_SCOPES = (ast.FunctionDef, ast.AsyncFunctionDef, ast.Lambda, ast.ClassDef, ast.ListComp, ast.SetComp, ast.DictComp, ast.GeneratorExp)


def _nested_names(fnode) -> set:
    out = set()
    for n in ast.walk(fnode):
        if n is not fnode and isinstance(n, _SCOPES):
            for x in ast.walk(n):
                if isinstance(x, ast.Name):
                    out.add(x.id)
    return out


def _n1(body: List[ast.stmt], nested: set, stats: Dict[str, int]) -> List[ast.stmt]:
    out: List[ast.stmt] = []
    i = 0
    while i < len(body):
        s = body[i]
        nxt = body[i + 1] if i + 1 < len(body) else None
        if (isinstance(s, ast.Assign) and len(s.targets) == 1 and isinstance(s.targets[0], ast.Name) and isinstance(nxt, ast.Return)
                and isinstance(nxt.value, ast.Name) and nxt.value.id == s.targets[0].id and s.targets[0].id not in nested
                ):
            new = ast.Return(value=s.value)
            ast.copy_location(new, s)
            new.end_lineno, new.end_col_offset = getattr(s, 'end_lineno', None), getattr(s, 'end_col_offset', None)
            out.append(new)
            stats['N1'] = stats.get('N1', 0) + 1
            i += 2
            continue
        out.append(s)
        i += 1
    return out


def _n2(s: ast.stmt, stats) -> ast.stmt:
    if (isinstance(s, ast.Assign) and len(s.targets) == 1 and isinstance(s.targets[0], ast.Name) and isinstance(s.value, ast.BinOp)
            and isinstance(s.value.left, ast.Name) and s.value.left.id == s.targets[0].id and isinstance(s.value.op, (ast.Add, ast.Sub, ast.Mult))):
        new = ast.AugAssign(target=s.targets[0], op=s.value.op, value=s.value.right)
        ast.copy_location(new, s)
        new.end_lineno, new.end_col_offset = getattr(s, 'end_lineno', None), getattr(s, 'end_col_offset', None)
        stats['N2'] = stats.get('N2', 0) + 1
        return new
    return s


def _n3(body: List[ast.stmt], stats) -> List[ast.stmt]:
    if not body:
        return body
    last = body[-1]
    if isinstance(last, ast.If) and not last.orelse and isinstance(last.test, ast.UnaryOp) and isinstance(last.test.op, ast.Not) and len(last.body) >= 1:
        guard = ast.If(test=last.test.operand, body=[ast.Continue()], orelse=[])
        ast.copy_location(guard, last)
        ast.copy_location(guard.body[0], last)
        guard.end_lineno, guard.end_col_offset = last.test.end_lineno, last.test.end_col_offset
        guard.body[0].end_lineno, guard.body[0].end_col_offset = last.test.end_lineno, last.test.end_col_offset
        stats['N3'] = stats.get('N3', 0) + 1
        return body[:-1] + [guard] + _n3(list(last.body), stats)
    return body


def _n4(s: ast.stmt, stats) -> ast.stmt:
    """annotated assignment of a plain local inside a function -> plain assignment (the annotation of a local is never evaluated)"""
    if isinstance(s, ast.AnnAssign) and s.value is not None and isinstance(s.target, ast.Name) and s.simple:
        new = ast.Assign(targets=[s.target], value=s.value)
        ast.copy_location(new, s)
        new.end_lineno, new.end_col_offset = getattr(s, 'end_lineno', None), getattr(s, 'end_col_offset', None)
        stats['N4'] = stats.get('N4', 0) + 1
        return new
    return s


_JUMPS = (ast.Return, ast.Raise, ast.Continue, ast.Break)


def _n5(body: List[ast.stmt], stats) -> List[ast.stmt]:
    """`if c: ...jump` with an else arm -> the else arm follows the if (no else after a jump)"""
    out: List[ast.stmt] = []
    for s in body:
        out.append(s)
        if isinstance(s, ast.If) and s.orelse and s.body and isinstance(s.body[-1], _JUMPS):
            rest = s.orelse
            s.orelse = []
            stats['N5'] = stats.get('N5', 0) + 1
            out.extend(_n5(rest, stats))
    return out


def _is_path(e) -> bool:
    """a side-effect-free access path: name, attribute chain, subscripts by such paths or constants"""
    if isinstance(e, (ast.Name, ast.Constant)):
        return True
    if isinstance(e, ast.Attribute):
        return _is_path(e.value)
    if isinstance(e, ast.Subscript):
        return _is_path(e.value) and _is_path(e.slice)
    if isinstance(e, ast.Tuple):
        return all(_is_path(x) for x in e.elts)
    if isinstance(e, ast.Call) and isinstance(e.func, ast.Name) and e.func.id == 'type' and len(e.args) == 1 and not e.keywords:
        return _is_path(e.args[0])          # type(x) is as stable as x
    return False


def _clone(n):
    if isinstance(n, ast.AST):
        new = type(n)()
        for f in n._fields:
            if hasattr(n, f):
                setattr(new, f, _clone(getattr(n, f)))
        for a in ('lineno', 'col_offset', 'end_lineno', 'end_col_offset'):
            if hasattr(n, a):
                setattr(new, a, getattr(n, a))
        return new
    if isinstance(n, list):
        return [_clone(x) for x in n]
    return n


def _split_new_name_tuples(fnode, known_locals: set) -> None:
    """`a, b = (x, y)` where a, b are names the reference does not know and x, y plain names / constants (what N13 and pair-returning helpers
    leave behind) becomes `a = x; b = y` (no target is read on the right), so that N8 can see each as the copy it is."""
    def do_block(body: List[ast.stmt]) -> None:
        i = 0
        while i < len(body):
            st = body[i]
            if (isinstance(st, ast.Assign) and len(st.targets) == 1 and isinstance(st.targets[0], ast.Tuple) and isinstance(st.value, ast.Tuple)
                    and len(st.targets[0].elts) == len(st.value.elts) and all(isinstance(t, ast.Name) and t.id not in known_locals for t in st.targets[0].elts)
                    and all(isinstance(v, (ast.Name, ast.Constant)) for v in st.value.elts)
                    and not ({t.id for t in st.targets[0].elts} & {v.id for v in st.value.elts if isinstance(v, ast.Name)})):
                body[i:i + 1] = [ast.copy_location(ast.Assign(targets=[t], value=v, lineno=st.lineno), st) for t, v in zip(st.targets[0].elts, st.value.elts)]
                continue
            if not isinstance(st, (ast.FunctionDef, ast.AsyncFunctionDef, ast.ClassDef)):
                for fld in ('body', 'orelse', 'finalbody'):
                    b = getattr(st, fld, None)
                    if isinstance(b, list) and b and isinstance(b[0], ast.stmt):
                        do_block(b)
                for h in getattr(st, 'handlers', []) or []:
                    do_block(h.body)
            i += 1
    do_block(fnode.body)


def _n8(fnode, known_locals: set, stats) -> None:
    """N8: a *new* local (unknown to the reference vocabulary) that is bound once to an access path (`entry = table[key]`) and only read
    afterwards in the same block is an alias: its reads are replaced by the path.  Nothing the path mentions may be rebound, and nothing
    may be stored under the path's own container, between the binding and the reads.  The binding statement stays (its evaluation may
    create a defaultdict entry, exactly as the first access did before)."""
    nested = _nested_names(fnode)
    binds: Dict[str, int] = {}
    for n in ast.walk(fnode):
        if isinstance(n, ast.Name) and isinstance(n.ctx, (ast.Store, ast.Del)):
            binds[n.id] = binds.get(n.id, 0) + 1
    params = {a.arg for a in fnode.args.args + fnode.args.kwonlyargs + fnode.args.posonlyargs}

    def do_block(body: List[ast.stmt]) -> None:
        for i, st in enumerate(body):
            plain_copy = isinstance(st, ast.Assign) and len(st.targets) == 1 and isinstance(st.targets[0], ast.Name) and isinstance(st.value, ast.Name) \
                and st.value.id not in nested
            if plain_copy or (isinstance(st, ast.Assign) and len(st.targets) == 1 and isinstance(st.targets[0], ast.Name) and isinstance(st.value, (ast.Subscript, ast.Attribute, ast.Call))
                              and _is_path(st.value)):
                a = st.targets[0].id
                if a in known_locals or a in params or a in nested or binds.get(a) != 1:
                    continue
                rest = body[i + 1:]
                mentioned = {x.id for x in ast.walk(st.value) if isinstance(x, ast.Name)}
                # every read of the alias must be in the rest of this block
                reads_total = sum(1 for x in ast.walk(fnode) if isinstance(x, ast.Name) and x.id == a and isinstance(x.ctx, ast.Load))
                reads_rest = sum(1 for r in rest for x in ast.walk(r) if isinstance(x, ast.Name) and x.id == a and isinstance(x.ctx, ast.Load))
                if reads_total == 0 or reads_total != reads_rest:
                    continue
                ok = True
                path_dump = ast.dump(st.value)

                def self_copy(r) -> bool:
                    # `x = alias` where alias stands for x: disappears once the alias is replaced
                    return plain_copy and isinstance(r, ast.Assign) and len(r.targets) == 1 and isinstance(r.targets[0], ast.Name) and r.targets[0].id == st.value.id \
                        and isinstance(r.value, ast.Name) and r.value.id == a
                killed = False
                for r in rest:
                    if self_copy(r):
                        continue
                    reads_here = any(isinstance(x, ast.Name) and x.id == a and isinstance(x.ctx, ast.Load) for x in ast.walk(r))
                    kills_here = False
                    for x in ast.walk(r):
                        if isinstance(x, ast.Name) and isinstance(x.ctx, (ast.Store, ast.Del)) and x.id in mentioned:
                            kills_here = True
                        # a store that replaces the aliased object itself: <path> = … / del <path>
                        if isinstance(x, (ast.Subscript, ast.Attribute)) and isinstance(x.ctx, (ast.Store, ast.Del)) and ast.dump(x).replace('Store()', 'Load()').replace('Del()', 'Load()') == path_dump:
                            kills_here = True
                    if reads_here and (killed or kills_here):
                        ok = False
                    killed = killed or kills_here
                if not ok:
                    continue

                class R(ast.NodeTransformer):
                    def visit_Name(self, node):
                        if node.id == a and isinstance(node.ctx, ast.Load):
                            return ast.copy_location(_clone(st.value), node)
                        return node
                for k in range(i + 1, len(body)):
                    body[k] = R().visit(body[k])
                if plain_copy:
                    # the copy itself and the `x = x` it leaves behind are dead
                    dead = [st] + [r for r in body[i + 1:] if isinstance(r, ast.Assign) and len(r.targets) == 1 and isinstance(r.targets[0], ast.Name)
                                   and isinstance(r.value, ast.Name) and r.value.id == r.targets[0].id == st.value.id]
                    body[:] = [r for r in body if not any(r is d for d in dead)] or [ast.copy_location(ast.Pass(), st)]
                    stats['N8'] = stats.get('N8', 0) + 1
                    return do_block(body)
                stats['N8'] = stats.get('N8', 0) + 1
        for st in body:
            if isinstance(st, (ast.FunctionDef, ast.AsyncFunctionDef, ast.ClassDef)):
                continue
            for fld in ('body', 'orelse', 'finalbody'):
                b = getattr(st, fld, None)
                if isinstance(b, list) and b and isinstance(b[0], ast.stmt):
                    do_block(b)
            for h in getattr(st, 'handlers', []) or []:
                do_block(h.body)
    do_block(fnode.body)


def _n10(body: List[ast.stmt], stats) -> List[ast.stmt]:
    """N10: the accumulate-in-a-loop idiom becomes the comprehension it spells out:
         x = [] ; for v in IT: [if C:] x.append(E)      ->  x = [E for v in IT if C]
         x = set() ; for …: [if C:] x.add(E)             ->  x = {E for …}
         x = {} ; for …: [if C:] x[K] = V                ->  x = {K: V for …}
       (adjacent statements, no else, the loop body is that single statement, x is not read in IT / C / E / K / V, nested single-statement
       loops become further `for` clauses)."""
    out: List[ast.stmt] = []
    i = 0
    while i < len(body):
        st = body[i]
        nxt = body[i + 1] if i + 1 < len(body) else None
        new = None
        if isinstance(st, ast.Assign) and len(st.targets) == 1 and isinstance(st.targets[0], ast.Name) and isinstance(nxt, ast.For) and not nxt.orelse:
            x = st.targets[0].id
            kind = None
            if isinstance(st.value, ast.List) and not st.value.elts:
                kind = 'list'
            elif isinstance(st.value, ast.Dict) and not st.value.keys:
                kind = 'dict'
            elif isinstance(st.value, ast.Call) and isinstance(st.value.func, ast.Name) and st.value.func.id == 'set' and not st.value.args and not st.value.keywords:
                kind = 'set'
            if kind:
                gens = []
                cur = nxt
                ok = True
                leaf = None
                while True:
                    if cur.orelse or len(cur.body) != 1 or isinstance(cur, ast.AsyncFor):
                        ok = False
                        break
                    g = ast.comprehension(target=cur.target, iter=cur.iter, ifs=[], is_async=0)
                    gens.append(g)
                    inner = cur.body[0]
                    while isinstance(inner, ast.If) and not inner.orelse and len(inner.body) == 1:
                        g.ifs.append(inner.test)
                        inner = inner.body[0]
                    if isinstance(inner, ast.For):
                        cur = inner
                        continue
                    leaf = inner
                    break
                elt = key = None
                if ok and leaf is not None:
                    if kind in ('list', 'set') and isinstance(leaf, ast.Expr) and isinstance(leaf.value, ast.Call) and isinstance(leaf.value.func, ast.Attribute) \
                            and isinstance(leaf.value.func.value, ast.Name) and leaf.value.func.value.id == x and leaf.value.func.attr == ('append' if kind == 'list' else 'add') \
                            and len(leaf.value.args) == 1 and not leaf.value.keywords and not isinstance(leaf.value.args[0], ast.Starred):
                        elt = leaf.value.args[0]
                    elif kind == 'dict' and isinstance(leaf, ast.Assign) and len(leaf.targets) == 1 and isinstance(leaf.targets[0], ast.Subscript) \
                            and isinstance(leaf.targets[0].value, ast.Name) and leaf.targets[0].value.id == x:
                        key, elt = leaf.targets[0].slice, leaf.value
                if elt is not None:
                    used = False
                    for g in gens:
                        for e in [g.iter] + g.ifs:
                            used = used or any(isinstance(n, ast.Name) and n.id == x for n in ast.walk(e))
                    for e in [elt] + ([key] if key is not None else []):
                        used = used or any(isinstance(n, ast.Name) and n.id == x for n in ast.walk(e))
                    # loop targets must be plain names / tuples of names (comprehension targets are a scope of their own: they must not be read after the loop)
                    tnames = {n.id for g in gens for n in ast.walk(g.target) if isinstance(n, ast.Name)}
                    later = any(isinstance(n, ast.Name) and n.id in tnames for s2 in body[i + 2:] for n in ast.walk(s2))
                    if not used and not later:
                        if kind == 'list':
                            comp = ast.ListComp(elt=elt, generators=gens)
                        elif kind == 'set':
                            comp = ast.SetComp(elt=elt, generators=gens)
                        else:
                            comp = ast.DictComp(key=key, value=elt, generators=gens)
                        ast.copy_location(comp, nxt)
                        new = ast.Assign(targets=st.targets, value=comp)
                        ast.copy_location(new, st)
                        new.end_lineno, new.end_col_offset = getattr(nxt, 'end_lineno', None), getattr(nxt, 'end_col_offset', None)
        if new is not None:
            out.append(new)
            stats['N10'] = stats.get('N10', 0) + 1
            i += 2
        else:
            out.append(st)
            i += 1
    return out


_TRANSPARENT = (ast.Call, ast.BinOp, ast.UnaryOp, ast.Compare, ast.Attribute, ast.Subscript, ast.keyword, ast.Tuple, ast.List, ast.Set, ast.Dict,
                ast.JoinedStr, ast.FormattedValue, ast.Starred)


def _header_exprs(st) -> List[ast.AST]:
    if isinstance(st, (ast.If, ast.While)):
        return [st.test]
    if isinstance(st, (ast.Return, ast.Expr)):
        return [st.value] if st.value is not None else []
    if isinstance(st, ast.Assign):
        return [st.value] if all(isinstance(t, ast.Name) for t in st.targets) else []
    if isinstance(st, (ast.AnnAssign,)):
        return [st.value] if st.value is not None and isinstance(st.target, ast.Name) else []
    if isinstance(st, ast.For):
        return [st.iter]
    return []


def _single_read_position(header, name: str):
    """If `name` is read exactly once in `header`, at a position that is evaluated unconditionally, exactly once, and before which no call is
    evaluated, return the path of (parent, field, index) to it; else None."""
    hits = []

    def rec(n, trail, ok):
        if isinstance(n, ast.Name) and n.id == name and isinstance(n.ctx, ast.Load):
            hits.append((trail, ok))
            return
        for fld, val in ast.iter_fields(n):
            vals = val if isinstance(val, list) else [val]
            for i, c in enumerate(vals):
                if not isinstance(c, ast.AST):
                    continue
                ok2 = ok and isinstance(n, _TRANSPARENT + (ast.BoolOp, ast.IfExp))
                if isinstance(n, ast.BoolOp) and not (fld == 'values' and i == 0):
                    ok2 = False
                if isinstance(n, ast.IfExp) and fld != 'test':
                    ok2 = False
                rec(c, trail + [(n, fld, i if isinstance(val, list) else None)], ok2)
    if isinstance(header, ast.Name) and header.id == name:
        return []
    rec(header, [], True)
    if len(hits) != 1 or not hits[0][1]:
        return None
    trail = hits[0][0]
    anc = {id(n) for n, _f, _i in trail}
    # no other call may be evaluated in the header (its order relative to the moved expression would change)
    for n in ast.walk(header):
        if isinstance(n, (ast.Call, ast.Await, ast.Yield, ast.YieldFrom, ast.NamedExpr)) and id(n) not in anc:
            return None
        if isinstance(n, (ast.ListComp, ast.SetComp, ast.DictComp, ast.GeneratorExp, ast.Lambda)):
            return None
    return trail


def _n9(fnode, known_locals: set, stats) -> None:
    """N9: a *new* local bound once to an expression and read exactly once, in the very next statement, at a position evaluated
    unconditionally and before any other call of that statement, is a temporary: the expression moves back to where it is read
    (`ok = f(x)` / `if ok:`  ->  `if f(x):`)."""
    nested = _nested_names(fnode)
    binds: Dict[str, int] = {}
    reads: Dict[str, int] = {}
    for n in ast.walk(fnode):
        if isinstance(n, ast.Name):
            if isinstance(n.ctx, (ast.Store, ast.Del)):
                binds[n.id] = binds.get(n.id, 0) + 1
            else:
                reads[n.id] = reads.get(n.id, 0) + 1
    params = {a.arg for a in fnode.args.args + fnode.args.kwonlyargs + fnode.args.posonlyargs}

    def do_block(body: List[ast.stmt]) -> List[ast.stmt]:
        out: List[ast.stmt] = []
        i = 0
        while i < len(body):
            st = body[i]
            nxt = body[i + 1] if i + 1 < len(body) else None
            done = False
            if (nxt is not None and isinstance(st, ast.Assign) and len(st.targets) == 1 and isinstance(st.targets[0], ast.Name)):
                a = st.targets[0].id
                if a not in known_locals and a not in params and a not in nested and binds.get(a) == 1 and reads.get(a) == 1 and not isinstance(st.value, (ast.Constant, ast.Name)):
                    for h in _header_exprs(nxt):
                        tr = _single_read_position(h, a)
                        if tr is None:
                            continue
                        if not tr:
                            # the header *is* the name
                            for fld in ('test', 'value', 'iter'):
                                if getattr(nxt, fld, None) is h:
                                    setattr(nxt, fld, st.value)
                        else:
                            parent, fld, idx = tr[-1]
                            if idx is None:
                                setattr(parent, fld, st.value)
                            else:
                                getattr(parent, fld)[idx] = st.value
                        stats['N9'] = stats.get('N9', 0) + 1
                        done = True
                        break
            if not done:
                out.append(st)
            i += 1
        for st in out:
            if isinstance(st, (ast.FunctionDef, ast.AsyncFunctionDef, ast.ClassDef)):
                continue
            for fld in ('body', 'orelse', 'finalbody'):
                b = getattr(st, fld, None)
                if isinstance(b, list) and b and isinstance(b[0], ast.stmt):
                    setattr(st, fld, do_block(b))
            for h in getattr(st, 'handlers', []) or []:
                h.body = do_block(h.body)
        return out
    fnode.body = do_block(fnode.body)


def _const_rows(e, consts) -> Optional[list]:
    """elements of a small literal tuple / list of constants (or of tuples of constants), directly or through a module-level name"""
    if isinstance(e, ast.Name) and e.id in consts:
        e = consts[e.id]
    if not isinstance(e, (ast.Tuple, ast.List)) or not (1 <= len(e.elts) <= 8):
        return None
    rows = []
    for x in e.elts:
        if isinstance(x, ast.Constant):
            rows.append(x)
        elif isinstance(x, ast.Name) and not (isinstance(e, ast.Name)):
            rows.append(x)         # `for b in (first, second):` over plain variables (not rebound in the body: checked by the caller)
        elif isinstance(x, (ast.Tuple, ast.List)) and x.elts and all(isinstance(y, (ast.Constant, ast.Name)) for y in x.elts):
            rows.append(x)         # plain names are fine as long as the loop body does not rebind them (checked by the caller)
        else:
            return None
    return rows


def _n11(body: List[ast.stmt], consts, stats) -> List[ast.stmt]:
    """N11: a loop over a small literal table is unrolled (`for k in ('a', 'b'): f(k)` -> `f('a'); f('b')`), when the body has no
    break / continue of that loop, the loop has no else, and the loop variable is not read after the loop."""
    out: List[ast.stmt] = []
    for i, st in enumerate(body):
        done = False
        if isinstance(st, ast.For) and not st.orelse:
            rows = _const_rows(st.iter, consts)
            local_table = None
            if rows is None and isinstance(st.iter, ast.Name) and out and isinstance(out[-1], ast.Assign) and len(out[-1].targets) == 1 \
                    and isinstance(out[-1].targets[0], ast.Name) and out[-1].targets[0].id == st.iter.id:
                # `table = ((…), (…))` immediately in front of `for … in table:` and read nowhere else in this block
                reads = sum(1 for s2 in body for n in ast.walk(s2) if isinstance(n, ast.Name) and n.id == st.iter.id and isinstance(n.ctx, ast.Load))
                if reads == 1:
                    rows = _const_rows(out[-1].value, consts)
                    # a local table of pure constants is data (rules read it as a table); one that lists variables is a loop written sideways
                    if rows is not None and not any(isinstance(r, ast.Name) or (isinstance(r, (ast.Tuple, ast.List)) and any(isinstance(y, ast.Name) for y in r.elts)) for r in rows):
                        rows = None
                    local_table = out[-1] if rows is not None else None
            tg = st.target
            names = [tg.id] if isinstance(tg, ast.Name) else ([e.id for e in tg.elts] if isinstance(tg, ast.Tuple) and all(isinstance(e, ast.Name) for e in tg.elts) else None)
            if rows is not None and names:
                jumps = False
                stack = list(st.body)
                while stack:
                    x = stack.pop()
                    if isinstance(x, (ast.Break, ast.Continue)):
                        jumps = True
                    if isinstance(x, (ast.For, ast.While, ast.FunctionDef, ast.AsyncFunctionDef, ast.Lambda, ast.ClassDef)):
                        continue
                    stack.extend(ast.iter_child_nodes(x))
                stored = any(isinstance(n, ast.Name) and n.id in names and isinstance(n.ctx, ast.Store) for b in st.body for n in ast.walk(b))
                later = any(isinstance(n, ast.Name) and n.id in names for s2 in body[i + 1:] for n in ast.walk(s2))
                shapes_ok = all((isinstance(r, (ast.Constant, ast.Name)) and len(names) == 1) or (not isinstance(r, (ast.Constant, ast.Name)) and len(r.elts) == len(names)) for r in rows)
                # names standing in the table keep their value through the loop
                row_names = {y.id for r in rows if isinstance(r, (ast.Tuple, ast.List)) for y in r.elts if isinstance(y, ast.Name)} | {r.id for r in rows if isinstance(r, ast.Name)}
                rebinds = any(isinstance(n, ast.Name) and n.id in row_names and isinstance(n.ctx, (ast.Store, ast.Del)) for b in st.body for n in ast.walk(b)) or bool(row_names & set(names))
                if not jumps and not stored and not later and shapes_ok and not rebinds:
                    if local_table is not None:
                        out.pop()
                    for r in rows:
                        vals = {names[0]: r} if isinstance(r, (ast.Constant, ast.Name)) else dict(zip(names, r.elts))

                        class S(ast.NodeTransformer):
                            def visit_Name(self, node):
                                if node.id in vals and isinstance(node.ctx, ast.Load):
                                    return ast.copy_location(_clone(vals[node.id]), node)
                                return node
                        for b in st.body:
                            out.append(S().visit(_clone(b)))
                    stats['N11'] = stats.get('N11', 0) + 1
                    done = True
        if not done:
            out.append(st)
    return out


class _FormatToFString(ast.NodeTransformer):
    """N16: '<literal with {} / {0} fields>'.format(a, b)  ->  f'…{a}…{b}…'   (positional fields only, no conversions or format specs, every
    argument used exactly once and in order - so evaluation order and text are the same).  Rules read interpolation as f-strings."""

    def __init__(self, stats):
        self.stats = stats

    def visit_Call(self, node):
        self.generic_visit(node)
        f = node.func
        if not (isinstance(f, ast.Attribute) and f.attr == 'format' and isinstance(f.value, ast.Constant) and isinstance(f.value.value, str) and not node.keywords
                and node.args and not any(isinstance(a, ast.Starred) for a in node.args)):
            return node
        import string
        try:
            parts = list(string.Formatter().parse(f.value.value))
        except ValueError:
            return node
        values, used = [], []
        auto = 0
        for lit, field, spec, conv in parts:
            if lit:
                values.append(ast.Constant(value=lit))
            if field is None:
                continue
            if spec or conv:
                return node
            if field == '':
                idx = auto
                auto += 1
            elif field.isdigit():
                idx = int(field)
            else:
                return node
            if idx >= len(node.args):
                return node
            used.append(idx)
            values.append(ast.FormattedValue(value=node.args[idx], conversion=-1, format_spec=None))
        if used != list(range(len(node.args))):
            return node
        self.stats['N16'] = self.stats.get('N16', 0) + 1
        return ast.fix_missing_locations(ast.copy_location(ast.JoinedStr(values=values), node))


class _AttrLiterals(ast.NodeTransformer):
    """N12: getattr(o, 'name') -> o.name ; a statement setattr(o, 'name', v) -> o.name = v   (literal identifier names only)"""

    def __init__(self, stats):
        self.stats = stats

    def visit_Call(self, node):
        self.generic_visit(node)
        if isinstance(node.func, ast.Name) and node.func.id == 'getattr' and len(node.args) == 2 and not node.keywords \
                and isinstance(node.args[1], ast.Constant) and isinstance(node.args[1].value, str) and node.args[1].value.isidentifier():
            self.stats['N12'] = self.stats.get('N12', 0) + 1
            return ast.copy_location(ast.Attribute(value=node.args[0], attr=node.args[1].value, ctx=ast.Load()), node)
        return node

    def visit_Expr(self, node):
        self.generic_visit(node)
        c = node.value
        if isinstance(c, ast.Call) and isinstance(c.func, ast.Name) and c.func.id == 'setattr' and len(c.args) == 3 and not c.keywords \
                and isinstance(c.args[1], ast.Constant) and isinstance(c.args[1].value, str) and c.args[1].value.isidentifier():
            self.stats['N12'] = self.stats.get('N12', 0) + 1
            new = ast.Assign(targets=[ast.Attribute(value=c.args[0], attr=c.args[1].value, ctx=ast.Store())], value=c.args[2])
            return ast.copy_location(new, node)
        return node


def _record_classes(tree, known: set) -> Dict[str, List[str]]:
    """record types that are new with respect to the reference: {class name: field names in order}"""
    out: Dict[str, List[str]] = {}
    for n in getattr(tree, 'body', []):
        if isinstance(n, ast.ClassDef) and n.name not in known:
            is_nt = any((isinstance(b, ast.Name) and b.id == 'NamedTuple') or (isinstance(b, ast.Attribute) and b.attr == 'NamedTuple') for b in n.bases)
            is_dc = any((isinstance(d, ast.Name) and d.id == 'dataclass') or (isinstance(d, ast.Attribute) and d.attr == 'dataclass') or
                        (isinstance(d, ast.Call) and ((isinstance(d.func, ast.Name) and d.func.id == 'dataclass') or (isinstance(d.func, ast.Attribute) and d.func.attr == 'dataclass')))
                        for d in n.decorator_list)
            if is_nt or is_dc:
                fields = [b.target.id for b in n.body if isinstance(b, ast.AnnAssign) and isinstance(b.target, ast.Name)]
                if fields and not any(isinstance(b, (ast.FunctionDef, ast.AsyncFunctionDef)) for b in n.body):
                    out[n.name] = fields
        elif isinstance(n, ast.Assign) and len(n.targets) == 1 and isinstance(n.targets[0], ast.Name) and n.targets[0].id not in known and isinstance(n.value, ast.Call) \
                and ((isinstance(n.value.func, ast.Name) and n.value.func.id == 'namedtuple') or (isinstance(n.value.func, ast.Attribute) and n.value.func.attr == 'namedtuple')) \
                and len(n.value.args) == 2:
            f = n.value.args[1]
            if isinstance(f, (ast.List, ast.Tuple)) and all(isinstance(e, ast.Constant) and isinstance(e.value, str) for e in f.elts):
                out[n.targets[0].id] = [e.value for e in f.elts]
            elif isinstance(f, ast.Constant) and isinstance(f.value, str):
                out[n.targets[0].id] = f.value.replace(',', ' ').split()
    return out


def _n13(fnode, records: Dict[str, List[str]], stats) -> None:
    """N13: a local that is only ever bound to a *new* record type (`e = _Fields(pattern, merchant, category)`, in one or several branches)
    and only read field by field is a bundle of plain variables: each construction becomes a tuple assignment to per-field variables and
    `e.category` reads the variable.  A field whose value is, in every construction, the variable of the same name (or a constant) keeps
    that name; otherwise the variable is called e__<field>."""
    if not records:
        return
    cands: Dict[str, List[ast.Assign]] = {}
    stores: Dict[str, int] = {}
    for n in ast.walk(fnode):
        if isinstance(n, ast.Name) and isinstance(n.ctx, (ast.Store, ast.Del)):
            stores[n.id] = stores.get(n.id, 0) + 1
    for st in [x for x in ast.walk(fnode) if isinstance(x, ast.Assign)]:
        if len(st.targets) == 1 and isinstance(st.targets[0], ast.Name) and isinstance(st.value, ast.Call) and isinstance(st.value.func, ast.Name) and st.value.func.id in records:
            cands.setdefault(st.targets[0].id, []).append(st)
    for x, defs in cands.items():
        cls = {d.value.func.id for d in defs}
        if len(cls) != 1 or stores.get(x) != len(defs):
            continue
        fields = records[next(iter(cls))]
        per_def = []
        ok = True
        for d in defs:
            c = d.value
            if len(c.args) == 1 and isinstance(c.args[0], ast.Starred) and not c.keywords:
                per_def.append(('star', c.args[0].value))
                continue
            if any(isinstance(a, ast.Starred) for a in c.args) or any(k.arg is None or k.arg not in fields for k in c.keywords) or len(c.args) > len(fields):
                ok = False
                break
            fmap = dict(zip(fields, c.args))
            fmap.update({k.arg: k.value for k in c.keywords})
            if set(fmap) != set(fields):
                ok = False
                break
            per_def.append(('args', fmap))
        if not ok:
            continue
        reads = [n for n in ast.walk(fnode) if isinstance(n, ast.Attribute) and isinstance(n.value, ast.Name) and n.value.id == x and isinstance(n.ctx, ast.Load) and n.attr in fields]
        read_ids = {id(n.value) for n in reads}
        if not reads or any(isinstance(n, ast.Name) and n.id == x and isinstance(n.ctx, ast.Load) and id(n) not in read_ids for n in ast.walk(fnode)):
            continue
        # variable name per field
        all_names = {n.id for n in ast.walk(fnode) if isinstance(n, ast.Name)} | {a.arg for a in ast.walk(fnode) if isinstance(a, ast.arg)}
        var = {}
        for f_ in fields:
            vals = [m[f_] for kind, m in per_def if kind == 'args']
            same = all((isinstance(v, ast.Name) and v.id == f_) or isinstance(v, ast.Constant) or (isinstance(v, (ast.List, ast.Tuple, ast.Dict)) and not ast.dump(v).count('Name')) for v in vals)
            # the plain name may be used when the function uses it for nothing else than this field: every other store of it is `f = x.f`
            other = [n for n in ast.walk(fnode) if isinstance(n, ast.Assign) and any(isinstance(t, ast.Name) and t.id == f_ for t in n.targets)
                     and not (isinstance(n.value, ast.Attribute) and isinstance(n.value.value, ast.Name) and n.value.value.id == x and n.value.attr == f_)]
            var[f_] = f_ if (same and not other) else f'{x}__{f_}'
            if var[f_] != f_ and var[f_] in all_names:
                ok = False
        if not ok:
            continue

        def targets():
            t = ast.Tuple(elts=[ast.Name(id=var[f_], ctx=ast.Store()) for f_ in fields], ctx=ast.Store())
            return t
        for d, (kind, m) in zip(defs, per_def):
            if kind == 'star':
                d.targets = [ast.copy_location(targets(), d.targets[0])]
                d.value = m
            else:
                d.targets = [ast.copy_location(targets(), d.targets[0])]
                d.value = ast.copy_location(ast.Tuple(elts=[m[f_] for f_ in fields], ctx=ast.Load()), d.value)
            ast.fix_missing_locations(d)

        class R(ast.NodeTransformer):
            def visit_Attribute(self, node):
                self.generic_visit(node)
                if isinstance(node.value, ast.Name) and node.value.id == x and isinstance(node.ctx, ast.Load) and node.attr in fields:
                    return ast.copy_location(ast.Name(id=var[node.attr], ctx=ast.Load()), node)
                return node
        R().visit(fnode)
        stats['N13'] = stats.get('N13', 0) + 1


def _encloses_loop(fnode, record_stmt, store_name) -> bool:
    """is the later store in the *same loop iteration prefix* as the record construction, i.e. a re-binding at the top of the next iteration
    (the loop's own per-iteration unpacking that precedes the record in program order of every iteration)?  Conservative: False."""
    return False


def _n15(body: List[ast.stmt], stats) -> List[ast.stmt]:
    """N15  `x = f(…) if c else y` (a conditional expression that decides whether a call happens)  ->  `if c: x = f(…)  else: x = y`,
    so that the call has its condition as a guard like any other statement.  Pure selections (`a if c else b` without calls) stay."""
    out: List[ast.stmt] = []
    for st in body:
        if isinstance(st, ast.Assign) and len(st.targets) == 1 and isinstance(st.targets[0], ast.Name) and isinstance(st.value, ast.IfExp) \
                and any(isinstance(n, ast.Call) for part in (st.value.body, st.value.orelse) for n in ast.walk(part)) \
                and not any(isinstance(n, (ast.NamedExpr, ast.Yield, ast.YieldFrom, ast.Await)) for n in ast.walk(st.value)):
            v = st.value
            a = ast.copy_location(ast.Assign(targets=[_clone(st.targets[0])], value=v.body, lineno=st.lineno), st)
            b = ast.copy_location(ast.Assign(targets=[_clone(st.targets[0])], value=v.orelse, lineno=st.lineno), st)
            out.append(ast.copy_location(ast.If(test=v.test, body=[a], orelse=[b]), st))
            stats['N15'] = stats.get('N15', 0) + 1
        else:
            out.append(st)
    return out


def _n17(body: List[ast.stmt], stats) -> List[ast.stmt]:
    """N17  `with contextlib.suppress(E1, …): body`  ->  `try: body  except (E1, …): pass` (the documented meaning of suppress), so that every
    rule about handlers sees the one form.  Only a single context item without `as`."""
    out: List[ast.stmt] = []
    for st in body:
        if isinstance(st, ast.With) and len(st.items) == 1 and st.items[0].optional_vars is None and isinstance(st.items[0].context_expr, ast.Call):
            c = st.items[0].context_expr
            fn = c.func
            name = fn.attr if isinstance(fn, ast.Attribute) and isinstance(fn.value, ast.Name) and fn.value.id == 'contextlib' else fn.id if isinstance(fn, ast.Name) else None
            if name == 'suppress' and c.args and not c.keywords and not any(isinstance(a, ast.Starred) for a in c.args):
                typ = c.args[0] if len(c.args) == 1 else ast.copy_location(ast.Tuple(elts=list(c.args), ctx=ast.Load()), c)
                h = ast.copy_location(ast.ExceptHandler(type=typ, name=None, body=[ast.copy_location(ast.Pass(), st)]), st)
                out.append(ast.copy_location(ast.Try(body=st.body, handlers=[h], orelse=[], finalbody=[]), st))
                stats['N17'] = stats.get('N17', 0) + 1
                continue
        out.append(st)
    return out


def _n14(body: List[ast.stmt], stats) -> List[ast.stmt]:
    """N14  `d['a'], d['b'] = (x, y)` with plain names / constants on the right and at least one non-name target (what inlining a helper that
    returns a pair leaves behind)  ->  `d['a'] = x; d['b'] = y`.  Nothing on the right or in a later target may read a name stored earlier."""
    out: List[ast.stmt] = []
    for st in body:
        ok = (isinstance(st, ast.Assign) and len(st.targets) == 1 and isinstance(st.targets[0], ast.Tuple) and isinstance(st.value, ast.Tuple)
              and len(st.targets[0].elts) == len(st.value.elts) and all(isinstance(v, (ast.Name, ast.Constant)) for v in st.value.elts)
              and all(isinstance(t, (ast.Name, ast.Subscript, ast.Attribute)) for t in st.targets[0].elts)
              and any(not isinstance(t, ast.Name) for t in st.targets[0].elts))
        if ok:
            stored = set()
            for t, v in zip(st.targets[0].elts, st.value.elts):
                reads = {n.id for x in (t, v) for n in ast.walk(x) if isinstance(n, ast.Name) and isinstance(n.ctx, ast.Load)}
                if reads & stored:
                    ok = False
                if isinstance(t, ast.Name):
                    stored.add(t.id)
        if not ok:
            out.append(st)
            continue
        for t, v in zip(st.targets[0].elts, st.value.elts):
            out.append(ast.copy_location(ast.Assign(targets=[t], value=v, lineno=st.lineno), st))
        stats['N14'] = stats.get('N14', 0) + 1
    return out


def normalise(tree: ast.AST, ref: dict = None) -> Dict[str, int]:
    stats: Dict[str, int] = {}
    consts = {}
    for n in getattr(tree, 'body', []):
        if isinstance(n, ast.Assign) and len(n.targets) == 1 and isinstance(n.targets[0], ast.Name) and isinstance(n.value, (ast.Tuple, ast.List)):
            consts[n.targets[0].id] = n.value
    if ref:
        records = _record_classes(tree, {x[0] for x in ref.get('#classes', {}).get('l', [])}) if '#classes' in ref else {}

        def rec(body, prefix):
            for n in body:
                if isinstance(n, (ast.FunctionDef, ast.AsyncFunctionDef)):
                    q = f'{prefix}.{n.name}' if prefix else n.name
                    ent = ref.get(q)
                    if ent is not None:
                        _n13(n, records, stats)
                        _split_new_name_tuples(n, {x[0] for x in ent.get('l', [])})
                        _n8(n, {x[0] for x in ent.get('l', [])}, stats)
                        _n9(n, {x[0] for x in ent.get('l', [])}, stats)
                    rec(n.body, q)
                elif isinstance(n, ast.ClassDef):
                    rec(n.body, f'{prefix}.{n.name}' if prefix else n.name)
                elif isinstance(n, (ast.If, ast.Try, ast.With, ast.For, ast.While)):
                    for fld in ('body', 'orelse', 'finalbody'):
                        rec(getattr(n, fld, []) or [], prefix)
        rec(tree.body, '')

    def block(body: List[ast.stmt], nested: set, in_loop: bool, in_func: bool = True) -> List[ast.stmt]:
        for st in body:
            stmt(st, nested)
        if in_func:
            body = [_n4(x, stats) for x in body]
            body = _n11(body, consts, stats)
            body = [_AttrLiterals(stats).visit(x) if not isinstance(x, (ast.FunctionDef, ast.AsyncFunctionDef, ast.ClassDef)) else x for x in body]
            body = [_FormatToFString(stats).visit(x) if not isinstance(x, (ast.FunctionDef, ast.AsyncFunctionDef, ast.ClassDef)) else x for x in body]
            body = _n5(body, stats)
            body = _n10(body, stats)
            body = _n14(body, stats)
            body = _n15(body, stats)
            body = _n17(body, stats)
        body = [_n2(x, stats) for x in body]
        body = _n1(body, nested, stats)
        if in_loop and os.environ.get('VERIF_N3'):
            body = _n3(body, stats)
        return body

    def stmt(st: ast.stmt, nested: set) -> None:
        if isinstance(st, (ast.FunctionDef, ast.AsyncFunctionDef)):
            st.body = block(st.body, _nested_names(st), False)
            return
        if isinstance(st, ast.ClassDef):
            for x in st.body:
                stmt(x, nested)
            return
        loop = isinstance(st, (ast.For, ast.While, ast.AsyncFor))
        for fld in ('body', 'orelse', 'finalbody'):
            b = getattr(st, fld, None)
            if isinstance(b, list) and b and isinstance(b[0], ast.stmt):
                setattr(st, fld, block(b, nested, loop and fld == 'body'))
        for h in getattr(st, 'handlers', []) or []:
            h.body = block(h.body, nested, False)
        for c in getattr(st, 'cases', []) or []:
            c.body = block(c.body, nested, False)
    for x in tree.body:
        stmt(x, set())
    return stats
