"""Behaviour-preserving normal form applied by the loader before any rule runs.

Two local rewrites (a third, N3, is implemented but kept off: the guard-shaped rules reason over the CFG instead), each an equivalence of Python semantics for the programs it is applied to, so that a rule written for
one spelling also sees the other:

  N1  `t = e` immediately followed by `return t`           ->  `return e`
        (t a plain local not referenced from a nested scope; the assignment reaches nothing but that return)
  N2  `x = x <op> e`  (x a plain local name)                ->  `x <op>= e`
        (for the numbers and strings the accumulators of this code base hold, the two are the same operation)
  N4  `x: T = e` on a plain local inside a function        ->  `x = e`        (the annotation of a local is never evaluated)
  N5  `if c: ... <jump>` with an else arm                   ->  the else arm follows the if (no else after return/raise/continue/break)
  N6  `f(a, y=b)` where y is the next positional parameter of the project function f  ->  `f(a, b)`   (done in Project, needs name resolution)
  N3  a loop body ending in `if not c: <rest>` (no else)    ->  `if c: continue` followed by <rest>
        and a loop body ending in `if c: <rest>` (no else, <rest> longer than one statement and containing no `continue`-free
        fall-through difference)                              ->  `if not c: continue` followed by <rest>

Positions are kept (every moved node keeps its own line), nothing is reordered, and no statement with an effect is added or removed.
"""
from __future__ import annotations

import ast
import os
from typing import Dict, List

_SCOPES = (ast.FunctionDef, ast.AsyncFunctionDef, ast.Lambda, ast.ClassDef, ast.ListComp, ast.SetComp, ast.DictComp, ast.GeneratorExp)


def _nested_names(fnode) -> set:
    out = set()
    for n in ast.walk(fnode):
        if n is not fnode and isinstance(n, _SCOPES):
            for x in ast.walk(n):
                if isinstance(x, ast.Name):
                    out.add(x.id)
    return out


def _n1(body: List[ast.stmt], nested: set, stats: Dict[str, int]) -> List[ast.stmt]:
    out: List[ast.stmt] = []
    i = 0
    while i < len(body):
        s = body[i]
        nxt = body[i + 1] if i + 1 < len(body) else None
        if (isinstance(s, ast.Assign) and len(s.targets) == 1 and isinstance(s.targets[0], ast.Name) and isinstance(nxt, ast.Return)
                and isinstance(nxt.value, ast.Name) and nxt.value.id == s.targets[0].id and s.targets[0].id not in nested
                ):
            new = ast.Return(value=s.value)
            ast.copy_location(new, s)
            new.end_lineno, new.end_col_offset = getattr(s, 'end_lineno', None), getattr(s, 'end_col_offset', None)
            out.append(new)
            stats['N1'] = stats.get('N1', 0) + 1
            i += 2
            continue
        out.append(s)
        i += 1
    return out


def _n2(s: ast.stmt, stats) -> ast.stmt:
    if (isinstance(s, ast.Assign) and len(s.targets) == 1 and isinstance(s.targets[0], ast.Name) and isinstance(s.value, ast.BinOp)
            and isinstance(s.value.left, ast.Name) and s.value.left.id == s.targets[0].id and isinstance(s.value.op, (ast.Add, ast.Sub, ast.Mult))):
        new = ast.AugAssign(target=s.targets[0], op=s.value.op, value=s.value.right)
        ast.copy_location(new, s)
        new.end_lineno, new.end_col_offset = getattr(s, 'end_lineno', None), getattr(s, 'end_col_offset', None)
        stats['N2'] = stats.get('N2', 0) + 1
        return new
    return s


def _n3(body: List[ast.stmt], stats) -> List[ast.stmt]:
    if not body:
        return body
    last = body[-1]
    if isinstance(last, ast.If) and not last.orelse and isinstance(last.test, ast.UnaryOp) and isinstance(last.test.op, ast.Not) and len(last.body) >= 1:
        guard = ast.If(test=last.test.operand, body=[ast.Continue()], orelse=[])
        ast.copy_location(guard, last)
        ast.copy_location(guard.body[0], last)
        guard.end_lineno, guard.end_col_offset = last.test.end_lineno, last.test.end_col_offset
        guard.body[0].end_lineno, guard.body[0].end_col_offset = last.test.end_lineno, last.test.end_col_offset
        stats['N3'] = stats.get('N3', 0) + 1
        return body[:-1] + [guard] + _n3(list(last.body), stats)
    return body


def _n4(s: ast.stmt, stats) -> ast.stmt:
    """annotated assignment of a plain local inside a function -> plain assignment (the annotation of a local is never evaluated)"""
    if isinstance(s, ast.AnnAssign) and s.value is not None and isinstance(s.target, ast.Name) and s.simple:
        new = ast.Assign(targets=[s.target], value=s.value)
        ast.copy_location(new, s)
        new.end_lineno, new.end_col_offset = getattr(s, 'end_lineno', None), getattr(s, 'end_col_offset', None)
        stats['N4'] = stats.get('N4', 0) + 1
        return new
    return s


_JUMPS = (ast.Return, ast.Raise, ast.Continue, ast.Break)


def _n5(body: List[ast.stmt], stats) -> List[ast.stmt]:
    """`if c: ...jump` with an else arm -> the else arm follows the if (no else after a jump)"""
    out: List[ast.stmt] = []
    for s in body:
        out.append(s)
        if isinstance(s, ast.If) and s.orelse and s.body and isinstance(s.body[-1], _JUMPS):
            rest = s.orelse
            s.orelse = []
            stats['N5'] = stats.get('N5', 0) + 1
            out.extend(_n5(rest, stats))
    return out


def normalise(tree: ast.AST) -> Dict[str, int]:
    stats: Dict[str, int] = {}

    def block(body: List[ast.stmt], nested: set, in_loop: bool, in_func: bool = True) -> List[ast.stmt]:
        for st in body:
            stmt(st, nested)
        if in_func:
            body = [_n4(x, stats) for x in body]
            body = _n5(body, stats)
        body = [_n2(x, stats) for x in body]
        body = _n1(body, nested, stats)
        if in_loop and os.environ.get('VERIF_N3'):
            body = _n3(body, stats)
        return body

    def stmt(st: ast.stmt, nested: set) -> None:
        if isinstance(st, (ast.FunctionDef, ast.AsyncFunctionDef)):
            st.body = block(st.body, _nested_names(st), False)
            return
        if isinstance(st, ast.ClassDef):
            for x in st.body:
                stmt(x, nested)
            return
        loop = isinstance(st, (ast.For, ast.While, ast.AsyncFor))
        for fld in ('body', 'orelse', 'finalbody'):
            b = getattr(st, fld, None)
            if isinstance(b, list) and b and isinstance(b[0], ast.stmt):
                setattr(st, fld, block(b, nested, loop and fld == 'body'))
        for h in getattr(st, 'handlers', []) or []:
            h.body = block(h.body, nested, False)
        for c in getattr(st, 'cases', []) or []:
            c.body = block(c.body, nested, False)
    for x in tree.body:
        stmt(x, set())
    return stats
