"""A small JavaScript front end: tokenizer + Pratt parser for the subset used in
src/tally/spending_report.js (const/let, functions, arrows, if/else, for-of,
return, member/call/index, object & array literals, template strings as opaque
tokens).  Anything outside the subset raises AnalysisError (exit 2) when it is
*parsed*; the tokenizer itself covers the whole file so that functions and call
sites can be located by token, never by text search.
"""
from __future__ import annotations

import re
from typing import Any, List, Optional, Tuple

from .project import AnalysisError

PUNCT = ['>>>=', '===', '!==', '**=', '...', '<<=', '>>=', '>>>', '&&=', '||=', '??=',
         '=>', '==', '!=', '<=', '>=', '&&', '||', '??', '?.', '++', '--', '+=', '-=', '*=', '/=', '%=',
         '&=', '|=', '^=', '<<', '>>', '**',
         '{', '}', '(', ')', '[', ']', ';', ',', '<', '>', '+', '-', '*', '/', '%', '&', '|', '^', '!', '~',
         '?', ':', '=', '.', '#', '@']
KEYWORDS = {'const', 'let', 'var', 'function', 'if', 'else', 'for', 'of', 'in', 'return', 'new', 'true', 'false',
            'null', 'undefined', 'typeof', 'while', 'break', 'continue', 'this', 'async', 'await', 'class',
            'switch', 'case', 'default', 'throw', 'try', 'catch', 'finally', 'delete', 'void', 'instanceof', 'do'}
REGEX_PREV = {'(', ',', '=', ':', '[', '!', '&', '|', '?', '{', '}', ';', '=>', '&&', '||', '==', '===', '!=', '!==',
              '+', '-', '*', '%', '<', '>', '<=', '>=', 'return', 'typeof', None}

ID_RE = re.compile(r'[A-Za-z_$][A-Za-z0-9_$]*')
NUM_RE = re.compile(r'0[xX][0-9a-fA-F]+|\d+\.?\d*(?:[eE][+-]?\d+)?|\.\d+(?:[eE][+-]?\d+)?')


class Tok:
    __slots__ = ('kind', 'val', 'pos', 'line')

    def __init__(self, kind, val, pos, line):
        self.kind, self.val, self.pos, self.line = kind, val, pos, line

    def __repr__(self):
        return f'{self.kind}:{self.val!r}@{self.line}'


def tokenize(text: str) -> List[Tok]:
    toks: List[Tok] = []
    i, n, line = 0, len(text), 1
    prev: Optional[str] = None
    while i < n:
        c = text[i]
        if c == '\n':
            line += 1
            i += 1
            continue
        if c in ' \t\r':
            i += 1
            continue
        if text.startswith('//', i):
            j = text.find('\n', i)
            i = n if j < 0 else j
            continue
        if text.startswith('/*', i):
            j = text.find('*/', i + 2)
            if j < 0:
                raise AnalysisError(f'js: unterminated comment at line {line}')
            line += text.count('\n', i, j)
            i = j + 2
            continue
        if c in '\'"':
            j = i + 1
            buf = []
            while j < n and text[j] != c:
                if text[j] == '\\' and j + 1 < n:
                    esc = text[j + 1]
                    buf.append({'n': '\n', 't': '\t', 'r': '\r'}.get(esc, esc))
                    j += 2
                    continue
                if text[j] == '\n':
                    raise AnalysisError(f'js: newline in string at line {line}')
                buf.append(text[j])
                j += 1
            toks.append(Tok('str', ''.join(buf), i, line))
            prev = 'str'
            i = j + 1
            continue
        if c == '`':
            j = i + 1
            depth = 0
            while j < n:
                ch = text[j]
                if ch == '\\':
                    j += 2
                    continue
                if depth == 0 and ch == '`':
                    break
                if text.startswith('${', j):
                    depth += 1
                    j += 2
                    continue
                if depth and ch == '{':
                    depth += 1
                elif depth and ch == '}':
                    depth -= 1
                elif depth and ch == '`':
                    # nested template inside ${}: skip it wholesale
                    k = j + 1
                    while k < n and text[k] != '`':
                        k += 2 if text[k] == '\\' else 1
                    j = k
                j += 1
            raw = text[i + 1:j]
            toks.append(Tok('template', raw, i, line))
            line += raw.count('\n')
            prev = 'str'
            i = j + 1
            continue
        if c == '/' and prev in REGEX_PREV:
            j = i + 1
            in_class = False
            while j < n:
                ch = text[j]
                if ch == '\\':
                    j += 2
                    continue
                if ch == '[':
                    in_class = True
                elif ch == ']':
                    in_class = False
                elif ch == '/' and not in_class:
                    break
                elif ch == '\n':
                    raise AnalysisError(f'js: bad regex literal at line {line}')
                j += 1
            k = j + 1
            while k < n and text[k].isalpha():
                k += 1
            toks.append(Tok('regex', text[i:k], i, line))
            prev = 'str'
            i = k
            continue
        m = ID_RE.match(text, i)
        if m:
            w = m.group(0)
            kind = 'kw' if w in KEYWORDS else 'id'
            toks.append(Tok(kind, w, i, line))
            prev = w if kind == 'kw' and w in ('return', 'typeof') else 'id'
            i = m.end()
            continue
        m = NUM_RE.match(text, i)
        if m and (c.isdigit() or (c == '.' and i + 1 < n and text[i + 1].isdigit())):
            s = m.group(0)
            v = float(s) if any(ch in s for ch in '.eE') and not s.lower().startswith('0x') else int(s, 0)
            toks.append(Tok('num', v, i, line))
            prev = 'num'
            i = m.end()
            continue
        for p in PUNCT:
            if text.startswith(p, i):
                toks.append(Tok('p', p, i, line))
                prev = p if p not in (')', ']') else 'id'
                i += len(p)
                break
        else:
            raise AnalysisError(f'js: unexpected character {c!r} at line {line}')
    toks.append(Tok('eof', None, n, line))
    return toks


class Parser:
    def __init__(self, toks: List[Tok], start: int = 0):
        self.toks = toks
        self.i = start

    # ------------------------------------------------------------- helpers
    @property
    def t(self) -> Tok:
        return self.toks[self.i]

    def peek(self, k=1) -> Tok:
        return self.toks[min(self.i + k, len(self.toks) - 1)]

    def at(self, val, kind=None) -> bool:
        t = self.t
        return t.val == val and t.kind in ((kind,) if kind else ('p', 'kw'))

    def eat(self, val):
        if not self.at(val):
            raise AnalysisError(f'js: expected {val!r} at line {self.t.line}, got {self.t!r}')
        self.i += 1

    def opt(self, val) -> bool:
        if self.at(val):
            self.i += 1
            return True
        return False

    def ident(self) -> str:
        t = self.t
        if t.kind == 'id' or (t.kind == 'kw' and t.val in ('of', 'async', 'default', 'in', 'delete', 'new', 'class', 'this')):
            self.i += 1
            return t.val
        raise AnalysisError(f'js: expected identifier at line {t.line}, got {t!r}')

    # ---------------------------------------------------------- statements
    def program(self, stop_at_eof=True) -> list:
        out = []
        while self.t.kind != 'eof':
            out.append(self.statement())
        return out

    def block(self) -> list:
        self.eat('{')
        out = []
        while not self.at('}'):
            out.append(self.statement())
        self.eat('}')
        return out

    def statement(self):
        t = self.t
        line = t.line
        if t.kind == 'p' and t.val == '{':
            return ('block', self.block())
        if t.kind == 'p' and t.val == ';':
            self.i += 1
            return ('empty',)
        if t.kind == 'kw':
            if t.val in ('const', 'let', 'var'):
                self.i += 1
                decls = []
                while True:
                    target = self.binding()
                    init = None
                    if self.opt('='):
                        init = self.assign()
                    decls.append((target, init))
                    if not self.opt(','):
                        break
                self.opt(';')
                if len(decls) == 1:
                    return ('decl', t.val, decls[0][0], decls[0][1], line)
                return ('block', [('decl', t.val, a, b, line) for a, b in decls])
            if t.val == 'function' or (t.val == 'async' and self.peek().val == 'function'):
                if t.val == 'async':
                    self.i += 1
                self.i += 1
                name = self.ident()
                params = self.params()
                body = self.block()
                return ('func', name, params, body, line)
            if t.val == 'if':
                self.i += 1
                self.eat('(')
                test = self.expr()
                self.eat(')')
                then = self.statement()
                other = None
                if self.opt('else'):
                    other = self.statement()
                return ('if', test, then, other, line)
            if t.val == 'for':
                self.i += 1
                self.eat('(')
                if self.t.kind == 'kw' and self.t.val in ('const', 'let', 'var'):
                    save = self.i
                    self.i += 1
                    try:
                        target = self.binding()
                    except AnalysisError:
                        target = None
                    if target is not None and self.at('of'):
                        self.i += 1
                        it = self.expr()
                        self.eat(')')
                        body = self.statement()
                        return ('forof', target, it, body, line)
                    if target is not None and self.at('in'):
                        self.i += 1
                        it = self.expr()
                        self.eat(')')
                        body = self.statement()
                        return ('forin', target, it, body, line)
                    self.i = save
                # classic for: init; test; update
                init = None if self.at(';') else self.statement_no_semi()
                self.eat(';')
                test = None if self.at(';') else self.expr()
                self.eat(';')
                upd = None if self.at(')') else self.expr()
                self.eat(')')
                body = self.statement()
                return ('for', init, test, upd, body, line)
            if t.val == 'while':
                self.i += 1
                self.eat('(')
                test = self.expr()
                self.eat(')')
                return ('while', test, self.statement(), line)
            if t.val == 'return':
                self.i += 1
                val = None
                if not self.at(';') and not self.at('}') and self.t.line == line:
                    val = self.expr()
                elif not self.at(';') and not self.at('}') and self.t.kind != 'eof':
                    val = None
                self.opt(';')
                return ('return', val, line)
            if t.val in ('break', 'continue'):
                self.i += 1
                self.opt(';')
                return (t.val, line)
            if t.val == 'throw':
                self.i += 1
                v = self.expr()
                self.opt(';')
                return ('throw', v, line)
            if t.val == 'try':
                self.i += 1
                body = self.block()
                handler = final = None
                if self.opt('catch'):
                    if self.opt('('):
                        self.binding()
                        self.eat(')')
                    handler = self.block()
                if self.opt('finally'):
                    final = self.block()
                return ('try', body, handler, final, line)
            if t.val == 'switch':
                # switch (e) { case A: …; break; case B: case C: …; break; default: … }  ->  an if / else-if chain on `e === A` …
                # Only the plain form: every non-empty case ends in break / return / throw (no fall-through into code), `default` comes last.
                self.i += 1
                self.eat('(')
                disc = self.expr()
                self.eat(')')
                self.eat('{')
                groups = []                 # ([labels] | None for default, [statements])
                labels: list = []
                is_default = False
                while not self.at('}'):
                    if self.opt('case'):
                        labels.append(self.expr())
                        self.eat(':')
                        continue
                    if self.opt('default'):
                        self.eat(':')
                        is_default = True
                        continue
                    body = []
                    while not (self.at('case') or self.at('default') or self.at('}')):
                        body.append(self.statement())
                    groups.append((None if is_default else labels, body))
                    if is_default and labels:
                        raise AnalysisError(f'js: switch at line {line}: `default` shares its body with a case')
                    labels, is_default = [], False
                self.eat('}')
                if labels or is_default:
                    groups.append((None if is_default else labels, []))

                def has_break(st, top=True):
                    if isinstance(st, tuple):
                        if st[:1] == ('break',):
                            return True
                        if st and st[0] in ('for', 'forof', 'forin', 'while', 'func'):
                            return False
                        return any(has_break(x, False) for x in st if isinstance(x, (tuple, list)))
                    if isinstance(st, list):
                        return any(has_break(x, False) for x in st)
                    return False
                chain = None
                for idx in range(len(groups) - 1, -1, -1):
                    labs, body = groups[idx]
                    last = idx == len(groups) - 1
                    if body and body[-1][:1] == ('break',):
                        body = body[:-1]
                    elif body and body[-1][0] in ('return', 'throw'):
                        pass
                    elif not last:
                        raise AnalysisError(f'js: switch at line {line}: a case falls through into the next one')
                    if any(has_break(x) for x in body):
                        raise AnalysisError(f'js: switch at line {line}: break inside a nested statement of a case')
                    if labs is None:
                        if not last:
                            raise AnalysisError(f'js: switch at line {line}: `default` is not the last clause')
                        chain = ('block', body)
                        continue
                    test = None
                    for lab in labs:
                        c = ('bin', '===', disc, lab)
                        test = c if test is None else ('bin', '||', test, c)
                    chain = ('if', test, ('block', body), chain, line)
                return chain if chain is not None else ('empty',)
        e = self.expr()
        self.opt(';')
        return ('expr', e, line)

    def statement_no_semi(self):
        t = self.t
        if t.kind == 'kw' and t.val in ('const', 'let', 'var'):
            self.i += 1
            decls = []
            while True:
                target = self.binding()
                init = self.assign() if self.opt('=') else None
                decls.append(('decl', t.val, target, init, t.line))
                if not self.opt(','):
                    break
            return ('block', decls)
        return ('expr', self.expr(), t.line)

    def binding(self):
        if self.at('{'):
            self.i += 1
            names = []
            while not self.at('}'):
                if self.opt('...'):
                    names.append(self.ident())
                else:
                    k = self.ident()
                    if self.opt(':'):
                        k2 = self.binding()
                        names.append(k2 if isinstance(k2, str) else k)
                    else:
                        names.append(k)
                    if self.opt('='):
                        self.assign()
                if not self.opt(','):
                    break
            self.eat('}')
            return ('pattern', tuple(names))
        if self.at('['):
            self.i += 1
            names = []
            while not self.at(']'):
                if self.at(','):
                    self.i += 1
                    continue
                b = self.binding()
                names.append(b)
                if self.opt('='):
                    self.assign()
                if not self.opt(','):
                    break
            self.eat(']')
            return ('apattern', tuple(names))
        return self.ident()

    def params(self) -> list:
        self.eat('(')
        out = []
        while not self.at(')'):
            if self.opt('...'):
                out.append(self.ident())
            else:
                out.append(self.binding())
                if self.opt('='):
                    self.assign()
            if not self.opt(','):
                break
        self.eat(')')
        return out

    # --------------------------------------------------------- expressions
    def expr(self):
        e = self.assign()
        while self.at(','):
            self.i += 1
            e = ('seq', e, self.assign())
        return e

    def _is_arrow_ahead(self) -> bool:
        """At '(' : is this the parameter list of an arrow function?"""
        depth, j = 0, self.i
        while j < len(self.toks):
            t = self.toks[j]
            if t.kind == 'p' and t.val in '([{':
                depth += 1
            elif t.kind == 'p' and t.val in ')]}':
                depth -= 1
                if depth == 0:
                    nxt = self.toks[j + 1]
                    return nxt.kind == 'p' and nxt.val == '=>'
            elif t.kind == 'eof':
                return False
            j += 1
        return False

    def arrow_body(self):
        if self.at('{'):
            return ('block', self.block())
        return self.assign()

    def assign(self):
        t = self.t
        if t.kind == 'kw' and t.val == 'async' and (self.peek().val == '(' or self.peek().kind == 'id'):
            self.i += 1
            t = self.t
        if t.kind == 'id' and self.peek().kind == 'p' and self.peek().val == '=>':
            self.i += 2
            return ('arrow', [t.val], self.arrow_body())
        if t.kind == 'p' and t.val == '(' and self._is_arrow_ahead():
            ps = self.params()
            self.eat('=>')
            return ('arrow', ps, self.arrow_body())
        left = self.cond()
        if self.t.kind == 'p' and self.t.val in ('=', '+=', '-=', '*=', '/=', '%=', '||=', '&&=', '??=', '|=', '&='):
            op = self.t.val
            self.i += 1
            return ('assign', op, left, self.assign())
        return left

    def cond(self):
        c = self.binary(0)
        if self.at('?'):
            self.i += 1
            a = self.assign()
            self.eat(':')
            b = self.assign()
            return ('cond', c, a, b)
        return c

    BIN = [('??',), ('||',), ('&&',), ('|',), ('^',), ('&',), ('==', '!=', '===', '!=='),
           ('<', '>', '<=', '>=', 'instanceof', 'in'), ('<<', '>>', '>>>'), ('+', '-'), ('*', '/', '%'), ('**',)]

    def binary(self, level):
        if level >= len(self.BIN):
            return self.unary()
        left = self.binary(level + 1)
        while self.t.kind in ('p', 'kw') and self.t.val in self.BIN[level]:
            op = self.t.val
            self.i += 1
            right = self.binary(level + 1)
            left = ('bin', op, left, right)
        return left

    def unary(self):
        t = self.t
        if t.kind == 'p' and t.val in ('!', '-', '+', '~', '++', '--'):
            self.i += 1
            return ('un', t.val, self.unary())
        if t.kind == 'kw' and t.val in ('typeof', 'void', 'delete', 'await'):
            self.i += 1
            return ('un', t.val, self.unary())
        if t.kind == 'p' and t.val == '...':
            self.i += 1
            return ('spread', self.assign())
        return self.postfix()

    def postfix(self):
        e = self.primary()
        while True:
            t = self.t
            if t.kind == 'p' and t.val == '.':
                self.i += 1
                e = ('member', e, self.ident_any())
            elif t.kind == 'p' and t.val == '?.':
                self.i += 1
                if self.at('('):
                    e = ('call', e, self.args())
                elif self.at('['):
                    self.i += 1
                    k = self.expr()
                    self.eat(']')
                    e = ('index', e, k)
                else:
                    e = ('member', e, self.ident_any())
            elif t.kind == 'p' and t.val == '[':
                self.i += 1
                k = self.expr()
                self.eat(']')
                e = ('index', e, k)
            elif t.kind == 'p' and t.val == '(':
                e = ('call', e, self.args())
            elif t.kind == 'p' and t.val in ('++', '--'):
                self.i += 1
                e = ('post', t.val, e)
            elif t.kind == 'template':
                self.i += 1
                e = ('tagged', e, t.val)
            else:
                return e

    def ident_any(self) -> str:
        t = self.t
        if t.kind in ('id', 'kw'):
            self.i += 1
            return t.val
        raise AnalysisError(f'js: expected property name at line {t.line}')

    def args(self) -> list:
        self.eat('(')
        out = []
        while not self.at(')'):
            out.append(self.assign() if not self.at('...') else self.unary())
            if not self.opt(','):
                break
        self.eat(')')
        return out

    def primary(self):
        t = self.t
        if t.kind == 'num':
            self.i += 1
            return ('num', t.val)
        if t.kind == 'str':
            self.i += 1
            return ('str', t.val)
        if t.kind == 'template':
            self.i += 1
            return ('template', t.val)
        if t.kind == 'regex':
            self.i += 1
            return ('regex', t.val)
        if t.kind == 'id':
            self.i += 1
            return ('name', t.val)
        if t.kind == 'kw':
            if t.val in ('true', 'false'):
                self.i += 1
                return ('bool', t.val == 'true')
            if t.val in ('null', 'undefined'):
                self.i += 1
                return ('null',)
            if t.val == 'this':
                self.i += 1
                return ('name', 'this')
            if t.val == 'new':
                self.i += 1
                callee = self.primary()
                while self.at('.'):
                    self.i += 1
                    callee = ('member', callee, self.ident_any())
                args = self.args() if self.at('(') else []
                return ('new', callee, args)
            if t.val == 'function' or t.val == 'async':
                if t.val == 'async':
                    self.i += 1
                self.eat('function')
                name = self.ident() if self.t.kind == 'id' else None
                ps = self.params()
                body = self.block()
                return ('arrow', ps, ('block', body))
            if t.val in ('of', 'default'):
                self.i += 1
                return ('name', t.val)
        if t.kind == 'p' and t.val == '(':
            self.i += 1
            e = self.expr()
            self.eat(')')
            return e
        if t.kind == 'p' and t.val == '[':
            self.i += 1
            items = []
            while not self.at(']'):
                if self.at(','):
                    self.i += 1
                    continue
                items.append(self.unary() if self.at('...') else self.assign())
                if not self.opt(','):
                    break
            self.eat(']')
            return ('arr', items)
        if t.kind == 'p' and t.val == '{':
            self.i += 1
            props = []
            while not self.at('}'):
                if self.opt('...'):
                    props.append(('...', self.assign()))
                else:
                    kt = self.t
                    if kt.kind in ('id', 'kw'):
                        key = kt.val
                        self.i += 1
                    elif kt.kind in ('str', 'num'):
                        key = str(kt.val)
                        self.i += 1
                    elif kt.kind == 'p' and kt.val == '[':
                        self.i += 1
                        key = ('computed', self.expr())
                        self.eat(']')
                    else:
                        raise AnalysisError(f'js: bad object key at line {kt.line}')
                    if key in ('async', 'get', 'set') and self.t.kind in ('id', 'kw') and not self.at(':') and not self.at(',') and not self.at('('):
                        key = self.t.val
                        self.i += 1
                    if self.at('('):
                        ps = self.params()
                        body = self.block()
                        props.append((key, ('arrow', ps, ('block', body))))
                    elif self.opt(':'):
                        props.append((key, self.assign()))
                    else:
                        props.append((key, ('name', key)))
                if not self.opt(','):
                    break
            self.eat('}')
            return ('obj', props)
        raise AnalysisError(f'js: unexpected token {t!r}')


def find_function(toks: List[Tok], name: str):
    """Parse `function <name>(…) {…}` located by token."""
    for i, t in enumerate(toks):
        if t.kind == 'kw' and t.val == 'function' and toks[i + 1].kind == 'id' and toks[i + 1].val == name:
            p = Parser(toks, i)
            return p.statement()
    return None


def top_function_names(toks: List[Tok]) -> List[str]:
    """names of the functions declared at nesting depth 0 (`function name(`), in source order"""
    out, depth = [], 0
    for i, t in enumerate(toks):
        if t.kind == 'p' and t.val in ('{', '(', '['):
            depth += 1
        elif t.kind == 'p' and t.val in ('}', ')', ']'):
            depth -= 1
        elif depth == 0 and t.kind == 'kw' and t.val == 'function' and i + 1 < len(toks) and toks[i + 1].kind == 'id':
            out.append(toks[i + 1].val)
    return out


def find_top_const(toks: List[Tok], name: str):
    depth = 0
    for i, t in enumerate(toks):
        if t.kind == 'p' and t.val in '({[':
            depth += 1
        elif t.kind == 'p' and t.val in ')}]':
            depth -= 1
        elif depth == 0 and t.kind == 'kw' and t.val in ('const', 'let', 'var') and toks[i + 1].kind == 'id' \
                and toks[i + 1].val == name:
            return Parser(toks, i).statement()
    return None


def call_sites(toks: List[Tok], name: str) -> List[int]:
    """Token indices of `name(` call expressions (not the declaration)."""
    out = []
    for i, t in enumerate(toks):
        if t.kind == 'id' and t.val == name and toks[i + 1].kind == 'p' and toks[i + 1].val == '(':
            if i > 0 and toks[i - 1].kind == 'kw' and toks[i - 1].val == 'function':
                continue
            if i > 0 and toks[i - 1].kind == 'p' and toks[i - 1].val == '.':
                continue
            out.append(i)
    return out


def enclosing_function_start(toks: List[Tok], idx: int) -> Optional[int]:
    """Index of the token starting the innermost function/arrow/method whose body `{` encloses idx."""
    depth = 0
    j = idx
    while j >= 0:
        t = toks[j]
        if t.kind == 'p' and t.val == '}':
            depth += 1
        elif t.kind == 'p' and t.val == '{':
            if depth == 0:
                # is this brace a function body?  preceded by ')' or '=>'
                k = j - 1
                if toks[k].kind == 'p' and toks[k].val == '=>':
                    return j
                if toks[k].kind == 'p' and toks[k].val == ')':
                    d2, m = 0, k
                    while m >= 0:
                        if toks[m].kind == 'p' and toks[m].val == ')':
                            d2 += 1
                        elif toks[m].kind == 'p' and toks[m].val == '(':
                            d2 -= 1
                            if d2 == 0:
                                break
                        m -= 1
                    before = toks[m - 1] if m > 0 else None
                    if before is not None and not (before.kind == 'kw' and before.val in
                                                   ('if', 'for', 'while', 'switch', 'catch')):
                        if before.kind == 'kw' and before.val == 'function':
                            return j
                        if before.kind == 'id':
                            b2 = toks[m - 2] if m > 1 else None
                            if b2 is not None and ((b2.kind == 'kw' and b2.val in ('function', 'async'))
                                                   or (b2.kind == 'p' and b2.val in (',', '{'))):
                                return j
            else:
                depth -= 1
        j -= 1
    return None


def walk(node):
    """Yield all tuple nodes of a JS AST."""
    if isinstance(node, tuple):
        yield node
        for x in node:
            yield from walk(x)
    elif isinstance(node, list):
        for x in node:
            yield from walk(x)
