"""Whole-package behaviour-preserving transformations (used by tools/neutral_sweep.py and by the thorough tier of every check).

Each takes (source text, relative path) and returns new source text.  Every one was run through tally's own test suite once
(tools/neutral_sweep.py <name> --emit=<scratch dir>) to confirm that it preserves behaviour.

  reformat        every module replaced by ast.unparse(ast.parse(source))  (comments dropped, layout and quoting normalised)
  docstr          a constant statement inserted at the top of every function body (shifts statement indices)
  rename          every function-local variable not used in nested scopes gets a suffix
  rename_deep     every plain local renamed with proper scoping (closures and comprehensions included)
  rename_params   every parameter renamed, keyword arguments at call sites following
  tempvar         `return e` -> `_ret = e; return _ret`
  augassign       `x += e` -> `x = x + e`
  invert_guard    `if c: continue; rest` -> `if not c: rest`
  else_after_jump rest of a block moved into the else arm of an if that ends in return/raise/continue/break
  reorder_defs    adjacent functions / methods reversed
  annassign       first plain assignment of each local annotated
  kwargs_style    positional arguments of uniquely named project functions passed by keyword
"""
import ast
import os

ROOT = os.environ.get('TALLY_REPO', '/repo')


def set_root(root: str) -> None:
    global ROOT, _PARAM_TABLE, _FUNC_PARAMS
    ROOT = root
    _PARAM_TABLE = None
    _FUNC_PARAMS = None


def py_files():
    out = []
    for d, _x, files in os.walk(os.path.join(ROOT, 'src/tally')):
        for f in files:
            if f.endswith('.py'):
                out.append(os.path.relpath(os.path.join(d, f), ROOT))
    return sorted(out)


def t_reformat(src, rel):
    return ast.unparse(ast.parse(src)) + '\n'


class Renamer(ast.NodeTransformer):
    def __init__(self, table, suffix):
        self.table = table
        self.suffix = suffix
        self.stack = []

    def _locals_of(self, fnode):
        # names assigned in this function and used nowhere else (no nested function, no global/nonlocal, not a parameter)
        assigned, banned = set(), set()
        params = {a.arg for a in fnode.args.posonlyargs + fnode.args.args + fnode.args.kwonlyargs}
        if fnode.args.vararg:
            params.add(fnode.args.vararg.arg)
        if fnode.args.kwarg:
            params.add(fnode.args.kwarg.arg)

        def walk(n, top):
            for c in ast.iter_child_nodes(n):
                if isinstance(c, (ast.FunctionDef, ast.AsyncFunctionDef, ast.Lambda, ast.ClassDef)):
                    for x in ast.walk(c):
                        if isinstance(x, ast.Name):
                            banned.add(x.id)
                    if hasattr(c, 'name'):
                        banned.add(c.name)
                    continue
                if isinstance(c, (ast.Global, ast.Nonlocal)):
                    banned.update(c.names)
                if isinstance(c, (ast.ListComp, ast.SetComp, ast.DictComp, ast.GeneratorExp)):
                    for x in ast.walk(c):
                        if isinstance(x, ast.Name):
                            banned.add(x.id)      # comprehension scopes: keep it simple
                    continue
                if isinstance(c, ast.Name) and isinstance(c.ctx, ast.Store):
                    assigned.add(c.id)
                if isinstance(c, (ast.Import, ast.ImportFrom)):
                    for a in c.names:
                        banned.add((a.asname or a.name).split('.')[0])
                if isinstance(c, ast.ExceptHandler) and c.name:
                    banned.add(c.name)
                walk(c, top)
        walk(fnode, fnode)
        return {n for n in assigned if n not in banned and n not in params and not n.startswith('__')}

    def visit_FunctionDef(self, node):
        loc = self._locals_of(node)
        self.stack.append(loc)
        new_body = []
        for s in node.body:
            new_body.append(self.visit(s))
        node.body = new_body
        self.stack.pop()
        return node

    visit_AsyncFunctionDef = visit_FunctionDef

    def visit_Lambda(self, node):
        return node

    def visit_ListComp(self, node):
        return node
    visit_SetComp = visit_DictComp = visit_GeneratorExp = visit_ListComp

    def visit_Name(self, node):
        if self.stack and node.id in self.stack[-1]:
            node.id = node.id + self.suffix
        return node

    def visit_JoinedStr(self, node):
        self.generic_visit(node)
        return node


def t_rename(src, rel):
    tree = ast.parse(src)
    tree = Renamer(None, '_rn').visit(tree)
    return ast.unparse(tree) + '\n'


def t_rename_deep(src, rel):
    """every plain local of every function renamed with proper scoping (closures and comprehensions included)"""
    from . import canon
    tree = ast.parse(src)
    for _q, fnode in canon._functions(tree):
        used = canon._all_ids(fnode)
        for name, _d in canon.signature(fnode):
            new = name + '_q'
            if new in used:
                continue
            canon._rename(fnode, name, new)
    return ast.unparse(tree) + '\n'


_PARAM_TABLE = None


def _param_table():
    """{callee simple name: set of parameter names} over the package (class name stands for its __init__)"""
    global _PARAM_TABLE
    if _PARAM_TABLE is None:
        from . import canon
        _PARAM_TABLE = {}
        for rel in py_files():
            with open(os.path.join(ROOT, rel), encoding='utf-8') as f:
                tree = ast.parse(f.read())
            for q, fnode in canon._functions(tree):
                short = q.rsplit('.', 1)[-1]
                names = [short]
                if short == '__init__' and '.' in q:
                    names.append(q.rsplit('.', 2)[-2])
                ps = {x for x in canon._params(fnode) if x not in ('self', 'cls')}
                for nm in names:
                    _PARAM_TABLE.setdefault(nm, set()).update(ps)
    return _PARAM_TABLE


def t_rename_params(src, rel, calls_only=False):
    """every parameter (except self/cls) of every function renamed, keyword arguments at call sites following"""
    from . import canon
    table = _param_table()
    tree = ast.parse(src)
    if not calls_only:
        for _q, fnode in canon._functions(tree):
            used = canon._all_ids(fnode)
            for name in sorted(canon._params(fnode)):
                if name in ('self', 'cls') or name + '_p' in used:
                    continue
                canon._rename(fnode, name, name + '_p')
    cls_of = {}
    for k in ast.walk(tree):
        if isinstance(k, ast.ClassDef):
            for c in ast.walk(k):
                if isinstance(c, ast.Call) and isinstance(c.func, ast.Name) and c.func.id == 'cls':
                    cls_of[id(c)] = k.name
    for c in ast.walk(tree):
        if isinstance(c, ast.Call) and c.keywords:
            nm = c.func.id if isinstance(c.func, ast.Name) else (c.func.attr if isinstance(c.func, ast.Attribute) else None)
            nm = cls_of.get(id(c), nm)
            for kw in c.keywords:
                if kw.arg and kw.arg in table.get(nm, ()):
                    kw.arg = kw.arg + '_p'
    return ast.unparse(tree) + '\n'


def t_tempvar(src, rel):
    """`return <expr>` becomes `_ret = <expr>; return _ret` (an intermediate variable is introduced)"""
    tree = ast.parse(src)

    class T(ast.NodeTransformer):
        def visit_Lambda(self, node):
            return node

        def visit_Return(self, node):
            if node.value is None or isinstance(node.value, (ast.Name, ast.Constant)):
                return node
            a = ast.Assign(targets=[ast.Name(id='_ret', ctx=ast.Store())], value=node.value)
            r = ast.Return(value=ast.Name(id='_ret', ctx=ast.Load()))
            return [ast.copy_location(a, node), ast.copy_location(r, node)]
    tree = T().visit(tree)
    ast.fix_missing_locations(tree)
    return ast.unparse(tree) + '\n'


def t_augassign(src, rel):
    """`x += e` on a plain local name becomes `x = x + e` (numbers and strings only: skipped when e is a list/call to list)"""
    tree = ast.parse(src)

    class T(ast.NodeTransformer):
        def visit_AugAssign(self, node):
            if isinstance(node.target, ast.Name) and isinstance(node.op, (ast.Add, ast.Sub, ast.Mult)) and not isinstance(node.value, (ast.List, ast.ListComp, ast.Tuple)):
                new = ast.Assign(targets=[ast.Name(id=node.target.id, ctx=ast.Store())],
                                 value=ast.BinOp(left=ast.Name(id=node.target.id, ctx=ast.Load()), op=node.op, right=node.value))
                return ast.copy_location(new, node)
            return node
    tree = T().visit(tree)
    ast.fix_missing_locations(tree)
    return ast.unparse(tree) + '\n'


def t_invert_guard(src, rel):
    """in a loop body, `if c: continue` followed by the rest becomes `if not c: <rest>` (guard inversion)"""
    tree = ast.parse(src)

    def fix(body):
        for i, s in enumerate(body):
            if isinstance(s, ast.If) and not s.orelse and len(s.body) == 1 and isinstance(s.body[0], ast.Continue) and i + 1 < len(body):
                rest = fix(body[i + 1:])
                new = ast.If(test=ast.UnaryOp(op=ast.Not(), operand=s.test), body=rest, orelse=[])
                return body[:i] + [ast.copy_location(new, s)]
        return body
    for n in ast.walk(tree):
        if isinstance(n, (ast.For, ast.While)):
            n.body = fix(n.body)
    ast.fix_missing_locations(tree)
    return ast.unparse(tree) + '\n'


def t_reorder_defs(src, rel):
    """runs of adjacent undecorated top-level function definitions are reversed"""
    tree = ast.parse(src)
    body, run = [], []
    for s in tree.body:
        if isinstance(s, ast.FunctionDef) and not s.decorator_list:
            run.append(s)
        else:
            body.extend(reversed(run))
            run = []
            body.append(s)
    body.extend(reversed(run))
    tree.body = body
    # methods too
    for c in ast.walk(tree):
        if isinstance(c, ast.ClassDef):
            b2, run = [], []
            for s in c.body:
                if isinstance(s, ast.FunctionDef) and not s.decorator_list:
                    run.append(s)
                else:
                    b2.extend(reversed(run))
                    run = []
                    b2.append(s)
            b2.extend(reversed(run))
            c.body = b2
    return ast.unparse(tree) + '\n'


def t_else_after_jump(src, rel):
    """`if c: ...return/raise/continue/break` followed by the rest of the block becomes if/else with the rest in the else arm"""
    tree = ast.parse(src)

    def fix(body):
        for i, s in enumerate(body):
            if isinstance(s, ast.If) and not s.orelse and isinstance(s.body[-1], (ast.Return, ast.Raise, ast.Continue, ast.Break)) and i + 1 < len(body):
                rest = fix(body[i + 1:])
                s.orelse = rest
                return body[:i + 1]
        return body

    class T(ast.NodeTransformer):
        def generic_visit(self, node):
            super().generic_visit(node)
            for fld in ('body', 'orelse', 'finalbody'):
                b = getattr(node, fld, None)
                if isinstance(b, list) and b and isinstance(b[0], ast.stmt) and not (fld == 'orelse' and isinstance(node, ast.If) and len(b) == 1 and isinstance(b[0], ast.If)):
                    setattr(node, fld, fix(b))
            return node
    tree = T().visit(tree)
    ast.fix_missing_locations(tree)
    return ast.unparse(tree) + '\n'


def t_annassign(src, rel):
    """the first plain assignment of each local gets an annotation (`x: object = v`)"""
    from . import canon
    tree = ast.parse(src)
    for _q, fnode in canon._functions(tree):
        ex = canon._excluded(fnode)
        done = set()

        class T(ast.NodeTransformer):
            def visit_FunctionDef(self, node):
                return node if node is not fnode else self.generic_visit(node)
            visit_AsyncFunctionDef = visit_FunctionDef

            def visit_Lambda(self, node):
                return node

            def visit_Assign(self, node):
                if len(node.targets) == 1 and isinstance(node.targets[0], ast.Name) and node.targets[0].id not in ex and node.targets[0].id not in done:
                    done.add(node.targets[0].id)
                    new = ast.AnnAssign(target=node.targets[0], annotation=ast.Name(id='object', ctx=ast.Load()), value=node.value, simple=1)
                    return ast.copy_location(new, node)
                return node
        T().visit(fnode)
    ast.fix_missing_locations(tree)
    return ast.unparse(tree) + '\n'


_FUNC_PARAMS = None


def t_kwargs_style(src, rel):
    """positional arguments of calls to uniquely named module-level project functions are passed by keyword"""
    from . import canon
    global _FUNC_PARAMS
    if _FUNC_PARAMS is None:
        seen = {}
        for r in py_files():
            with open(os.path.join(ROOT, r), encoding='utf-8') as f:
                t = ast.parse(f.read())
            for n in t.body:
                if isinstance(n, ast.FunctionDef) and not n.args.vararg and not n.args.posonlyargs:
                    seen.setdefault(n.name, []).append([a.arg for a in n.args.args])
        _FUNC_PARAMS = {k: v[0] for k, v in seen.items() if len(v) == 1}
    tree = ast.parse(src)
    for c in ast.walk(tree):
        if isinstance(c, ast.Call) and isinstance(c.func, ast.Name) and c.func.id in _FUNC_PARAMS and c.args and not any(isinstance(a, ast.Starred) for a in c.args):
            ps = _FUNC_PARAMS[c.func.id]
            if len(c.args) <= len(ps) and len(c.args) >= 2:
                keep, conv = c.args[:1], c.args[1:]
                c.keywords = [ast.keyword(arg=ps[1 + i], value=a) for i, a in enumerate(conv)] + c.keywords
                c.args = keep
    ast.fix_missing_locations(tree)
    return ast.unparse(tree) + '\n'


def t_docstr(src, rel):
    tree = ast.parse(src)
    for n in ast.walk(tree):
        if isinstance(n, (ast.FunctionDef, ast.AsyncFunctionDef)):
            first = n.body[0]
            if isinstance(first, ast.Expr) and isinstance(first.value, ast.Constant) and isinstance(first.value.value, str):
                n.body.insert(1, ast.Expr(ast.Constant('note')))
            else:
                n.body.insert(0, ast.Expr(ast.Constant('note')))
    ast.fix_missing_locations(tree)
    return ast.unparse(tree) + '\n'


TRANSFORMS = {'reformat': t_reformat, 'rename': t_rename, 'rename_deep': t_rename_deep, 'rename_params': t_rename_params, 'tempvar': t_tempvar, 'augassign': t_augassign,
              'invert_guard': t_invert_guard, 'reorder_defs': t_reorder_defs, 'else_after_jump': t_else_after_jump,
              'annassign': t_annassign, 'kwargs_style': t_kwargs_style, 'docstr': t_docstr}


