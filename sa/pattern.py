"""AST templates with metavariables, so that rules can describe a code shape without depending on local variable names.

Template source is ordinary Python in which identifiers with a prefix are metavariables:
    V_x   binds an identifier (an ast.Name id, a function argument name, a loop target name); the same V_x must bind the same id everywhere in one env
    E_x   binds an arbitrary expression (compared by ast.dump on re-use)
    K_x   binds a constant
    ANY   (as an expression) matches any expression; as an expression *statement* it matches any single statement
Everything else (attribute names, keyword names, literals, operators, structure) must match exactly.
"""
from __future__ import annotations

import ast
from typing import Dict, Iterator, List, Optional, Tuple

_cache: Dict[Tuple[str, str], ast.AST] = {}


def tmpl(text: str, mode: str = 'auto') -> ast.AST:
    key = (text, mode)
    if key not in _cache:
        mod = ast.parse(text.strip('\n'))
        if mode == 'auto':
            mode = 'expr' if len(mod.body) == 1 and isinstance(mod.body[0], ast.Expr) else 'stmt'
        if mode == 'expr':
            _cache[key] = mod.body[0].value
        elif len(mod.body) == 1:
            _cache[key] = mod.body[0]
        else:
            _cache[key] = mod.body          # list of statements
    return _cache[key]


def _bind(env: dict, key: str, val) -> bool:
    if key in env:
        return env[key] == val
    env[key] = val
    return True


def match(node, t, env: Optional[dict] = None) -> bool:
    """Does `node` match template `t` (an AST or template text)?  `env` is extended in place on success only."""
    if isinstance(t, str):
        t = tmpl(t)
    trial = dict(env or {})
    ok = _m(node, t, trial)
    if ok and env is not None:
        env.update(trial)
    return ok


def _m(n, t, env) -> bool:
    if isinstance(t, list):
        if not isinstance(n, list) or len(n) != len(t):
            return False
        return all(_m(a, b, env) for a, b in zip(n, t))
    if isinstance(t, ast.Expr) and isinstance(t.value, ast.Name) and t.value.id == 'ANY':
        return isinstance(n, ast.stmt)
    if isinstance(t, ast.Name):
        if t.id == 'ANY':
            return isinstance(n, ast.AST)
        if t.id.startswith('V_'):
            if isinstance(n, ast.Name):
                return _bind(env, t.id, n.id)
            if isinstance(n, str):
                return _bind(env, t.id, n)
            return False
        if t.id.startswith('E_'):
            return isinstance(n, ast.expr) and _bind(env, t.id, ast.dump(n))
        if t.id.startswith('K_'):
            return isinstance(n, ast.Constant) and _bind(env, t.id, repr(n.value))
        return isinstance(n, ast.Name) and n.id == t.id
    if type(n) is not type(t):
        return False
    if isinstance(t, ast.Constant):
        return type(n.value) is type(t.value) and n.value == t.value
    if isinstance(t, ast.arg):
        if t.arg.startswith('V_'):
            return _bind(env, t.arg, n.arg)
        return n.arg == t.arg
    for field, tv in ast.iter_fields(t):
        if field in ('ctx', 'lineno', 'col_offset', 'end_lineno', 'end_col_offset', 'type_comment', 'annotation', 'returns', 'kind'):
            continue
        nv = getattr(n, field, None)
        if isinstance(tv, list):
            if not isinstance(nv, list) or len(nv) != len(tv):
                return False
            for a, b in zip(nv, tv):
                if isinstance(b, ast.AST):
                    if not _m(a, b, env):
                        return False
                elif a != b:
                    return False
        elif isinstance(tv, ast.AST):
            if not isinstance(nv, ast.AST) or not _m(nv, tv, env):
                return False
        elif isinstance(tv, str) and tv.startswith('V_') and field in ('name', 'id', 'arg', 'attr') and field != 'attr':
            if not _bind(env, tv, nv):
                return False
        else:
            if nv != tv:
                return False
    return True


def find(root, t, env: Optional[dict] = None, *, own: bool = False) -> Iterator[Tuple[ast.AST, dict]]:
    """All sub-nodes of root (an AST or a list of statements) matching the template, each with its extended env."""
    if isinstance(t, str):
        t = tmpl(t)
    roots = root if isinstance(root, list) else [root]
    for r in roots:
        for n in ast.walk(r):
            e = dict(env or {})
            if _m(n, t, e):
                yield n, e


def find1(root, t, env: Optional[dict] = None):
    """First match (node) or None; env is extended in place."""
    for n, e in find(root, t, env):
        if env is not None:
            env.update(e)
        return n
    return None
