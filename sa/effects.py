"""Effect inventory: filesystem / process / network sinks in the package."""
from __future__ import annotations

import ast
from dataclasses import dataclass
from typing import Dict, List, Optional

from .callgraph import all_nodes
from .flow import call_name
from .project import FuncInfo, Project, dotted, src

OS_WRITE = {'os.makedirs': 'mkdir', 'os.mkdir': 'mkdir', 'os.remove': 'delete', 'os.unlink': 'delete', 'os.rename': 'move', 'os.replace': 'move',
            'os.rmdir': 'delete', 'os.removedirs': 'delete', 'os.symlink': 'write', 'os.link': 'write', 'os.chmod': 'write', 'os.truncate': 'write',
            'os.system': 'process', 'os.popen': 'process', 'os.execv': 'process', 'os.execvp': 'process', 'os.spawnl': 'process', 'os.startfile': 'process',
            'shutil.move': 'move', 'shutil.copy': 'write', 'shutil.copy2': 'write', 'shutil.copyfile': 'write', 'shutil.copytree': 'write',
            'shutil.rmtree': 'delete', 'shutil.make_archive': 'write'}
PATH_METHODS = {'write_text': 'write', 'write_bytes': 'write', 'mkdir': 'mkdir', 'unlink': 'delete', 'rename': 'move', 'replace': 'move', 'touch': 'write',
                'rmdir': 'delete', 'symlink_to': 'write'}
PROC_PREFIX = ('subprocess.',)
NET_PREFIX = ('urllib.request.', 'urllib.', 'requests.', 'http.client.', 'socket.')
TEMP_PREFIX = ('tempfile.',)


@dataclass
class Effect:
    func: FuncInfo
    node: ast.Call
    kind: str           # write | append | move | mkdir | delete | process | network | temp
    api: str
    path: Optional[ast.AST]
    dest: Optional[ast.AST] = None

    @property
    def label(self) -> str:
        p = src(self.path)[:40] if self.path is not None else ''
        return f'{self.kind}:{self.api}({p})'


def _open_mode(call: ast.Call) -> Optional[str]:
    mode = None
    if len(call.args) > 1:
        mode = call.args[1]
    for kw in call.keywords:
        if kw.arg == 'mode':
            mode = kw.value
    if mode is None:
        return 'r'
    if isinstance(mode, ast.Constant) and isinstance(mode.value, str):
        return mode.value
    return '?'


def effects_in(fi: FuncInfo, resolve_ext=None) -> List[Effect]:
    out: List[Effect] = []
    mi = fi.module
    for n in all_nodes(fi.node):
        if not isinstance(n, ast.Call):
            continue
        d = dotted(n.func)
        name = call_name(n)
        # resolve aliases: `import shutil as sh`
        full = d
        if d:
            head = d.split('.')[0]
            imp = mi.imports.get(head)
            if imp and imp[0] == 'module' and imp[1] != head:
                full = imp[1] + d[len(head):]
            elif imp and imp[0] == 'attr':
                full = f'{imp[1]}.{imp[2]}' + d[len(head):]
        if isinstance(n.func, ast.Name) and n.func.id == 'open' and 'open' not in mi.functions:
            mode = _open_mode(n)
            if any(c in mode for c in 'wax+?'):
                kind = 'append' if mode.startswith('a') else 'write'
                out.append(Effect(fi, n, kind, f"open[{mode}]", n.args[0] if n.args else None))
            continue
        if full in OS_WRITE:
            kind = OS_WRITE[full]
            out.append(Effect(fi, n, kind, full, n.args[0] if n.args else None, n.args[1] if kind == 'move' and len(n.args) > 1 else None))
            continue
        if full and full.startswith(PROC_PREFIX):
            out.append(Effect(fi, n, 'process', full, n.args[0] if n.args else None))
            continue
        if full and full.startswith(NET_PREFIX) and name in ('urlopen', 'urlretrieve', 'get', 'post', 'request', 'connect', 'create_connection', 'Request'):
            out.append(Effect(fi, n, 'network', full, n.args[0] if n.args else None))
            continue
        if full and full.startswith(TEMP_PREFIX):
            out.append(Effect(fi, n, 'temp', full, None))
            continue
        if isinstance(n.func, ast.Attribute) and name in PATH_METHODS:
            recv = n.func.value
            # dict.replace / str.replace / str.rename are not Path methods: require a path-looking receiver
            rs = src(recv)
            pathish = any(k in rs.lower() for k in ('path', 'file', 'dir')) or (isinstance(recv, ast.Call) and call_name(recv) == 'Path') \
                or (isinstance(recv, ast.BinOp) and isinstance(recv.op, ast.Div))
            if name in ('replace', 'rename', 'touch', 'unlink') and not pathish:
                continue
            if name in ('mkdir', 'write_text', 'write_bytes', 'rmdir', 'symlink_to') or pathish:
                out.append(Effect(fi, n, PATH_METHODS[name], f'Path.{name}', recv))
    return sorted(out, key=lambda e: (e.node.lineno, e.node.col_offset))


def inventory(proj: Project) -> Dict[str, List[Effect]]:
    inv = {}
    for f in proj.all_funcs():
        effs = effects_in(f)
        if effs:
            inv[f.qualname] = effs
    return inv
