"""Undoing "extract helper": functions that are new with respect to the reference vocabulary are inlined into their callers.

The rules were written against functions that exist in sa/refnames.json.  When a maintainer moves a block of such a function into a
new private helper, nothing about the program's behaviour changes, but a rule that looks for the moved statements inside the original
function no longer finds them.  The loader therefore inlines every *new* function (one whose qualified name the reference does not
know) at each call site in its own module where that can be done exactly:

  * the helper has no decorators, no *args/**kwargs, no yield/await, no global/nonlocal, is not recursive;
  * every `return` of the helper is in tail position of an if/else tree (no return inside a loop, try or with);
  * the call is the whole right-hand side of an assignment, a whole expression statement, or the operand of a `return`;
  * arguments bind to parameters by position / keyword / constant default.

A parameter whose argument is a plain name, constant or attribute chain and which the helper never rebinds is substituted; otherwise it is
bound by an assignment in front of the inlined body (argument evaluation order is preserved).  Locals of the helper that would collide with
a name used in the caller are suffixed.  Returns become assignments to the call's target (or stay returns for `return helper(..)`).
If every call site of a helper could be inlined its definition is dropped, so effect inventories do not see the code twice.
Anything that does not fit is left exactly as it is (the rule concerned then says "unrecognised shape", exit 2).
Inlined statements keep their own line numbers (those inside the helper).
"""
from __future__ import annotations

import ast
from typing import Dict, List, Optional, Set, Tuple

_SCOPES = (ast.FunctionDef, ast.AsyncFunctionDef, ast.Lambda, ast.ClassDef)
_COMPS = (ast.ListComp, ast.SetComp, ast.DictComp, ast.GeneratorExp)
_LOC = ('lineno', 'col_offset', 'end_lineno', 'end_col_offset')


def clone(n):
    if isinstance(n, ast.AST):
        new = type(n)()
        for f in n._fields:
            if hasattr(n, f):
                setattr(new, f, clone(getattr(n, f)))
        for a in _LOC:
            if hasattr(n, a):
                setattr(new, a, getattr(n, a))
        return new
    if isinstance(n, list):
        return [clone(x) for x in n]
    return n


def _own(fnode):
    """statements/expressions of the function's own scope"""
    stack = list(reversed(fnode.body))
    while stack:
        n = stack.pop()
        yield n
        if isinstance(n, _SCOPES):
            continue
        stack.extend(reversed(list(ast.iter_child_nodes(n))))


def _all_returns_tail(body: List[ast.stmt]) -> bool:
    """every Return of `body` is in tail position of an if/else tree"""
    for i, s in enumerate(body):
        last = i == len(body) - 1
        if isinstance(s, ast.Return):
            if not last:
                return False
            continue
        if isinstance(s, ast.If):
            if _has_return([s]):
                # allowed only when one arm definitely returns (the rest of the block becomes the other arm) or it is the last statement
                if not (_all_returns_tail(s.body) and _all_returns_tail(s.orelse)):
                    return False
                if not last and not (_definitely_returns(s.body) or (s.orelse and _definitely_returns(s.orelse))):
                    return False
            continue
        if isinstance(s, ast.With) and last and _all_returns_tail(s.body):
            continue                # `with …: return v` at the end: the value is computed inside, handed over after the block
        if isinstance(s, ast.Try) and _has_return([s]) and not s.finalbody and _all_returns_tail(s.body) and _all_returns_tail(s.orelse) \
                and all(_all_returns_tail(h.body) for h in s.handlers):
            if last:
                continue
            # `try: … except E: …; return a` followed by more: the rest runs only when nothing was caught, i.e. it is the else arm
            if not _has_return(s.body) and not _has_return(s.orelse) and all(_definitely_returns(h.body) for h in s.handlers) and _all_returns_tail(body[i + 1:]):
                return True
            # `try: if a: return x … except E: pass` followed by nothing but `return <trivial>`: that return cannot raise, so it may be repeated
            # at the end of the try body and of every handler
            if _trivial_return_only(body[i + 1:]) and not s.orelse and _all_returns_tail(list(s.body) + body[i + 1:]) \
                    and all(_all_returns_tail(list(h.body) + body[i + 1:]) for h in s.handlers):
                return True
        if _has_return([s]):
            return False            # return inside loop / try / match / a with that is not the last statement
    return True


def _trivial_return_only(stmts) -> bool:
    """exactly one statement, `return` of a constant, a name or an empty list / dict / tuple (nothing that can raise)"""
    if len(stmts) != 1 or not isinstance(stmts[0], ast.Return):
        return False
    v = stmts[0].value
    return v is None or isinstance(v, (ast.Constant, ast.Name)) or (isinstance(v, (ast.List, ast.Tuple)) and not v.elts) or (isinstance(v, ast.Dict) and not v.keys)


def _has_return(stmts) -> bool:
    for s in stmts:
        for n in ([s] if not isinstance(s, _SCOPES) else []):
            stack = [n]
            while stack:
                x = stack.pop()
                if isinstance(x, ast.Return):
                    return True
                if isinstance(x, _SCOPES) and x is not n:
                    continue
                stack.extend(ast.iter_child_nodes(x))
    return False


def _definitely_returns(body: List[ast.stmt]) -> bool:
    if not body:
        return False
    s = body[-1]
    if isinstance(s, (ast.Return, ast.Raise)):
        return True
    if isinstance(s, ast.If):
        return bool(s.orelse) and _definitely_returns(s.body) and _definitely_returns(s.orelse)
    if isinstance(s, ast.Try) and not s.finalbody and s.handlers:
        # `try: return a  except E: return b`
        return _definitely_returns(s.orelse if s.orelse else s.body) and all(_definitely_returns(h.body) for h in s.handlers)
    return False


def _tailify(body: List[ast.stmt], k) -> Tuple[List[ast.stmt], bool]:
    """Replace tail returns by k(value) (a list of statements).  Returns (new body, falls_off_end)."""
    out: List[ast.stmt] = []
    for i, s in enumerate(body):
        rest = body[i + 1:]
        if isinstance(s, ast.Return):
            out.extend(k(s.value, s))
            return out, False
        if isinstance(s, ast.If) and _has_return([s]):
            if _definitely_returns(s.body):
                # the rest of the block runs only when this arm did not return: it becomes the else arm
                b, _ = _tailify(s.body, k)
                o, off = _tailify(list(s.orelse) + rest, k)
                new = ast.If(test=s.test, body=b or [ast.Pass()], orelse=o)
                ast.copy_location(new, s)
                out.append(new)
                return out, off
            if s.orelse and _definitely_returns(s.orelse):
                o, _ = _tailify(s.orelse, k)
                b, off = _tailify(list(s.body) + rest, k)
                new = ast.If(test=s.test, body=b or [ast.Pass()], orelse=o)
                ast.copy_location(new, s)
                out.append(new)
                return out, off
            # last statement, both arms fine
            b, off1 = _tailify(s.body, k)
            o, off2 = _tailify(s.orelse, k)
            new = ast.If(test=s.test, body=b or [ast.Pass()], orelse=o)
            ast.copy_location(new, s)
            out.append(new)
            return out, off1 or off2 or not s.orelse
        if isinstance(s, ast.Try) and _has_return([s]):
            hs = []
            off = False
            for h in s.handlers:
                hb, o_ = _tailify(h.body, k)
                off = off or o_
                nh = ast.ExceptHandler(type=h.type, name=h.name, body=hb or [ast.Pass()])
                hs.append(ast.copy_location(nh, h))
            if rest and _has_return(s.body):
                # the trivial-return form: the closing return is repeated where the try body and the handlers fall off their end
                b, o1 = _tailify(list(s.body) + clone(rest), k)
                hs = []
                for h in s.handlers:
                    hb, _o = _tailify(list(h.body) + clone(rest), k)
                    hs.append(ast.copy_location(ast.ExceptHandler(type=h.type, name=h.name, body=hb or [ast.Pass()]), h))
                new = ast.Try(body=b or [ast.Pass()], handlers=hs, orelse=[], finalbody=[])
                ast.copy_location(new, s)
                out.append(new)
                return out, False
            if rest:
                b = list(s.body)
                o, o_ = _tailify(list(s.orelse) + rest, k)
                off = off or o_
            else:
                b, o1 = _tailify(s.body, k)
                o, o2 = _tailify(s.orelse, k)
                off = off or (o2 if s.orelse else o1)
            new = ast.Try(body=b or [ast.Pass()], handlers=hs, orelse=o, finalbody=[])
            ast.copy_location(new, s)
            out.append(new)
            return out, off
        if isinstance(s, ast.With) and _has_return([s]) and not rest:
            b, off = _tailify(s.body, k)
            new = ast.With(items=s.items, body=b or [ast.Pass()])
            ast.copy_location(new, s)
            out.append(new)
            return out, off
        out.append(s)
    return out, True


class _Subst(ast.NodeTransformer):
    def __init__(self, names: Dict[str, ast.AST], renames: Dict[str, str]):
        self.names = names
        self.renames = renames

    def visit_Name(self, node):
        if node.id in self.names and isinstance(node.ctx, ast.Load):
            new = clone(self.names[node.id])
            return ast.copy_location(new, node)
        if node.id in self.renames:
            node.id = self.renames[node.id]
        return node

    def visit_ExceptHandler(self, node):
        if node.name in self.renames:
            node.name = self.renames[node.name]
        return self.generic_visit(node)

    def visit_Lambda(self, node):
        own = {a.arg for a in node.args.args + node.args.kwonlyargs}
        saved = (self.names, self.renames)
        self.names = {k: v for k, v in self.names.items() if k not in own}
        self.renames = {k: v for k, v in self.renames.items() if k not in own}
        node.body = self.visit(node.body)
        self.names, self.renames = saved
        return node


def _beta_arg(e) -> bool:
    """an argument that may be copied into a lambda body: no calls, nothing with an effect"""
    if isinstance(e, (ast.Name, ast.Constant)):
        return True
    if isinstance(e, ast.Attribute):
        return _beta_arg(e.value)
    if isinstance(e, ast.Subscript):
        return _beta_arg(e.value) and _beta_arg(e.slice)
    return False


class _Beta(ast.NodeTransformer):
    """(lambda a, b: body)(x, y)  ->  body[a:=x, b:=y]"""

    def visit_Call(self, node):
        self.generic_visit(node)
        f = node.func
        if isinstance(f, ast.Lambda) and not node.keywords and len(node.args) == len(f.args.args) and all(_beta_arg(x) for x in node.args):
            names = {p.arg: a for p, a in zip(f.args.args, node.args)}
            return ast.copy_location(_Subst(names, {}).visit(clone(f.body)), node)
        return node


class _FoldBool(ast.NodeTransformer):
    """what substituting a constant / a lambda for a parameter makes decidable: `None is None`, `<lambda> is None`, and the and / or around it"""

    def visit_Compare(self, node):
        self.generic_visit(node)
        if len(node.ops) == 1 and isinstance(node.ops[0], (ast.Is, ast.IsNot)) and isinstance(node.left, ast.Constant) and isinstance(node.comparators[0], ast.Constant) \
                and (node.left.value is None or node.left.value is Ellipsis) and node.comparators[0].value is None:
            same = node.left.value is None
            return ast.copy_location(ast.Constant(value=same if isinstance(node.ops[0], ast.Is) else not same), node)
        return node

    def visit_BoolOp(self, node):
        self.generic_visit(node)
        is_or = isinstance(node.op, ast.Or)
        vals = []
        for v in node.values:
            if isinstance(v, ast.Constant) and isinstance(v.value, bool):
                if v.value == is_or:
                    # `… or True` / `… and False`: decided here, provided nothing in front of it remains to be evaluated
                    if not vals:
                        return ast.copy_location(ast.Constant(value=v.value), node)
                    vals.append(v)
                    break
                continue                 # `False or x` -> x, `True and x` -> x
            vals.append(v)
        if not vals:
            return ast.copy_location(ast.Constant(value=not is_or), node)
        if len(vals) == 1:
            return vals[0]
        node.values = vals
        return node


def _simple_arg(e) -> bool:
    if isinstance(e, (ast.Name, ast.Constant)):
        return True
    if isinstance(e, ast.Attribute):
        return _simple_arg(e.value)
    return False


def _names_in(e) -> Set[str]:
    return {n.id for n in ast.walk(e) if isinstance(n, ast.Name)}


def _assigned_names(fnode) -> Set[str]:
    out = set()
    for n in _own(fnode):
        if isinstance(n, ast.Name) and isinstance(n.ctx, (ast.Store, ast.Del)):
            out.add(n.id)
        elif isinstance(n, ast.ExceptHandler) and n.name:
            out.add(n.name)
        elif isinstance(n, (ast.Import, ast.ImportFrom)):
            for a in n.names:
                out.add((a.asname or a.name).split('.')[0])
        elif isinstance(n, (ast.FunctionDef, ast.AsyncFunctionDef, ast.ClassDef)):
            out.add(n.name)
        elif isinstance(n, _COMPS):
            pass
    return out


def _is_static(h) -> bool:
    return len(h.decorator_list) == 1 and isinstance(h.decorator_list[0], ast.Name) and h.decorator_list[0].id == 'staticmethod'


def eligible(h) -> bool:
    if (h.decorator_list and not _is_static(h)) or h.args.vararg or h.args.kwarg or h.args.posonlyargs or isinstance(h, ast.AsyncFunctionDef):
        return False
    for n in _own(h):
        if isinstance(n, (ast.Yield, ast.YieldFrom, ast.Await, ast.Global, ast.Nonlocal)):
            return False
        if isinstance(n, ast.Call) and isinstance(n.func, ast.Name) and n.func.id == h.name:
            return False
        if isinstance(n, (ast.FunctionDef, ast.AsyncFunctionDef, ast.ClassDef)):
            # closures over helper locals would have to be re-scoped: keep it simple
            return False
    for d in h.args.defaults + [x for x in h.args.kw_defaults if x is not None]:
        if not isinstance(d, ast.Constant):
            return False
    return _all_returns_tail(h.body)


def _bind(h, call: ast.Call, is_method: bool) -> Optional[List[Tuple[str, ast.AST]]]:
    params = [a.arg for a in h.args.args]
    if is_method:
        if not params or params[0] not in ('self', 'cls'):
            return None
        params = params[1:]
    if any(isinstance(a, ast.Starred) for a in call.args) or any(k.arg is None for k in call.keywords):
        return None
    if len(call.args) > len(params):
        return None
    bound: Dict[str, ast.AST] = {}
    for p, a in zip(params, call.args):
        bound[p] = a
    kwonly = [a.arg for a in h.args.kwonlyargs]
    for k in call.keywords:
        if k.arg in bound or (k.arg not in params and k.arg not in kwonly):
            return None
        bound[k.arg] = k.value
    nd = len(h.args.defaults)
    defaults = dict(zip([a.arg for a in h.args.args][len(h.args.args) - nd:], h.args.defaults)) if nd else {}
    for a, d in zip(h.args.kwonlyargs, h.args.kw_defaults):
        if d is not None:
            defaults[a.arg] = d
    order = []
    # evaluation order: positional args, then keywords in call order, then defaults
    for p, a in zip(params, call.args):
        order.append((p, a))
    for k in call.keywords:
        order.append((k.arg, k.value))
    for p in params + kwonly:
        if p not in bound:
            if p not in defaults:
                return None
            order.append((p, defaults[p]))
    return order


class _Liveness:
    """is the caller's own value of a name still read after `stmt`?  (a read reachable from stmt with no assignment in between; reads in nested
    scopes and in the rest of stmt itself count as live; anything unexpected counts as live)"""

    def __init__(self, caller, stmt):
        self.caller, self.stmt, self.cfg = caller, stmt, None

    def after(self, name: str) -> bool:
        from .cfg import CFG, defined_names, is_weak_def, walk_header
        caller, stmt = self.caller, self.stmt
        if not isinstance(caller, (ast.FunctionDef, ast.AsyncFunctionDef)):
            return True
        for n in ast.walk(caller):
            if n is not caller and isinstance(n, (ast.FunctionDef, ast.AsyncFunctionDef, ast.Lambda, ast.ClassDef)):
                if any(isinstance(x, ast.Name) and x.id == name for x in ast.walk(n)):
                    return True
            if isinstance(n, (ast.Global, ast.Nonlocal)) and name in n.names:
                return True
        if any(isinstance(x, ast.Name) and x.id == name for x in walk_header(stmt)):
            return True
        try:
            if self.cfg is None:
                self.cfg = CFG.of_function(caller)
            cfg = self.cfg
            if not cfg.has(stmt):
                return True
            seen = set()
            work = list(cfg.g.successors(cfg.nid(stmt)))
            while work:
                n = work.pop()
                if n in seen:
                    continue
                seen.add(n)
                s = cfg.stmt.get(n)
                if s is not None:
                    if isinstance(s, ast.AugAssign) and isinstance(s.target, ast.Name) and s.target.id == name:
                        return True
                    if any(isinstance(x, ast.Name) and x.id == name and isinstance(x.ctx, (ast.Load, ast.Del)) for x in walk_header(s)):
                        return True
                    if name in defined_names(s) and not is_weak_def(s, name):
                        continue
                work.extend(cfg.g.successors(n))
            return False
        except Exception:
            return True


def _inline_at(h, call: ast.Call, stmt: ast.stmt, caller, is_method: bool) -> Optional[List[ast.stmt]]:
    order = _bind(h, call, is_method)
    if order is None:
        return None
    body = clone(h.body)
    # drop the docstring
    if body and isinstance(body[0], ast.Expr) and isinstance(body[0].value, ast.Constant) and isinstance(body[0].value.value, str):
        body = body[1:]
    if not body:
        body = [ast.copy_location(ast.Pass(), stmt)]
    tmp = ast.Module(body=body, type_ignores=[])
    helper_assigned = set()
    for n in ast.walk(tmp):
        if isinstance(n, ast.Name) and isinstance(n.ctx, (ast.Store, ast.Del)):
            helper_assigned.add(n.id)
        elif isinstance(n, ast.ExceptHandler) and n.name:
            helper_assigned.add(n.name)
    comp_bound = {nm.id for c in ast.walk(tmp) if isinstance(c, _COMPS) for g in c.generators for nm in ast.walk(g.target) if isinstance(nm, ast.Name)}
    params = [p for p, _a in order]
    helper_locals = helper_assigned - set(params) - comp_bound
    # target of the call (shared name is fine: it is overwritten by the call anyway)
    target_names: Set[str] = set()
    if isinstance(stmt, ast.Assign):
        for t in stmt.targets:
            target_names |= {n.id for n in ast.walk(t) if isinstance(n, ast.Name)}
    caller_names = set()
    for n in ast.walk(caller):
        if isinstance(n, ast.Name):
            caller_names.add(n.id)
        elif isinstance(n, ast.arg):
            caller_names.add(n.arg)
    arg_names = set()
    for _p, a in order:
        arg_names |= _names_in(a)
    renames = {}
    live = _Liveness(caller, stmt)
    # `T = helper(…)` where the helper always returns one and the same local R, and T is bound nowhere else in the caller: R *is* T
    # (the inlined body computes straight into T; no `T = R` copy is left behind)
    result_local = None
    if isinstance(stmt, ast.Assign) and len(stmt.targets) == 1 and isinstance(stmt.targets[0], ast.Name):
        tname = stmt.targets[0].id
        rets = [n.value for n in ast.walk(tmp) if isinstance(n, ast.Return)]
        stores = sum(1 for n in ast.walk(caller) if isinstance(n, ast.Name) and n.id == tname and isinstance(n.ctx, (ast.Store, ast.Del)))
        caller_params = {a.arg for a in ast.walk(caller) if isinstance(a, ast.arg)}
        if rets and all(isinstance(v, ast.Name) for v in rets) and len({v.id for v in rets}) == 1 and rets[0].id in helper_locals \
                and tname not in helper_assigned and tname not in params and tname not in arg_names and stores == 1 and tname not in caller_params \
                and not any(isinstance(n, ast.Name) and n.id == tname for n in ast.walk(tmp)):
            result_local = rets[0].id
            renames[result_local] = tname
    for v in sorted(helper_locals):
        if v == result_local:
            continue
        # a name the caller also uses is only in the way when the caller still reads its own value after this statement
        if (v in caller_names and v not in target_names and live.after(v)) or v in arg_names:
            renames[v] = f'{v}__{h.name.strip("_")}'
    subst: Dict[str, ast.AST] = {}
    pre: List[ast.stmt] = []
    if is_method:
        selfname = h.args.args[0].arg
        if selfname in helper_assigned:
            return None
        if selfname != 'self':
            subst[selfname] = ast.Name(id='self', ctx=ast.Load())
    lambdas: Set[str] = set()
    for p, a in order:
        if p in comp_bound:
            return None
        if isinstance(a, ast.Lambda):
            # a function handed in as a lambda and only ever called in the helper: the calls are replaced by the lambda's body
            la = a.args
            plain = not (la.vararg or la.kwarg or la.kwonlyargs or la.posonlyargs or la.defaults)
            free = _names_in(a.body) - {x.arg for x in la.args}
            uses = [n for n in ast.walk(tmp) if isinstance(n, ast.Name) and n.id == p]
            called = [n for n in ast.walk(tmp) if isinstance(n, ast.Call) and isinstance(n.func, ast.Name) and n.func.id == p
                      and not n.keywords and len(n.args) == len(la.args) and all(_beta_arg(x) for x in n.args)]
            # `p is None` / `p is not None` (an optional callback): known once a lambda is handed in
            tested = [n for n in ast.walk(tmp) if isinstance(n, ast.Compare) and isinstance(n.left, ast.Name) and n.left.id == p and len(n.ops) == 1
                      and isinstance(n.ops[0], (ast.Is, ast.IsNot)) and isinstance(n.comparators[0], ast.Constant) and n.comparators[0].value is None]
            if not plain or p in helper_assigned or free & (helper_assigned | set(params)) or len(uses) != len(called) + len(tested) \
                    or any(isinstance(n, (ast.Lambda,) + _COMPS) for n in ast.walk(a.body)):
                return None
            for n in tested:
                n.left = ast.copy_location(ast.Constant(value=Ellipsis), n.left)        # marks "not None"; folded below
            subst[p] = a
            lambdas.add(p)
            continue
        assigned_after = {renames.get(x, x) for x in helper_assigned}
        if _simple_arg(a) and p not in helper_assigned and not (_names_in(a) & assigned_after) and (not pre or isinstance(a, (ast.Name, ast.Constant))):
            subst[p] = a
        else:
            pname = p if (p not in caller_names or p in target_names) and p not in arg_names else f'{p}__{h.name.strip("_")}'
            if pname != p:
                renames[p] = pname
            asg = ast.Assign(targets=[ast.Name(id=pname, ctx=ast.Store())], value=clone(a))
            ast.copy_location(asg, stmt)
            asg.targets[0].lineno, asg.targets[0].col_offset = stmt.lineno, stmt.col_offset
            pre.append(asg)
    # a substituted parameter must not be shadowed by a rename of the same id
    tr = _Subst(subst, renames)
    body = [tr.visit(s) for s in body]
    if lambdas:
        body = [_Beta().visit(s) for s in body]
    if lambdas or any(isinstance(a, ast.Constant) for _p, a in order):
        body = [_FoldBool().visit(s) for s in body]

    if isinstance(stmt, ast.Return):
        def k(value, at):
            r = ast.Return(value=value)
            return [ast.copy_location(r, at)]
        new, off = _tailify(body, k)
        if off:
            new.append(ast.copy_location(ast.Return(value=None), stmt))
    elif isinstance(stmt, ast.Expr):
        def k(value, at):
            if value is None or isinstance(value, (ast.Constant, ast.Name)):
                return []
            return [ast.copy_location(ast.Expr(value=value), at)]
        new, _off = _tailify(body, k)
        if not new:
            new = [ast.copy_location(ast.Pass(), stmt)]
    else:
        targets = stmt.targets if isinstance(stmt, ast.Assign) else [stmt.target]

        def k(value, at):
            v = value if value is not None else ast.copy_location(ast.Constant(value=None), at)
            if isinstance(v, ast.Name) and len(targets) == 1 and isinstance(targets[0], ast.Name) and targets[0].id == v.id:
                return []                   # `x = x`
            if isinstance(v, ast.Tuple) and len(targets) == 1 and isinstance(targets[0], ast.Tuple) and len(v.elts) == len(targets[0].elts) \
                    and all(isinstance(a, ast.Name) and isinstance(b, ast.Name) and a.id == b.id for a, b in zip(v.elts, targets[0].elts)):
                return []                   # `a, b = (a, b)`
            a = ast.Assign(targets=clone(targets), value=v)
            return [ast.copy_location(a, at)]
        new, off = _tailify(body, k)
        if off:
            new.extend(k(None, stmt))
    return pre + new


def _hoistable(stmt, is_helper) -> Optional[Tuple[ast.Call, ast.Call]]:
    """`recv.method(helper(..))` / `x = f(helper(..))` where everything else in the statement is a plain name, attribute chain or constant:
    returns (outer call, helper call) so that the helper call can be computed into a temporary first."""
    v = stmt.value if isinstance(stmt, (ast.Expr, ast.Assign)) else None
    if not isinstance(v, ast.Call) or is_helper(v) or not _simple_arg(v.func):
        return None
    found = None
    for a in list(v.args) + [k.value for k in v.keywords]:
        if isinstance(a, ast.Call) and is_helper(a):
            if found is not None:
                return None
            found = a
        elif not _simple_arg(a):
            return None
    return (v, found) if found is not None else None


_PURE = {'len', 'abs', 'int', 'float', 'str', 'bool', 'isinstance', 'min', 'max', 'round', 'repr', 'tuple', 'sorted', 'sum', 'any', 'all'}


def _embedded_helper_call(expr, is_helper):
    """A single helper call buried in an expression at a position that is evaluated unconditionally and exactly once, where every other
    call of the expression is a side-effect-free builtin on plain arguments.  Returns (parent node, field, index, call) or None."""
    found = []

    def rec(n, uncond):
        for fld, val in ast.iter_fields(n):
            vals = val if isinstance(val, list) else [val]
            for i, c in enumerate(vals):
                if not isinstance(c, ast.AST):
                    continue
                u = uncond
                if isinstance(n, ast.BoolOp) and not (fld == 'values' and i == 0):
                    u = False
                if isinstance(n, ast.IfExp) and fld != 'test':
                    u = False
                if isinstance(n, _COMPS + (ast.Lambda,)):
                    u = False
                if isinstance(c, ast.Call) and is_helper(c):
                    found.append((n, fld, i if isinstance(val, list) else None, c, u))
                    continue
                rec(c, u)
    rec(expr, True)
    if len(found) != 1 or not found[0][4]:
        return None
    parent, fld, idx, call, _u = found[0]
    # calls that take the helper call as (part of) their receiver or arguments run after it in any case
    after = set()

    def mark(n, chain):
        if n is call:
            after.update(id(x) for x in chain)
            return
        for c in ast.iter_child_nodes(n):
            mark(c, chain + [n])
    mark(expr, [])
    for n in ast.walk(expr):
        if isinstance(n, ast.Call) and n is not call and id(n) not in after:
            if not (isinstance(n.func, ast.Name) and n.func.id in _PURE and all(_simple_arg(a) or isinstance(a, ast.Subscript) and _simple_arg(a.value) for a in n.args) and not n.keywords):
                # method calls on plain receivers with plain args (x.get('k'), s.strip()) are tolerated as well
                if not (isinstance(n.func, ast.Attribute) and _simple_arg(n.func.value) and n.func.attr in ('get', 'strip', 'lower', 'upper', 'startswith', 'endswith', 'exists', 'join', 'isfile', 'isdir')
                        and all(_simple_arg(a) for a in n.args)):
                    return None
        if isinstance(n, (ast.NamedExpr, ast.Await, ast.Yield, ast.YieldFrom)):
            return None
    if any(is_helper(x) for a in call.args for x in ast.walk(a) if isinstance(x, ast.Call)):
        return None
    return parent, fld, idx, call


def _result_name(h) -> str:
    """name for a temporary that receives the helper's result: the variable the helper returns, when it always returns the same one"""
    rets = [n.value for n in _own(h) if isinstance(n, ast.Return)]
    if rets and all(isinstance(v, ast.Name) for v in rets) and len({v.id for v in rets}) == 1:
        return rets[0].id
    return f'_{h.name.strip("_")}_result'


def _call_of(stmt) -> Optional[ast.Call]:
    v = None
    if isinstance(stmt, ast.Expr):
        v = stmt.value
    elif isinstance(stmt, ast.Assign):
        v = stmt.value
    elif isinstance(stmt, ast.AnnAssign) and isinstance(stmt.target, ast.Name):
        v = stmt.value
    elif isinstance(stmt, ast.Return):
        v = stmt.value
    return v if isinstance(v, ast.Call) else None


def inline_module(tree: ast.Module, known: Set[str]) -> Dict[str, int]:
    """Inline the module's new helpers.  `known` = qualified names (Class.method, outer.inner, func) the reference knows."""
    stats: Dict[str, int] = {}
    # new helpers: module-level functions and methods
    top = {n.name: n for n in tree.body if isinstance(n, ast.FunctionDef) and n.name not in known}
    methods: Dict[str, Dict[str, ast.FunctionDef]] = {}
    for c in tree.body:
        if isinstance(c, ast.ClassDef):
            for m in c.body:
                if isinstance(m, ast.FunctionDef) and f'{c.name}.{m.name}' not in known and not m.name.startswith('__'):
                    methods.setdefault(c.name, {})[m.name] = m
    if not top and not methods:
        # nested new helpers are handled below per function
        pass
    top = {k: v for k, v in top.items() if eligible(v)}
    methods = {c: {k: v for k, v in ms.items() if eligible(v)} for c, ms in methods.items()}

    def process_function(f, qual: str, cls: Optional[str], outer_helpers: Dict[str, ast.FunctionDef]) -> Dict[str, ast.FunctionDef]:
        nested = dict(outer_helpers)
        nested.update({n.name: n for n in f.body if isinstance(n, ast.FunctionDef) and f'{qual}.{n.name}' not in known and eligible(n)})
        nested.pop(f.name, None)

        def expand_comprehension(s):
            """`T = [helper(..) for v in it if c]` (one clause, plain target name) -> `T = []` + the loop that appends, so that the helper
            call becomes a statement-level call that can be inlined.  Only for new helpers; the loop variable must not occur elsewhere in f."""
            if not (isinstance(s, ast.Assign) and len(s.targets) == 1 and isinstance(s.targets[0], ast.Name) and isinstance(s.value, (ast.ListComp, ast.DictComp))
                    and len(s.value.generators) == 1 and not s.value.generators[0].is_async):
                return None
            comp = s.value
            is_dict = isinstance(comp, ast.DictComp)
            helper_call = comp.value if is_dict else comp.elt
            if not isinstance(helper_call, ast.Call) or lookup_in(helper_call)[0] is None:
                return None
            if is_dict and not _beta_arg(comp.key):
                return None
            g = comp.generators[0]
            tnames = {n.id for n in ast.walk(g.target) if isinstance(n, ast.Name)}
            inside = {id(n) for n in ast.walk(comp)}
            # a loop variable outlives its loop, a comprehension variable does not: every other occurrence of these names in f must be
            # under a construct that binds the name itself (another for loop / comprehension over it), so that nothing can read the leaked value
            bound_under: Set[int] = set()
            for n in ast.walk(f):
                if isinstance(n, (ast.For, ast.AsyncFor)):
                    tn = {x.id for x in ast.walk(n.target) if isinstance(x, ast.Name)}
                    if tn & tnames:
                        for sub in [n.target] + n.body:
                            for x in ast.walk(sub):
                                if isinstance(x, ast.Name) and x.id in tn:
                                    bound_under.add(id(x))
                elif isinstance(n, _COMPS):
                    tn = {x.id for g2 in n.generators for x in ast.walk(g2.target) if isinstance(x, ast.Name)}
                    if tn & tnames:
                        for x in ast.walk(n):
                            if isinstance(x, ast.Name) and x.id in tn:
                                bound_under.add(id(x))
            for n in ast.walk(f):
                if isinstance(n, ast.Name) and n.id in tnames and id(n) not in inside and id(n) not in bound_under:
                    return None
                if isinstance(n, ast.arg) and n.arg in tnames:
                    return None
            x = s.targets[0].id
            empty = ast.Dict(keys=[], values=[]) if is_dict else ast.List(elts=[], ctx=ast.Load())
            init = ast.copy_location(ast.Assign(targets=[ast.Name(id=x, ctx=ast.Store())], value=ast.copy_location(empty, s)), s)
            if is_dict:
                app = ast.Assign(targets=[ast.Subscript(value=ast.Name(id=x, ctx=ast.Load()), slice=comp.key, ctx=ast.Store())], value=helper_call)
            else:
                app = ast.Expr(value=ast.Call(func=ast.Attribute(value=ast.Name(id=x, ctx=ast.Load()), attr='append', ctx=ast.Load()), args=[comp.elt], keywords=[]))
            ast.copy_location(app, helper_call)
            ast.fix_missing_locations(app)
            inner: ast.stmt = app
            for c in reversed(g.ifs):
                inner = ast.copy_location(ast.If(test=c, body=[inner], orelse=[]), c)
            loop = ast.copy_location(ast.For(target=g.target, iter=g.iter, body=[inner], orelse=[]), comp)
            for n in ast.walk(loop.target):
                if isinstance(n, (ast.Name, ast.Tuple, ast.List)):
                    n.ctx = ast.Store()
            return [init, loop]

        def lookup_in(call):
            if isinstance(call.func, ast.Name):
                return (nested.get(call.func.id) or (top.get(call.func.id) if call.func.id != f.name else None)), False
            if isinstance(call.func, ast.Attribute) and isinstance(call.func.value, ast.Name) and call.func.value.id == 'self' and cls:
                hh = methods.get(cls, {}).get(call.func.attr)
                return (hh if hh is not f else None), not (hh is not None and _is_static(hh))
            return None, False

        def block(body: List[ast.stmt]) -> List[ast.stmt]:
            out: List[ast.stmt] = []
            expanded: List[ast.stmt] = []
            for s in body:
                e = expand_comprehension(s)
                if e is not None:
                    stats['comprehension->loop'] = stats.get('comprehension->loop', 0) + 1
                    expanded.extend(e)
                else:
                    expanded.append(s)
            body = expanded
            for s in body:
                for fld in ('body', 'orelse', 'finalbody'):
                    b = getattr(s, fld, None)
                    if isinstance(b, list) and b and isinstance(b[0], ast.stmt) and not isinstance(s, _SCOPES):
                        setattr(s, fld, block(b))
                for hd in getattr(s, 'handlers', []) or []:
                    hd.body = block(hd.body)
                c = _call_of(s)
                done = None
                done_flag = [False]

                def lookup(call):
                    if isinstance(call.func, ast.Name):
                        return (nested.get(call.func.id) or (top.get(call.func.id) if call.func.id != f.name else None)), False
                    if isinstance(call.func, ast.Attribute) and isinstance(call.func.value, ast.Name) and call.func.value.id == 'self' and cls:
                        hh = methods.get(cls, {}).get(call.func.attr)
                        return (hh if hh is not f else None), not (hh is not None and _is_static(hh))
                    return None, False
                if c is None or lookup(c)[0] is None:
                    hz = _hoistable(s, lambda call: lookup(call)[0] is not None)
                    if hz is not None:
                        outer, inner = hz
                        h, is_m = lookup(inner)
                        tmpname = _result_name(h)
                        asg = ast.Assign(targets=[ast.Name(id=tmpname, ctx=ast.Store())], value=inner)
                        ast.copy_location(asg, s)
                        pre_stmts = _inline_at(h, inner, asg, f, is_m)
                        if pre_stmts is not None:
                            ref_ = ast.copy_location(ast.Name(id=tmpname, ctx=ast.Load()), inner)
                            outer.args = [ref_ if a is inner else a for a in outer.args]
                            for kw in outer.keywords:
                                if kw.value is inner:
                                    kw.value = ref_
                            stats[h.name] = stats.get(h.name, 0) + 1
                            out.extend(block(pre_stmts))
                            out.append(s)
                            continue
                if c is None and isinstance(s, ast.If):
                    # `if helper(..):` / `if not helper(..):` -> the result is computed into a temporary in front of the if
                    t = s.test
                    neg = isinstance(t, ast.UnaryOp) and isinstance(t.op, ast.Not)
                    core = t.operand if neg else t
                    if isinstance(core, ast.Call) and lookup(core)[0] is not None:
                        h, is_m = lookup(core)
                        tmpname = _result_name(h)
                        asg = ast.Assign(targets=[ast.Name(id=tmpname, ctx=ast.Store())], value=core)
                        ast.copy_location(asg, s)
                        pre_stmts = _inline_at(h, core, asg, f, is_m)
                        if pre_stmts is not None:
                            ref_ = ast.copy_location(ast.Name(id=tmpname, ctx=ast.Load()), core)
                            if neg:
                                t.operand = ref_
                            else:
                                s.test = ref_
                            stats[h.name] = stats.get(h.name, 0) + 1
                            out.extend(block(pre_stmts))
                            out.append(s)
                            continue
                if (c is None or lookup(c)[0] is None) and isinstance(s, (ast.If, ast.Return, ast.Assign, ast.Expr)) and not done_flag[0]:
                    # helper call buried in the test / value: computed into a temporary first when that cannot change what is observed
                    hdr = s.test if isinstance(s, ast.If) else s.value
                    if hdr is not None and not (isinstance(hdr, ast.Call) and lookup(hdr)[0] is not None):
                        emb = _embedded_helper_call(hdr, lambda call: lookup(call)[0] is not None)
                        if emb is not None:
                            par, fld, idx, call = emb
                            h, is_m = lookup(call)
                            tmpname = _result_name(h)
                            asg = ast.Assign(targets=[ast.Name(id=tmpname, ctx=ast.Store())], value=call)
                            ast.copy_location(asg, s)
                            pre_stmts = _inline_at(h, call, asg, f, is_m)
                            if pre_stmts is not None:
                                ref_ = ast.copy_location(ast.Name(id=tmpname, ctx=ast.Load()), call)
                                if idx is None:
                                    setattr(par, fld, ref_)
                                else:
                                    getattr(par, fld)[idx] = ref_
                                stats[h.name] = stats.get(h.name, 0) + 1
                                out.extend(block(pre_stmts))
                                out.append(s)
                                continue
                if c is not None:
                    h, is_m = None, False
                    if isinstance(c.func, ast.Name):
                        h = nested.get(c.func.id) or (top.get(c.func.id) if c.func.id != f.name else None)
                    elif isinstance(c.func, ast.Attribute) and isinstance(c.func.value, ast.Name) and c.func.value.id == 'self' and cls:
                        h = methods.get(cls, {}).get(c.func.attr)
                        is_m = not (h is not None and _is_static(h))
                        if h is f:
                            h = None
                    if h is not None:
                        done = _inline_at(h, c, s, f, is_m)
                        if done is not None:
                            stats[h.name] = stats.get(h.name, 0) + 1
                if done is not None:
                    out.extend(block(done))        # a helper may call another new helper
                else:
                    out.append(s)
            return out
        f.body = block(f.body)
        return nested

    def walk_defs(body, prefix, cls, helpers):
        for n in body:
            if isinstance(n, (ast.FunctionDef, ast.AsyncFunctionDef)):
                q = f'{prefix}.{n.name}' if prefix else n.name
                inner = process_function(n, q, cls, helpers)
                walk_defs(n.body, q, None, inner)
            elif isinstance(n, ast.ClassDef):
                q = f'{prefix}.{n.name}' if prefix else n.name
                walk_defs(n.body, q, n.name, {})
    for _round in range(3):
        before = dict(stats)
        walk_defs(tree.body, '', None, {})
        if stats == before:
            break
    # drop helpers that are not referenced any more
    if stats:
        def referenced(name: str, skip) -> bool:
            for n in ast.walk(tree):
                if n is skip:
                    continue
                if isinstance(n, ast.Name) and n.id == name:
                    if not _inside(n, skip, tree):
                        return True
                if isinstance(n, ast.Attribute) and n.attr == name:
                    if not _inside(n, skip, tree):
                        return True
            return False
        for name, h in list(top.items()):
            if name in stats and not referenced(name, h):
                tree.body.remove(h)
        for cname, ms in methods.items():
            cnode = next(c for c in tree.body if isinstance(c, ast.ClassDef) and c.name == cname)
            for name, h in ms.items():
                if name in stats and not referenced(name, h) and len(cnode.body) > 1:
                    cnode.body.remove(h)
        for f in [n for n in ast.walk(tree) if isinstance(n, (ast.FunctionDef, ast.AsyncFunctionDef))]:
            for n in list(f.body):
                if isinstance(n, ast.FunctionDef) and n.name in stats and not any(isinstance(x, ast.Name) and x.id == n.name for s in f.body if s is not n for x in ast.walk(s)) and len(f.body) > 1:
                    if not any(isinstance(x, ast.Name) and x.id == n.name for x in ast.walk(n)):
                        f.body.remove(n)
    return stats


def _inside(node, container, tree) -> bool:
    return any(x is node for x in ast.walk(container))


def _free_names(fnode) -> Set[str]:
    """names read in a nested function that are neither its parameters nor assigned in it (candidates for closure variables)"""
    params = {a.arg for a in fnode.args.args + fnode.args.kwonlyargs}
    loads = {n.id for n in ast.walk(fnode) if isinstance(n, ast.Name) and isinstance(n.ctx, ast.Load)}
    return loads - params
